#!/usr/bin/env python3
"""corpus.py [--refactorings] [--sensitivity] [--pids C01,C02] [--groups g71] [-j N]

Runs the two corpora against scratch copies of /repo/src (tools/trypatch.sh; /repo and /verif/evidence are not touched):

  --sensitivity    every mutants/<ID>/*.patch and every confirmed seeded/*/patch.diff (meta.json: expected_detected) must
                   be reported by the check of its property (exit 1 with a VIOLATION line);
  --refactorings   every refactorings/g*/patch_*.diff (behaviour-preserving, tested against the repo's suite when written)
                   must leave *every* claimed check silent (exit 0).

Prints one line per deviation and a summary; exit 1 if there is any deviation.  Not a registered check: this is the
machinery's own regression test.
"""
import argparse
import glob
import json
import os
import subprocess
import sys
from concurrent.futures import ThreadPoolExecutor

VERIF = os.path.dirname(os.path.dirname(os.path.abspath(__file__)))

# properties whose checks read the functions a refactoring group rewrites (a patch cannot change the verdict of a check
# that reads none of the files it touches; --all-pids runs every check against every patch anyway)
REF_PIDS = {
    "g31": "C01,C02,C03,C08,C12,C10,C16", "g41": "C01,C02,C03,C08,C12,C16",
    "g33": "C07,C08,C09,C10,C12,C14,C19", "g43": "C07,C08,C09,C10,C12,C14,C19",
    "g34": "C06,C09,C13,C17,C18,C19,C20", "g44": "C06,C09,C13,C17,C18,C20",
    "g32": "C04,C05,C07,C10,C11", "g42": "C04,C05,C07,C10,C11",
    "g51": "C02,C12,C16", "g52": "C01,C04,C07,C09,C10,C13,C18",
    "g61": "C06,C08,C09,C13,C14", "g71": "C01,C03,C06,C07,C08,C09,C12,C14,C16", "g72": "C02,C07,C08,C10,C11,C14,C20",
    "g81": "C04,C05,C10,C11,C20", "g91": "C01,C02,C03,C08,C12,C14", "g101": "C01,C04,C06,C10,C12,C18,C20", "g111": "C01,C08,C12,C14", "g121": "C02,C03,C05,C09,C11,C13,C14",
}


def claimed():
    m = json.load(open(os.path.join(VERIF, "MANIFEST.json")))
    return sorted({c["property_id"] for c in m["checks"]})


def run(job):
    kind, patch, pid = job
    r = subprocess.run([os.path.join(VERIF, "tools", "trypatch.sh"), patch, pid, "quick"], capture_output=True, text=True)
    return job, r.returncode, r.stdout + r.stderr


def main():
    ap = argparse.ArgumentParser()
    ap.add_argument("--refactorings", action="store_true")
    ap.add_argument("--sensitivity", action="store_true")
    ap.add_argument("--pids", default="")
    ap.add_argument("--groups", default="")
    ap.add_argument("--all-pids", action="store_true")
    ap.add_argument("-j", type=int, default=6)
    a = ap.parse_args()
    pids = [p for p in a.pids.split(",") if p] or claimed()
    jobs = []
    if a.sensitivity:
        for pid in pids:
            for p in sorted(glob.glob(os.path.join(VERIF, "mutants", pid, "*.patch"))):
                jobs.append(("sens", p, pid))
        for meta in sorted(glob.glob(os.path.join(VERIF, "seeded", "*", "meta.json"))):
            m = json.load(open(meta))
            for pid in [m.get("property")] + list(m.get("also_detected_by", [])):
                if pid in pids and (m.get("expected_detected", True) or pid != m.get("property")):
                    jobs.append(("sens", os.path.join(os.path.dirname(meta), "patch.diff"), pid))
    if a.refactorings:
        groups = [g for g in a.groups.split(",") if g] or sorted(os.listdir(os.path.join(VERIF, "refactorings")))
        for g in groups:
            for p in sorted(glob.glob(os.path.join(VERIF, "refactorings", g, "patch_*.diff"))):
                for pid in pids:
                    if a.all_pids or g not in REF_PIDS or pid in REF_PIDS[g].split(","):
                        jobs.append(("ref", p, pid))
    bad = 0
    done = 0
    with ThreadPoolExecutor(max_workers=a.j) as ex:
        for (kind, patch, pid), rc, out in ex.map(run, jobs):
            done += 1
            name = os.path.relpath(patch, VERIF)
            if rc == 3:
                print("SKIP  %s %s (patch does not apply)" % (name, pid))
                continue
            ok = (rc == 1 and "VIOLATION property=%s" % pid in out) if kind == "sens" else (rc == 0 and "VIOLATION" not in out)
            if not ok:
                bad += 1
                print("### %s %s %s rc=%d" % ("MISSED" if kind == "sens" else "ALARM", name, pid, rc))
                for ln in out.splitlines():
                    if ln.startswith(("ANALYSIS", "  rule", "rule ")) or " FAIL" in ln:
                        print("      " + ln[:300])
                sys.stdout.flush()
    print("corpus: %d runs, %d deviations" % (done, bad))
    return 1 if bad else 0


if __name__ == "__main__":
    sys.exit(main())
