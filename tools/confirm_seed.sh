#!/bin/sh
# confirm_seed.sh <scratch repo copy> <PID> <name>
# Confirms a sub-agent's seeded change myself: with the change the pinned tests pass and the demo fails;
# without it the demo passes. On success copies patch + demo + meta into /verif/seeded/<PID>-<name>/.
WT="$1"; PID="$2"; NAME="$3"
cd "$WT" || exit 2
git diff -- src > /tmp/confirm_patch.diff
[ -s /tmp/confirm_patch.diff ] || { echo "no change applied in $WT"; exit 2; }
echo "== baseline with change"; ./run_baseline_tests.sh | tee /tmp/confirm_base.txt
grep -q "NOT passing: \[\]" /tmp/confirm_base.txt || { echo "BASELINE FAILS WITH CHANGE"; exit 1; }
echo "== demo with change (must fail)"; (cd seed && timeout 1200 sh ./run_demo.sh > /tmp/confirm_demo_with.txt 2>&1); W=$?
tail -5 /tmp/confirm_demo_with.txt; echo "exit=$W"
git apply -R /tmp/confirm_patch.diff || { echo "cannot revert"; exit 2; }
echo "== demo without change (must pass)"; (cd seed && timeout 1200 sh ./run_demo.sh > /tmp/confirm_demo_without.txt 2>&1); O=$?
tail -5 /tmp/confirm_demo_without.txt; echo "exit=$O"
git apply /tmp/confirm_patch.diff
if [ "$W" != 0 ] && [ "$O" = 0 ]; then
  D=/verif/seeded/$PID-$NAME; mkdir -p "$D"
  cp /tmp/confirm_patch.diff "$D/patch.diff"
  (cd seed && for f in *; do case "$f" in patch.diff|demo|*.o|*.dump|*.back) ;; *) [ -f "$f" ] && [ $(stat -c %s "$f") -lt 200000 ] && cp "$f" "$D/"; esac; done)
  cp /tmp/confirm_demo_with.txt "$D/observed_with_change.txt"; cp /tmp/confirm_demo_without.txt "$D/observed_without_change.txt"
  echo "CONFIRMED -> $D"
else
  echo "NOT CONFIRMED (with=$W without=$O)"; exit 1
fi
