#!/bin/sh
# Rebuild /repo/_build (keep going past the units that do not build in this image) and run the
# pinned suite; prints the stable baseline tests that did not pass.
cd /repo && ninja -C _build -k 0 > /tmp/cmiv-build.log 2>&1
ctest --test-dir /repo/_build -j8 --timeout 900 > /tmp/cmiv-ctest.log 2>&1
python3 - <<'PY'
import json,re
base=json.load(open('/root/.vp/BASELINE.json'))['stable_pass']
log=open('/tmp/cmiv-ctest.log').read()
passed=set(re.findall(r'Test\s+#\d+:\s+(\S+)\s+\.+\s+Passed',log))
missing=[t.split('::')[0] for t in base if t.split('::')[0] not in passed]
print("baseline stable tests: %d, passed now: %d, missing: %s"%(len(base),len(base)-len(missing),missing))
PY
