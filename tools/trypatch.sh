#!/bin/sh
# trypatch.sh <patch.diff> <PID> [tier]  - run a check against a scratch copy of /repo/src with the
# patch applied (never touches /repo or /verif/evidence). Prints the check output; exit code of the check.
set -e
PATCH="$(readlink -f "$1")"; PID="$2"; TIER="${3:-quick}"
D="$(mktemp -d /tmp/cmiv-scratch-XXXXXX)"
trap 'rm -rf "$D"' EXIT
mkdir -p "$D/repo" "$D/ev"
cp -r /repo/src "$D/repo/src"
( cd "$D/repo" && patch -s -p1 < "$PATCH" ) || { echo "PATCH-DOES-NOT-APPLY"; exit 3; }
set +e
CMIV_REPO="$D/repo" CMIV_EVIDENCE_DIR="$D/ev" "$(dirname "$0")/../bin/cmi-verify" "$PID" --tier "$TIER"
rc=$?
exit $rc
