#!/usr/bin/env python3
"""mkmutant.py <PID> <name> <file under src/> <<< JSON {"old": ..., "new": ..., "nth": 0}
Creates mutants/<PID>/<name>.patch replacing the nth occurrence of old by new in /repo/src/<file>."""
import difflib, json, os, sys
pid, name, rel = sys.argv[1:4]
spec = json.load(sys.stdin)
p = os.path.join("/repo/src", rel)
s = open(p).read()
old, new, nth = spec["old"], spec["new"], spec.get("nth", 0)
idx = -1
for _ in range(nth + 1):
    idx = s.index(old, idx + 1)
t = s[:idx] + new + s[idx + len(old):]
d = "".join(difflib.unified_diff(s.splitlines(True), t.splitlines(True), "a/src/" + rel, "b/src/" + rel, n=3))
out = os.path.join(os.path.dirname(os.path.abspath(__file__)), "..", "mutants", pid)
os.makedirs(out, exist_ok=True)
open(os.path.join(out, name + ".patch"), "w").write(d)
print("wrote", name, len(d))
