// cmiast: clang 14 frontend plugin that exports a compact, type-resolved JSON
// description of every declaration (records, enums, functions with bodies,
// namespace-scope variables) defined in files below a set of root directories,
// including implicit template instantiations.  One JSON object per line.
//
// Usage: clang++ -fsyntax-only -fplugin=cmiast.so -Xclang -plugin -Xclang cmiast
//          -Xclang -plugin-arg-cmiast -Xclang out=<file>
//          -Xclang -plugin-arg-cmiast -Xclang root=<dir>   (repeatable)
//          [-Xclang -plugin-arg-cmiast -Xclang mainonly=1]
//
// This is the only component of /verif that touches clang's C++ API.  It makes
// no decisions; it only serialises the resolved program for the Python rules.

#include "clang/AST/AST.h"
#include "clang/AST/ExprCXX.h"
#include "clang/AST/ASTConsumer.h"
#include "clang/AST/RecursiveASTVisitor.h"
#include "clang/AST/StmtOpenMP.h"
#include "clang/Frontend/CompilerInstance.h"
#include "clang/Frontend/FrontendPluginRegistry.h"
#include "clang/Lex/Lexer.h"
#include "llvm/Support/raw_ostream.h"
#include <set>
#include <string>
#include <vector>

using namespace clang;

namespace {

struct Options {
  std::string out;
  std::vector<std::string> roots;
  bool mainonly = false;
};

static std::string jesc(llvm::StringRef s) {
  std::string r;
  r.reserve(s.size() + 2);
  for (unsigned char c : s) {
    switch (c) {
    case '"': r += "\\\""; break;
    case '\\': r += "\\\\"; break;
    case '\n': r += "\\n"; break;
    case '\r': r += "\\r"; break;
    case '\t': r += "\\t"; break;
    default:
      if (c < 0x20 || c >= 0x7f) {
        char buf[8];
        snprintf(buf, sizeof buf, "\\u%04x", c);
        r += buf;
      } else
        r += (char)c;
    }
  }
  return r;
}

class Emitter {
public:
  ASTContext &Ctx;
  SourceManager &SM;
  const Options &Opt;
  llvm::raw_ostream &OS;
  PrintingPolicy PP;
  std::set<const Decl *> Done;

  Emitter(ASTContext &C, const Options &O, llvm::raw_ostream &os)
      : Ctx(C), SM(C.getSourceManager()), Opt(O), OS(os),
        PP(C.getLangOpts()) {
    PP.SuppressTagKeyword = true;
    PP.Bool = true;
    PP.SuppressUnwrittenScope = true;
  }

  std::string fileOf(SourceLocation L) {
    if (L.isInvalid()) return "";
    SourceLocation E = SM.getExpansionLoc(L);
    PresumedLoc P = SM.getPresumedLoc(E);
    if (P.isInvalid()) return "";
    return P.getFilename();
  }
  unsigned lineOf(SourceLocation L) {
    if (L.isInvalid()) return 0;
    return SM.getExpansionLineNumber(L);
  }
  unsigned colOf(SourceLocation L) {
    if (L.isInvalid()) return 0;
    return SM.getExpansionColumnNumber(L);
  }
  bool inRoots(SourceLocation L) {
    std::string f = fileOf(L);
    if (f.empty()) return false;
    if (Opt.mainonly) {
      if (!SM.isInMainFile(SM.getExpansionLoc(L))) return false;
    }
    for (auto &r : Opt.roots)
      if (f.compare(0, r.size(), r) == 0) return true;
    return false;
  }
  bool inRootsNoMain(SourceLocation L) {
    std::string f = fileOf(L);
    if (f.empty()) return false;
    for (auto &r : Opt.roots)
      if (f.compare(0, r.size(), r) == 0) return true;
    return false;
  }

  std::string macroName(SourceLocation L) {
    if (!L.isMacroID()) return "";
    // outermost macro expansion that produced this location
    SourceLocation Cur = L;
    std::string name;
    while (Cur.isMacroID()) {
      if (SM.isMacroArgExpansion(Cur)) {
        Cur = SM.getImmediateExpansionRange(Cur).getBegin();
        continue;
      }
      name = Lexer::getImmediateMacroName(Cur, SM, Ctx.getLangOpts()).str();
      Cur = SM.getImmediateExpansionRange(Cur).getBegin();
    }
    return name;
  }

  std::string typeStr(QualType T) {
    if (T.isNull()) return "";
    return T.getAsString(PP);
  }
  std::string canonStr(QualType T) {
    if (T.isNull()) return "";
    return T.getCanonicalType().getAsString(PP);
  }
  std::string qname(const NamedDecl *D) {
    std::string s;
    llvm::raw_string_ostream ss(s);
    D->printQualifiedName(ss, PP);
    return ss.str();
  }
  // qualified name including template arguments of enclosing specialisations
  std::string fullName(const NamedDecl *D) {
    std::string s;
    llvm::raw_string_ostream ss(s);
    D->getNameForDiagnostic(ss, PP, true);
    return ss.str();
  }
  std::string recordName(const CXXRecordDecl *R) {
    // class name with template args for specialisations
    std::string s;
    llvm::raw_string_ostream ss(s);
    R->getNameForDiagnostic(ss, PP, true);
    return ss.str();
  }

  // ---------------------------------------------------------------- helpers
  void kv(const char *k, llvm::StringRef v, bool &first) {
    if (!first) OS << ",";
    first = false;
    OS << "\"" << k << "\":\"" << jesc(v) << "\"";
  }
  void kvraw(const char *k, llvm::StringRef v, bool &first) {
    if (!first) OS << ",";
    first = false;
    OS << "\"" << k << "\":" << v;
  }
  void kvi(const char *k, long long v, bool &first) {
    if (!first) OS << ",";
    first = false;
    OS << "\"" << k << "\":" << v;
  }
  void kvb(const char *k, bool v, bool &first) {
    if (!first) OS << ",";
    first = false;
    OS << "\"" << k << "\":" << (v ? "true" : "false");
  }
  void key(const char *k, bool &first) {
    if (!first) OS << ",";
    first = false;
    OS << "\"" << k << "\":";
  }

  void loc(const Stmt *S, bool &first) {
    SourceLocation B = S->getBeginLoc();
    kvi("l", lineOf(B), first);
    kvi("c", colOf(B), first);
    if (B.isMacroID()) {
      std::string m = macroName(B);
      if (!m.empty()) kv("mac", m, first);
    }
  }

  static const Expr *strip(const Expr *E) {
    // remove purely syntactic / lifetime wrappers; keep numeric conversions
    while (E) {
      if (auto *P = dyn_cast<ParenExpr>(E)) { E = P->getSubExpr(); continue; }
      if (auto *P = dyn_cast<ExprWithCleanups>(E)) { E = P->getSubExpr(); continue; }
      if (auto *P = dyn_cast<MaterializeTemporaryExpr>(E)) { E = P->getSubExpr(); continue; }
      if (auto *P = dyn_cast<CXXBindTemporaryExpr>(E)) { E = P->getSubExpr(); continue; }
      if (auto *P = dyn_cast<ConstantExpr>(E)) { E = P->getSubExpr(); continue; }
      if (auto *P = dyn_cast<SubstNonTypeTemplateParmExpr>(E)) { E = P->getReplacement(); continue; }
      if (auto *P = dyn_cast<ImplicitCastExpr>(E)) {
        switch (P->getCastKind()) {
        case CK_IntegralToFloating:
        case CK_FloatingToIntegral:
        case CK_IntegralCast:
        case CK_FloatingCast:
        case CK_IntegralToBoolean:
        case CK_FloatingToBoolean:
        case CK_PointerToBoolean:
        case CK_UserDefinedConversion:
        case CK_ConstructorConversion:
          return E;
        default:
          E = P->getSubExpr();
          continue;
        }
      }
      break;
    }
    return E;
  }

  void exprOrNull(const Expr *E) {
    if (!E) { OS << "null"; return; }
    expr(E);
  }

  void children(const Stmt *S, bool &first) {
    key("ch", first);
    OS << "[";
    bool f = true;
    for (const Stmt *C : S->children()) {
      if (!f) OS << ",";
      f = false;
      if (!C) { OS << "null"; continue; }
      stmt(C);
    }
    OS << "]";
  }

  void declRefCommon(const ValueDecl *D, bool &first) {
    kv("n", D->getNameAsString(), first);
    const char *dk = D->getDeclKindName();
    kv("dk", dk, first);
    bool local = false;
    if (auto *V = dyn_cast<VarDecl>(D)) local = V->isLocalVarDeclOrParm();
    if (local) {
      kvi("id", (long long)(uintptr_t)D->getCanonicalDecl() & 0xffffffffffffLL, first);
    } else {
      kv("q", qname(D), first);
    }
    if (auto *EC = dyn_cast<EnumConstantDecl>(D)) {
      kvraw("v", llvm::toString(EC->getInitVal(), 10), first);
    } else if (auto *V = dyn_cast<VarDecl>(D)) {
      if (V->getType().isConstQualified() && V->getType()->isIntegralOrEnumerationType() && !isa<ParmVarDecl>(V)) {
        const VarDecl *Def = nullptr;
        const Expr *Init = V->getAnyInitializer(Def);
        if (Init && !Init->isValueDependent()) {
          Expr::EvalResult R;
          if (Init->EvaluateAsInt(R, Ctx))
            kvraw("v", llvm::toString(R.Val.getInt(), 10), first);
        }
      }
    }
  }

  void callee(const FunctionDecl *FD, bool &first) {
    kv("fn", qname(FD), first);
    key("pt", first);
    OS << "[";
    for (unsigned i = 0; i < FD->getNumParams(); ++i) {
      if (i) OS << ",";
      OS << "\"" << jesc(canonStr(FD->getParamDecl(i)->getType())) << "\"";
    }
    OS << "]";
    if (FD->isNoReturn()) kvb("noret", true, first);
    if (auto *MD = dyn_cast<CXXMethodDecl>(FD)) {
      kv("cls", recordName(MD->getParent()), first);
      if (MD->isVirtual()) kvb("virt", true, first);
      if (MD->isStatic()) kvb("static", true, first);
    }
    if (FD->isTemplateInstantiation() || FD->getTemplateSpecializationArgs()) {
      if (auto *TA = FD->getTemplateSpecializationArgs()) {
        std::string s;
        llvm::raw_string_ostream ss(s);
        bool f = true;
        for (auto &A : TA->asArray()) {
          if (!f) ss << ", ";
          f = false;
          A.print(PP, ss, true);
        }
        kv("targs", ss.str(), first);
      }
    }
  }

  void expr(const Expr *E0) {
    const Expr *E = strip(E0);
    OS << "{";
    bool first = true;
    if (auto *IC = dyn_cast<ImplicitCastExpr>(E)) {
      kv("k", "ICast", first);
      kv("ck", IC->getCastKindName(), first);
      kv("t", canonStr(IC->getType()), first);
      key("x", first);
      expr(IC->getSubExpr());
    } else if (auto *DR = dyn_cast<DeclRefExpr>(E)) {
      kv("k", "Ref", first);
      loc(E, first);
      declRefCommon(DR->getDecl(), first);
      kv("t", canonStr(DR->getType()), first);
    } else if (auto *ME = dyn_cast<MemberExpr>(E)) {
      kv("k", "Mem", first);
      loc(E, first);
      const ValueDecl *D = ME->getMemberDecl();
      kv("n", D->getNameAsString(), first);
      kv("dk", D->getDeclKindName(), first);
      kv("q", qname(D), first);
      if (auto *R = dyn_cast<CXXRecordDecl>(D->getDeclContext()))
        kv("cls", recordName(R), first);
      if (ME->isArrow()) kvb("arrow", true, first);
      kv("t", canonStr(ME->getType()), first);
      key("b", first);
      expr(ME->getBase());
    } else if (isa<CXXThisExpr>(E)) {
      kv("k", "This", first);
      kv("t", canonStr(E->getType()), first);
    } else if (auto *IL = dyn_cast<IntegerLiteral>(E)) {
      kv("k", "Int", first);
      loc(E, first);
      kvraw("v", llvm::toString(IL->getValue(), 10, false), first);
      kv("t", canonStr(E->getType()), first);
    } else if (auto *FL = dyn_cast<FloatingLiteral>(E)) {
      kv("k", "Float", first);
      loc(E, first);
      llvm::SmallString<32> s;
      FL->getValue().toString(s, 0, 0);
      kv("v", s.str(), first);
      // exact source spelling as written
      {
        SourceLocation B = SM.getSpellingLoc(E->getBeginLoc());
        llvm::SmallString<32> buf;
        bool inv = false;
        llvm::StringRef sp = Lexer::getSpelling(B, buf, SM, Ctx.getLangOpts(), &inv);
        if (!inv) kv("sp", sp, first);
      }
      kv("t", canonStr(E->getType()), first);
    } else if (auto *BL = dyn_cast<CXXBoolLiteralExpr>(E)) {
      kv("k", "Bool", first);
      loc(E, first);
      kvb("v", BL->getValue(), first);
    } else if (auto *SL = dyn_cast<StringLiteral>(E)) {
      kv("k", "Str", first);
      loc(E, first);
      if (SL->getCharByteWidth() == 1)
        kv("v", SL->getString(), first);
      else
        kv("v", "<wide>", first);
    } else if (auto *CL = dyn_cast<CharacterLiteral>(E)) {
      kv("k", "Char", first);
      loc(E, first);
      kvi("v", CL->getValue(), first);
    } else if (isa<CXXNullPtrLiteralExpr>(E) || isa<GNUNullExpr>(E)) {
      kv("k", "Null", first);
      loc(E, first);
    } else if (auto *BO = dyn_cast<BinaryOperator>(E)) {
      kv("k", "Bin", first);
      loc(E, first);
      kv("op", BO->getOpcodeStr(), first);
      kv("t", canonStr(E->getType()), first);
      if (auto *CA = dyn_cast<CompoundAssignOperator>(BO))
        kv("ct", canonStr(CA->getComputationResultType()), first);
      key("a", first);
      expr(BO->getLHS());
      key("b", first);
      expr(BO->getRHS());
    } else if (auto *UO = dyn_cast<UnaryOperator>(E)) {
      kv("k", "Un", first);
      loc(E, first);
      std::string op = UnaryOperator::getOpcodeStr(UO->getOpcode()).str();
      if (UO->isPostfix()) op = "post" + op;
      else if (UO->isIncrementDecrementOp()) op = "pre" + op;
      kv("op", op, first);
      kv("t", canonStr(E->getType()), first);
      key("x", first);
      expr(UO->getSubExpr());
    } else if (auto *CO = dyn_cast<ConditionalOperator>(E)) {
      kv("k", "Cond", first);
      loc(E, first);
      kv("t", canonStr(E->getType()), first);
      key("c", first);
      expr(CO->getCond());
      key("a", first);
      expr(CO->getTrueExpr());
      key("b", first);
      expr(CO->getFalseExpr());
    } else if (auto *AS = dyn_cast<ArraySubscriptExpr>(E)) {
      kv("k", "Idx", first);
      loc(E, first);
      kv("t", canonStr(E->getType()), first);
      key("a", first);
      expr(AS->getBase());
      key("i", first);
      expr(AS->getIdx());
    } else if (auto *NE = dyn_cast<CXXNewExpr>(E)) {
      kv("k", "New", first);
      loc(E, first);
      kvb("arr", NE->isArray(), first);
      kv("ty", canonStr(NE->getAllocatedType()), first);
      if (NE->isArray() && NE->getArraySize() && *NE->getArraySize()) {
        key("sz", first);
        expr(*NE->getArraySize());
      }
      if (NE->getInitializer()) {
        key("init", first);
        expr(NE->getInitializer());
      }
      if (NE->getNumPlacementArgs() > 0) kvi("npl", NE->getNumPlacementArgs(), first);
    } else if (auto *DE = dyn_cast<CXXDeleteExpr>(E)) {
      kv("k", "Delete", first);
      loc(E, first);
      kvb("arr", DE->isArrayForm(), first);
      key("x", first);
      expr(DE->getArgument());
    } else if (auto *CE = dyn_cast<CXXConstructExpr>(E)) {
      kv("k", "Ctor", first);
      loc(E, first);
      const CXXConstructorDecl *CD = CE->getConstructor();
      kv("cls", recordName(CD->getParent()), first);
      kv("t", canonStr(E->getType()), first);
      if (CE->isElidable()) kvb("elide", true, first);
      if (CD->isCopyOrMoveConstructor()) kvb("copy", true, first);
      if (isa<CXXTemporaryObjectExpr>(E)) kvb("temp", true, first);
      // parameter types let the rules recognise RestartReader constructors
      key("pt", first);
      OS << "[";
      for (unsigned i = 0; i < CD->getNumParams(); ++i) {
        if (i) OS << ",";
        OS << "\"" << jesc(canonStr(CD->getParamDecl(i)->getType())) << "\"";
      }
      OS << "]";
      key("a", first);
      OS << "[";
      for (unsigned i = 0; i < CE->getNumArgs(); ++i) {
        if (i) OS << ",";
        expr(CE->getArg(i));
      }
      OS << "]";
    } else if (auto *MC = dyn_cast<CXXMemberCallExpr>(E)) {
      kv("k", "Call", first);
      loc(E, first);
      kv("t", canonStr(E->getType()), first);
      if (const CXXMethodDecl *MD = MC->getMethodDecl()) {
        callee(MD, first);
        kv("n", MD->getNameAsString(), first);
      } else {
        key("callee", first);
        expr(MC->getCallee());
      }
      if (auto *ME = dyn_cast<MemberExpr>(MC->getCallee()->IgnoreParens())) {
        if (ME->isArrow()) kvb("arrow", true, first);
        if (ME->hasQualifier()) kvb("qual", true, first);
      }
      if (const Expr *Obj = MC->getImplicitObjectArgument()) {
        key("obj", first);
        expr(Obj);
      }
      key("a", first);
      OS << "[";
      for (unsigned i = 0; i < MC->getNumArgs(); ++i) {
        if (i) OS << ",";
        expr(MC->getArg(i));
      }
      OS << "]";
    } else if (auto *OC = dyn_cast<CXXOperatorCallExpr>(E)) {
      kv("k", "Call", first);
      loc(E, first);
      kv("t", canonStr(E->getType()), first);
      kv("op", getOperatorSpelling(OC->getOperator()), first);
      const FunctionDecl *FD = OC->getDirectCallee();
      unsigned firstArg = 0;
      if (FD) {
        callee(FD, first);
        kv("n", FD->getNameAsString(), first);
        if (isa<CXXMethodDecl>(FD) && OC->getNumArgs() > 0) {
          key("obj", first);
          expr(OC->getArg(0));
          firstArg = 1;
        }
      } else {
        key("callee", first);
        expr(OC->getCallee());
      }
      key("a", first);
      OS << "[";
      for (unsigned i = firstArg; i < OC->getNumArgs(); ++i) {
        if (i > firstArg) OS << ",";
        expr(OC->getArg(i));
      }
      OS << "]";
    } else if (auto *CE2 = dyn_cast<CallExpr>(E)) {
      kv("k", "Call", first);
      loc(E, first);
      kv("t", canonStr(E->getType()), first);
      if (const FunctionDecl *FD = CE2->getDirectCallee()) {
        callee(FD, first);
        kv("n", FD->getNameAsString(), first);
      } else {
        key("callee", first);
        expr(CE2->getCallee());
      }
      key("a", first);
      OS << "[";
      for (unsigned i = 0; i < CE2->getNumArgs(); ++i) {
        if (i) OS << ",";
        expr(CE2->getArg(i));
      }
      OS << "]";
    } else if (auto *EC = dyn_cast<ExplicitCastExpr>(E)) {
      kv("k", "Cast", first);
      loc(E, first);
      kv("ck", EC->getCastKindName(), first);
      kv("t", canonStr(EC->getType()), first);
      key("x", first);
      expr(EC->getSubExpr());
    } else if (auto *ILE = dyn_cast<InitListExpr>(E)) {
      kv("k", "InitList", first);
      loc(E, first);
      kv("t", canonStr(E->getType()), first);
      key("a", first);
      OS << "[";
      for (unsigned i = 0; i < ILE->getNumInits(); ++i) {
        if (i) OS << ",";
        expr(ILE->getInit(i));
      }
      OS << "]";
    } else if (auto *DA = dyn_cast<CXXDefaultArgExpr>(E)) {
      kv("k", "DefArg", first);
      key("x", first);
      expr(DA->getExpr());
    } else if (auto *DI = dyn_cast<CXXDefaultInitExpr>(E)) {
      kv("k", "DefInit", first);
      key("x", first);
      exprOrNull(DI->getExpr());
    } else if (auto *UE = dyn_cast<UnaryExprOrTypeTraitExpr>(E)) {
      kv("k", "Sizeof", first);
      loc(E, first);
      kvi("trait", UE->getKind(), first);
      QualType T = UE->getTypeOfArgument();
      kv("ty", canonStr(T), first);
      if (UE->getKind() == UETT_SizeOf && !T->isDependentType() && !T->isIncompleteType())
        kvi("v", Ctx.getTypeSizeInChars(T).getQuantity(), first);
    } else if (auto *LE = dyn_cast<LambdaExpr>(E)) {
      kv("k", "Lambda", first);
      loc(E, first);
      key("params", first);
      OS << "[";
      if (const CXXMethodDecl *CO = LE->getCallOperator()) {
        for (unsigned i = 0; i < CO->getNumParams(); ++i) {
          if (i) OS << ",";
          const ParmVarDecl *P = CO->getParamDecl(i);
          OS << "{\"n\":\"" << jesc(P->getNameAsString()) << "\",\"id\":"
             << ((long long)(uintptr_t)P->getCanonicalDecl() & 0xffffffffffffLL) << ",\"t\":\""
             << jesc(canonStr(P->getType())) << "\"}";
        }
      }
      OS << "]";
      key("body", first);
      stmt(LE->getBody());
    } else if (auto *DM = dyn_cast<CXXDependentScopeMemberExpr>(E)) {
      kv("k", "Unres", first);
      loc(E, first);
      kv("n", DM->getMember().getAsString(), first);
      if (!DM->isImplicitAccess()) {
        key("b", first);
        expr(DM->getBase());
      }
    } else if (auto *UM = dyn_cast<UnresolvedMemberExpr>(E)) {
      kv("k", "Unres", first);
      loc(E, first);
      kv("n", UM->getMemberName().getAsString(), first);
      if (!UM->isImplicitAccess()) {
        key("b", first);
        expr(UM->getBase());
      }
    } else if (auto *UL = dyn_cast<UnresolvedLookupExpr>(E)) {
      kv("k", "Unres", first);
      loc(E, first);
      kv("n", UL->getName().getAsString(), first);
    } else if (auto *TI = dyn_cast<CXXTypeidExpr>(E)) {
      kv("k", "Typeid", first);
      loc(E, first);
      if (TI->isTypeOperand()) {
        kv("ty", canonStr(TI->getTypeOperand(Ctx)), first);
      } else {
        kv("ty", canonStr(TI->getExprOperand()->getType()), first);
        key("x", first);
        expr(TI->getExprOperand());
      }
    } else if (auto *SV = dyn_cast<CXXScalarValueInitExpr>(E)) {
      kv("k", "ZeroInit", first);
      kv("t", canonStr(SV->getType()), first);
    } else if (auto *IV = dyn_cast<ImplicitValueInitExpr>(E)) {
      kv("k", "ZeroInit", first);
      kv("t", canonStr(IV->getType()), first);
    } else {
      kv("k", "Other", first);
      loc(E, first);
      kv("cls", E->getStmtClassName(), first);
      kv("t", canonStr(E->getType()), first);
      children(E, first);
    }
    OS << "}";
  }

  void varDecl(const VarDecl *V) {
    OS << "{";
    bool first = true;
    kv("n", V->getNameAsString(), first);
    kvi("id", (long long)(uintptr_t)V->getCanonicalDecl() & 0xffffffffffffLL, first);
    kv("t", canonStr(V->getType()), first);
    kv("ts", typeStr(V->getType()), first);
    kvi("l", lineOf(V->getLocation()), first);
    if (V->isStaticLocal()) kvb("static", true, first);
    if (V->hasInit()) {
      key("init", first);
      expr(V->getInit());
      if (V->getInitStyle() != VarDecl::CInit) kvi("style", V->getInitStyle(), first);
    }
    OS << "}";
  }

  void stmtOrNull(const Stmt *S) {
    if (!S) { OS << "null"; return; }
    stmt(S);
  }

  void stmt(const Stmt *S) {
    if (auto *E = dyn_cast<Expr>(S)) { expr(E); return; }
    OS << "{";
    bool first = true;
    if (auto *CS = dyn_cast<CompoundStmt>(S)) {
      kv("k", "Block", first);
      loc(S, first);
      key("s", first);
      OS << "[";
      bool f = true;
      for (const Stmt *C : CS->body()) {
        if (!f) OS << ",";
        f = false;
        stmt(C);
      }
      OS << "]";
    } else if (auto *IS = dyn_cast<IfStmt>(S)) {
      kv("k", "If", first);
      loc(S, first);
      if (IS->getInit()) { key("init", first); stmt(IS->getInit()); }
      if (IS->getConditionVariable()) { key("var", first); varDecl(IS->getConditionVariable()); }
      key("c", first);
      expr(IS->getCond());
      key("th", first);
      stmt(IS->getThen());
      key("el", first);
      stmtOrNull(IS->getElse());
    } else if (auto *FS = dyn_cast<ForStmt>(S)) {
      kv("k", "For", first);
      loc(S, first);
      key("init", first);
      stmtOrNull(FS->getInit());
      key("c", first);
      if (FS->getCond()) expr(FS->getCond()); else OS << "null";
      key("inc", first);
      if (FS->getInc()) expr(FS->getInc()); else OS << "null";
      key("body", first);
      stmt(FS->getBody());
    } else if (auto *WS = dyn_cast<WhileStmt>(S)) {
      kv("k", "While", first);
      loc(S, first);
      key("c", first);
      expr(WS->getCond());
      key("body", first);
      stmt(WS->getBody());
    } else if (auto *DS = dyn_cast<DoStmt>(S)) {
      kv("k", "Do", first);
      loc(S, first);
      key("c", first);
      expr(DS->getCond());
      key("body", first);
      stmt(DS->getBody());
    } else if (auto *RS = dyn_cast<CXXForRangeStmt>(S)) {
      kv("k", "ForRange", first);
      loc(S, first);
      key("var", first);
      varDecl(RS->getLoopVariable());
      key("range", first);
      expr(RS->getRangeInit());
      key("body", first);
      stmt(RS->getBody());
    } else if (auto *SS = dyn_cast<SwitchStmt>(S)) {
      kv("k", "Switch", first);
      loc(S, first);
      key("c", first);
      expr(SS->getCond());
      key("body", first);
      stmt(SS->getBody());
    } else if (auto *CaS = dyn_cast<CaseStmt>(S)) {
      kv("k", "Case", first);
      loc(S, first);
      if (!CaS->getLHS()->isValueDependent()) {
        Expr::EvalResult R;
        if (CaS->getLHS()->EvaluateAsInt(R, Ctx))
          kvraw("v", llvm::toString(R.Val.getInt(), 10), first);
      }
      key("lhs", first);
      expr(CaS->getLHS());
      key("sub", first);
      stmtOrNull(CaS->getSubStmt());
    } else if (auto *DfS = dyn_cast<DefaultStmt>(S)) {
      kv("k", "Default", first);
      loc(S, first);
      key("sub", first);
      stmtOrNull(DfS->getSubStmt());
    } else if (isa<BreakStmt>(S)) {
      kv("k", "Break", first);
      loc(S, first);
    } else if (isa<ContinueStmt>(S)) {
      kv("k", "Continue", first);
      loc(S, first);
    } else if (auto *Ret = dyn_cast<ReturnStmt>(S)) {
      kv("k", "Return", first);
      loc(S, first);
      key("x", first);
      exprOrNull(Ret->getRetValue());
    } else if (auto *DcS = dyn_cast<DeclStmt>(S)) {
      kv("k", "Decl", first);
      loc(S, first);
      key("d", first);
      OS << "[";
      bool f = true;
      for (const Decl *D : DcS->decls()) {
        if (auto *V = dyn_cast<VarDecl>(D)) {
          if (!f) OS << ",";
          f = false;
          varDecl(V);
        }
      }
      OS << "]";
    } else if (isa<NullStmt>(S)) {
      kv("k", "Null", first);
      loc(S, first);
    } else if (isa<GotoStmt>(S) || isa<LabelStmt>(S) || isa<IndirectGotoStmt>(S)) {
      kv("k", "Goto", first);
      loc(S, first);
      children(S, first);
    } else if (auto *TS = dyn_cast<CXXTryStmt>(S)) {
      kv("k", "Try", first);
      loc(S, first);
      key("body", first);
      stmt(TS->getTryBlock());
      key("handlers", first);
      OS << "[";
      for (unsigned i = 0; i < TS->getNumHandlers(); ++i) {
        if (i) OS << ",";
        stmt(TS->getHandler(i)->getHandlerBlock());
      }
      OS << "]";
    } else if (auto *OD = dyn_cast<OMPExecutableDirective>(S)) {
      kv("k", "OMP", first);
      loc(S, first);
      kv("dir", S->getStmtClassName(), first);
      key("clauses", first);
      OS << "[";
      bool f = true;
      for (const OMPClause *C : OD->clauses()) {
        if (!C) continue;
        if (!f) OS << ",";
        f = false;
        std::string s;
        llvm::raw_string_ostream ss(s);
        OMPClausePrinter P(ss, PP);
        P.Visit(const_cast<OMPClause *>(C));
        OS << "\"" << jesc(ss.str()) << "\"";
      }
      OS << "]";
      key("body", first);
      if (OD->hasAssociatedStmt()) {
        const Stmt *A = OD->getAssociatedStmt();
        while (auto *Cap = dyn_cast_or_null<CapturedStmt>(A)) A = Cap->getCapturedStmt();
        stmtOrNull(A);
      } else
        OS << "null";
    } else if (auto *Cap = dyn_cast<CapturedStmt>(S)) {
      kv("k", "Captured", first);
      key("body", first);
      stmt(Cap->getCapturedStmt());
    } else if (auto *AS = dyn_cast<AttributedStmt>(S)) {
      kv("k", "Attributed", first);
      key("body", first);
      stmt(AS->getSubStmt());
    } else {
      kv("k", "OtherStmt", first);
      loc(S, first);
      kv("cls", S->getStmtClassName(), first);
      children(S, first);
    }
    OS << "}";
  }

  // ------------------------------------------------------------- decl level
  std::string templateArgsOf(const FunctionDecl *FD) {
    std::string s;
    llvm::raw_string_ostream ss(s);
    if (auto *TA = FD->getTemplateSpecializationArgs()) {
      bool f = true;
      for (auto &A : TA->asArray()) {
        if (!f) ss << ", ";
        f = false;
        A.print(PP, ss, true);
      }
    }
    return ss.str();
  }

  void emitFunction(const FunctionDecl *FD) {
    if (!FD->doesThisDeclarationHaveABody()) return;
    if (FD->isImplicit() && !FD->isDefaulted()) return;
    if (!Done.insert(FD).second) return;
    bool inst = FD->isTemplateInstantiation();
    const CXXMethodDecl *MD = dyn_cast<CXXMethodDecl>(FD);
    bool inTemplatedClass = false;
    if (MD) {
      if (auto *Spec = dyn_cast<ClassTemplateSpecializationDecl>(MD->getParent()))
        inTemplatedClass = !Spec->isExplicitSpecialization();
    }
    SourceLocation L = FD->getLocation();
    if (inst || inTemplatedClass) {
      if (!inRootsNoMain(L)) return;
    } else if (!inRoots(L))
      return;
    OS << "{";
    bool first = true;
    kv("kind", "function", first);
    kv("name", FD->getNameAsString(), first);
    kv("qname", qname(FD), first);
    kv("full", fullName(FD), first);
    kv("file", fileOf(L), first);
    kvi("line", lineOf(L), first);
    kvi("endline", lineOf(FD->getEndLoc()), first);
    kvb("inst", inst || inTemplatedClass, first);
    kvb("dependent", FD->isDependentContext(), first);
    std::string ta = templateArgsOf(FD);
    if (!ta.empty()) kv("targs", ta, first);
    kv("ret", canonStr(FD->getReturnType()), first);
    if (FD->isNoReturn()) kvb("noret", true, first);
    if (MD) {
      kv("cls", recordName(MD->getParent()), first);
      kv("clsq", qname(MD->getParent()), first);
      kvb("virtual", MD->isVirtual(), first);
      kvb("static", MD->isStatic(), first);
      kv("access", MD->getAccess() == clang::AS_private ? "private" :
                   (MD->getAccess() == clang::AS_protected ? "protected" : "public"), first);
      kvb("const", MD->isConst(), first);
      kvb("defaulted", MD->isDefaulted(), first);
      key("overrides", first);
      OS << "[";
      bool f = true;
      for (const CXXMethodDecl *O : MD->overridden_methods()) {
        if (!f) OS << ",";
        f = false;
        OS << "\"" << jesc(qname(O)) << "\"";
      }
      OS << "]";
    }
    key("params", first);
    OS << "[";
    for (unsigned i = 0; i < FD->getNumParams(); ++i) {
      if (i) OS << ",";
      const ParmVarDecl *P = FD->getParamDecl(i);
      OS << "{";
      bool f = true;
      kv("n", P->getNameAsString(), f);
      kvi("id", (long long)(uintptr_t)P->getCanonicalDecl() & 0xffffffffffffLL, f);
      kv("t", canonStr(P->getType()), f);
      kv("ts", typeStr(P->getType()), f);
      if (P->hasDefaultArg() && !P->hasUninstantiatedDefaultArg() && !P->hasUnparsedDefaultArg()) {
        key("def", f);
        expr(P->getDefaultArg());
      }
      OS << "}";
    }
    OS << "]";
    if (auto *CD = dyn_cast<CXXConstructorDecl>(FD)) {
      kvb("ctor", true, first);
      kvb("delegating", CD->isDelegatingConstructor(), first);
      kvb("copyctor", CD->isCopyOrMoveConstructor(), first);
      key("inits", first);
      OS << "[";
      bool f = true;
      for (const CXXCtorInitializer *I : CD->inits()) {
        if (!f) OS << ",";
        f = false;
        OS << "{";
        bool g = true;
        if (I->isAnyMemberInitializer())
          kv("member", I->getAnyMember()->getNameAsString(), g);
        else if (I->isDelegatingInitializer())
          kv("delegate", canonStr(QualType(I->getTypeSourceInfo()->getType())), g);
        else if (I->isBaseInitializer())
          kv("base", canonStr(QualType(I->getBaseClass(), 0)), g);
        kvb("written", I->isWritten(), g);
        kvi("l", lineOf(I->getSourceLocation()), g);
        key("x", g);
        exprOrNull(I->getInit());
        OS << "}";
      }
      OS << "]";
    }
    if (isa<CXXDestructorDecl>(FD)) kvb("dtor", true, first);
    key("body", first);
    stmt(FD->getBody());
    OS << "}\n";
  }

  void emitRecord(const CXXRecordDecl *RD) {
    if (!RD->isThisDeclarationADefinition()) return;
    if (RD->isImplicit() || RD->isLambda()) return;
    if (!Done.insert(RD).second) return;
    bool spec = isa<ClassTemplateSpecializationDecl>(RD);
    if (spec ? !inRootsNoMain(RD->getLocation()) : !inRoots(RD->getLocation())) return;
    OS << "{";
    bool first = true;
    kv("kind", "record", first);
    kv("name", RD->getNameAsString(), first);
    kv("qname", qname(RD), first);
    kv("full", recordName(RD), first);
    kv("file", fileOf(RD->getLocation()), first);
    kvi("line", lineOf(RD->getLocation()), first);
    kvb("inst", spec, first);
    kvb("dependent", RD->isDependentContext(), first);
    kvb("abstract", !RD->isDependentContext() && RD->isAbstract(), first);
    kvb("union", RD->isUnion(), first);
    kvb("templated", RD->getDescribedClassTemplate() != nullptr, first);
    key("bases", first);
    OS << "[";
    bool f = true;
    for (const CXXBaseSpecifier &B : RD->bases()) {
      if (!f) OS << ",";
      f = false;
      OS << "\"" << jesc(canonStr(B.getType())) << "\"";
    }
    OS << "]";
    key("fields", first);
    OS << "[";
    f = true;
    for (const FieldDecl *F : RD->fields()) {
      if (!f) OS << ",";
      f = false;
      OS << "{";
      bool g = true;
      kv("n", F->getNameAsString(), g);
      kv("t", canonStr(F->getType()), g);
      kv("ts", typeStr(F->getType()), g);
      kvi("l", lineOf(F->getLocation()), g);
      if (F->hasInClassInitializer() && F->getInClassInitializer()) {
        key("dinit", g);
        expr(F->getInClassInitializer());
      }
      if (!F->getType()->isDependentType() && !F->getType()->isIncompleteType() && !RD->isDependentContext())
        kvi("size", Ctx.getTypeSizeInChars(F->getType()).getQuantity(), g);
      OS << "}";
    }
    OS << "]";
    key("svars", first);
    OS << "[";
    f = true;
    for (const Decl *D : RD->decls()) {
      if (auto *V = dyn_cast<VarDecl>(D)) {
        if (!f) OS << ",";
        f = false;
        varDecl(V);
      }
    }
    OS << "]";
    key("methods", first);
    OS << "[";
    f = true;
    for (const Decl *D : RD->decls()) {
      const CXXMethodDecl *M = dyn_cast<CXXMethodDecl>(D);
      if (!M) {
        if (auto *FT = dyn_cast<FunctionTemplateDecl>(D))
          M = dyn_cast<CXXMethodDecl>(FT->getTemplatedDecl());
      }
      if (!M) continue;
      if (M->isImplicit()) continue;
      if (!f) OS << ",";
      f = false;
      OS << "{";
      bool g = true;
      kv("n", M->getNameAsString(), g);
      kvb("virtual", M->isVirtual(), g);
      kvb("pure", M->isPure(), g);
      kvb("static", M->isStatic(), g);
      kvb("deleted", M->isDeleted(), g);
      kvb("defaulted", M->isDefaulted(), g);
      kvb("ctor", isa<CXXConstructorDecl>(M), g);
      kvb("dtor", isa<CXXDestructorDecl>(M), g);
      kvb("body", M->isDefined(), g);
      kvi("l", lineOf(M->getLocation()), g);
      key("pt", g);
      OS << "[";
      for (unsigned i = 0; i < M->getNumParams(); ++i) {
        if (i) OS << ",";
        OS << "\"" << jesc(canonStr(M->getParamDecl(i)->getType())) << "\"";
      }
      OS << "]";
      OS << "}";
    }
    OS << "]";
    OS << "}\n";
  }

  void emitEnum(const EnumDecl *ED) {
    if (!ED->isThisDeclarationADefinition()) return;
    if (!Done.insert(ED).second) return;
    if (!inRoots(ED->getLocation())) return;
    OS << "{";
    bool first = true;
    kv("kind", "enum", first);
    kv("name", ED->getNameAsString(), first);
    kv("qname", qname(ED), first);
    kv("file", fileOf(ED->getLocation()), first);
    kvi("line", lineOf(ED->getLocation()), first);
    key("consts", first);
    OS << "[";
    bool f = true;
    for (const EnumConstantDecl *C : ED->enumerators()) {
      if (!f) OS << ",";
      f = false;
      OS << "{\"n\":\"" << jesc(C->getNameAsString()) << "\",\"v\":"
         << llvm::toString(C->getInitVal(), 10) << "}";
    }
    OS << "]";
    OS << "}\n";
  }

  void emitGlobalVar(const VarDecl *V) {
    if (V->isLocalVarDeclOrParm()) return;
    if (!V->isThisDeclarationADefinition() && !V->hasInit()) return;
    if (V->getDeclContext()->isDependentContext()) return;
    if (!Done.insert(V).second) return;
    if (!inRoots(V->getLocation())) return;
    OS << "{";
    bool first = true;
    kv("kind", "var", first);
    kv("name", V->getNameAsString(), first);
    kv("qname", qname(V), first);
    kv("file", fileOf(V->getLocation()), first);
    kvi("line", lineOf(V->getLocation()), first);
    kv("t", canonStr(V->getType()), first);
    if (V->hasInit()) {
      key("init", first);
      expr(V->getInit());
    }
    OS << "}\n";
  }
};

class Visitor : public RecursiveASTVisitor<Visitor> {
public:
  Emitter &Em;
  explicit Visitor(Emitter &E) : Em(E) {}
  bool shouldVisitTemplateInstantiations() const { return true; }
  bool shouldVisitImplicitCode() const { return false; }
  bool VisitFunctionDecl(FunctionDecl *FD) {
    Em.emitFunction(FD);
    return true;
  }
  bool VisitCXXRecordDecl(CXXRecordDecl *RD) {
    Em.emitRecord(RD);
    return true;
  }
  bool VisitEnumDecl(EnumDecl *ED) {
    Em.emitEnum(ED);
    return true;
  }
  bool VisitVarDecl(VarDecl *V) {
    Em.emitGlobalVar(V);
    return true;
  }
};

class Consumer : public ASTConsumer {
  Options Opt;

public:
  explicit Consumer(const Options &O) : Opt(O) {}
  void HandleTranslationUnit(ASTContext &Ctx) override {
    std::error_code EC;
    llvm::raw_fd_ostream OS(Opt.out, EC);
    if (EC) {
      llvm::errs() << "cmiast: cannot open " << Opt.out << ": " << EC.message() << "\n";
      return;
    }
    if (Ctx.getDiagnostics().hasErrorOccurred()) {
      OS << "{\"kind\":\"error\",\"msg\":\"compilation errors\"}\n";
    }
    Emitter Em(Ctx, Opt, OS);
    Visitor V(Em);
    V.TraverseDecl(Ctx.getTranslationUnitDecl());
    OS << "{\"kind\":\"end\"}\n";
  }
};

class Action : public PluginASTAction {
  Options Opt;

protected:
  std::unique_ptr<ASTConsumer> CreateASTConsumer(CompilerInstance &, llvm::StringRef) override {
    return std::make_unique<Consumer>(Opt);
  }
  bool ParseArgs(const CompilerInstance &, const std::vector<std::string> &args) override {
    for (auto &a : args) {
      if (a.compare(0, 4, "out=") == 0) Opt.out = a.substr(4);
      else if (a.compare(0, 5, "root=") == 0) Opt.roots.push_back(a.substr(5));
      else if (a == "mainonly=1") Opt.mainonly = true;
    }
    return !Opt.out.empty();
  }
  PluginASTAction::ActionType getActionType() override { return ReplaceAction; }
};

} // namespace

static FrontendPluginRegistry::Add<Action> X("cmiast", "compact AST export for CMacIonize verification");
