// Replay for the C06 finding: weak radiation field (0 < J_H < 1e-20 s^-1) in a helium build.
#include "Abundances.hpp"
#include "ChargeTransferRates.hpp"
#include "IonizationStateCalculator.hpp"
#include "IonizationVariables.hpp"
#include "VernerCrossSections.hpp"
#include "VernerRecombinationRates.hpp"
#include <cmath>
#include <cstdio>
int main() {
  VernerRecombinationRates recombination_rates;
  ChargeTransferRates charge_transfer_rates;
  VernerCrossSections xs;
  const Abundances abundances(0.1, 2.2e-4, 4.e-5, 3.3e-4, 5.e-5, 9.e-6);
  const IonizationStateCalculator calc(1., abundances, recombination_rates, charge_transfer_rates);
  const double nuH = 3.288e15;
  int bad = 0;
  for (int ilF = -2; ilF <= 6; ++ilF) {
    const double flux = std::pow(10., ilF);
    IonizationVariables iv;
    iv.set_number_density(1.e8);
    iv.set_temperature(8000.);
    iv.reset_mean_intensities();
    const double nu = 1.4 * nuH;
    for (int_fast32_t ion = 0; ion < NUMBER_OF_IONNAMES; ++ion) {
      iv.increase_mean_intensity(ion, flux * xs.get_cross_section(ion, nu));
    }
    const double jH = iv.get_mean_intensity(ION_H_n);
    calc.calculate_ionization_state(1., 6.62607004e-34, iv);
    std::printf("flux=1e%d  J_H=%.3e  x(H0)=%g x(He0)=%g  C+=%g C++=%g N0=%g N+=%g O0=%g Ne0=%g S+=%g\n", ilF, jH,
                iv.get_ionic_fraction(ION_H_n), iv.get_ionic_fraction(ION_He_n), iv.get_ionic_fraction(ION_C_p1),
                iv.get_ionic_fraction(ION_C_p2), iv.get_ionic_fraction(ION_N_n), iv.get_ionic_fraction(ION_N_p1),
                iv.get_ionic_fraction(ION_O_n), iv.get_ionic_fraction(ION_Ne_n), iv.get_ionic_fraction(ION_S_p1));
    for (int_fast32_t ion = 0; ion < NUMBER_OF_IONNAMES; ++ion) {
      if (!std::isfinite(iv.get_ionic_fraction(ion))) ++bad;
    }
  }
  std::printf("non-finite fractions: %d\n", bad);
  return bad != 0;
}
