// Replay (second call site): TemperatureCalculator::calculate_temperature with 0 < J_H < 1e-20 s^-1.
#include "Abundances.hpp"
#include "ChargeTransferRates.hpp"
#include "CoordinateVector.hpp"
#include "IonizationVariables.hpp"
#include "LineCoolingData.hpp"
#include "TemperatureCalculator.hpp"
#include "VernerCrossSections.hpp"
#include "VernerRecombinationRates.hpp"
#include <cmath>
#include <cstdio>
int main() {
  LineCoolingData line_cooling_data;
  VernerRecombinationRates recombination_rates;
  ChargeTransferRates charge_transfer_rates;
  VernerCrossSections xs;
  const Abundances abundances(0.1, 2.2e-4, 4.e-5, 3.3e-4, 5.e-5, 9.e-6);
  const TemperatureCalculator tc(true, 0, 1., abundances, 1.e-3, 100, 0., 0., 0.75, 0., 4000., line_cooling_data,
                                 recombination_rates, charge_transfer_rates, nullptr);
  const double nuH = 3.288e15, nuHe = 5.948e15;
  int bad = 0;
  for (int ilF = -1; ilF <= 4; ++ilF) {
    const double flux = std::pow(10., ilF);
    IonizationVariables iv;
    iv.set_number_density(1.e8);
    iv.set_temperature(8000.);
    iv.reset_mean_intensities();
    const double nu = 1.4 * nuH;
    for (int_fast32_t ion = 0; ion < NUMBER_OF_IONNAMES; ++ion) iv.increase_mean_intensity(ion, flux * xs.get_cross_section(ion, nu));
    iv.increase_heating(HEATINGTERM_H, flux * xs.get_cross_section(ION_H_n, nu) * (nu - nuH));
    iv.increase_heating(HEATINGTERM_He, flux * xs.get_cross_section(ION_He_n, nu) * (nu - nuHe));
    const double jH = iv.get_mean_intensity(ION_H_n);
    tc.calculate_temperature(iv, 1., 6.62607004e-34, CoordinateVector<>(0.));
    std::printf("flux=1e%d  J_H=%.3e  T=%g x(H0)=%g  C+=%g C++=%g Ne0=%g\n", ilF, jH, iv.get_temperature(),
                iv.get_ionic_fraction(ION_H_n), iv.get_ionic_fraction(ION_C_p1), iv.get_ionic_fraction(ION_C_p2),
                iv.get_ionic_fraction(ION_Ne_n));
    for (int_fast32_t ion = 0; ion < NUMBER_OF_IONNAMES; ++ion) if (!std::isfinite(iv.get_ionic_fraction(ion))) ++bad;
    if (!std::isfinite(iv.get_temperature())) ++bad;
  }
  std::printf("non-finite values: %d\n", bad);
  return bad != 0;
}
