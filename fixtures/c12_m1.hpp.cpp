// Fixture for C12-M1/M2: FxBad and FxBadArr must be reported, FxGood* must not.
class FxBad {
  int *_p;
  int _n;
public:
  FxBad(int n) : _n(n) {}            // _p never assigned
  ~FxBad() { delete _p; }
};
class FxGoodInit {
  int *_p;
public:
  FxGoodInit() : _p(nullptr) {}
  ~FxGoodInit() { delete _p; }
};
class FxGoodBody {
  int *_p;
public:
  FxGoodBody(bool b) {
    if (b) {
      _p = new int(1);
    } else {
      _p = nullptr;
    }
  }
  ~FxGoodBody() {
    if (_p != nullptr) {
      delete _p;
    }
  }
};
class FxGoodDelegating {
  int *_p;
public:
  FxGoodDelegating(int *p) : _p(p) {}
  FxGoodDelegating() : FxGoodDelegating(nullptr) {}
  ~FxGoodDelegating() { delete _p; }
};
class FxBadArr {
  int *_q;
public:
  FxBadArr() : _q(nullptr) {}
  void init(int n) { _q = new int[n]; }   // new[] but scalar delete
  ~FxBadArr() { delete _q; }
};
