"""Decision-tree extraction for loop-free numerical code (E1+E3).

A function body without loops is turned into its finite list of leaves: the ordered
branch predicates taken and the closed-form value of every variable written, obtained by
forward substitution of the single static assignments the code is made of.  Nothing is
executed; the result is a set of formulas that the rules compare with a computer-algebra
normal form.  Loops, gotos and unknown constructs make the extraction fail
analysis-broken.
"""
import sympy as sp

from .astdb import AnalysisBroken
from .cfg import strip_casts, pretty, const_int, ABORT_MACROS, walk_stmt
from .sym import Converter, Env, S


_dot_cache = {}


def dotsym(a, b):
    """Scalar symbol standing for the dot product of two basis vectors."""
    a, b = sorted((a, b))
    k = (a, b)
    if k not in _dot_cache:
        _dot_cache[k] = sp.Symbol("<%s.%s>" % (a, b), real=True)
    return _dot_cache[k]


class AVec:
    """Abstract 3-vector: a linear combination of named basis vectors with scalar (sympy)
    coefficients. Dot products of basis vectors are scalar symbols, so identities proved with
    AVecs hold for vectors of any components (the basis vectors are treated as independent)."""

    def __init__(self, coeffs=None, partial=None):
        self.c = {k: v for k, v in (coeffs or {}).items() if v != 0}
        self.partial = partial      # set of components zeroed one by one (pflux[i] = 0.)

    @staticmethod
    def basis(name):
        return AVec({name: sp.Integer(1)})

    def __add__(self, o):
        if isinstance(o, AVec):
            r = dict(self.c)
            for k, v in o.c.items():
                r[k] = r.get(k, 0) + v
            return AVec(r)
        if o == 0:
            return self
        return NotImplemented
    __radd__ = __add__

    def __neg__(self):
        return AVec({k: -v for k, v in self.c.items()})

    def __sub__(self, o):
        if isinstance(o, AVec):
            return self + (-o)
        if o == 0:
            return self
        return NotImplemented

    def __rsub__(self, o):
        return (-self) + o

    def __mul__(self, o):
        if isinstance(o, AVec):
            raise AnalysisBroken("product of two vectors")
        o = sp.sympify(o)
        return AVec({k: v * o for k, v in self.c.items()})
    __rmul__ = __mul__

    def __truediv__(self, o):
        o = sp.sympify(o)
        return AVec({k: v / o for k, v in self.c.items()})

    def dot(self, o):
        r = sp.Integer(0)
        for k1, v1 in self.c.items():
            for k2, v2 in o.c.items():
                r += v1 * v2 * dotsym(k1, k2)
        return r

    def xreplace(self, m):
        return AVec({k: (v.xreplace(m) if hasattr(v, "xreplace") else v) for k, v in self.c.items()})

    def remap(self, vm):
        """Apply a linear map of the basis (name -> AVec); scalars inside coefficients that are dot
        symbols are remapped with remap_scalar by the caller."""
        r = AVec()
        for k, v in self.c.items():
            r = r + (vm[k] if k in vm else AVec.basis(k)) * v
        return r

    def names(self):
        return set(self.c)

    @property
    def free_symbols(self):
        s = set()
        for v in self.c.values():
            s |= v.free_symbols
        return s

    def __repr__(self):
        return "AVec(%s)" % ", ".join("%s*%s" % (v, k) for k, v in sorted(self.c.items()))


def remap_scalar(e, vm):
    """Rewrite the dot symbols of a scalar expression under a linear map of the basis vectors."""
    if not hasattr(e, "free_symbols"):
        return e
    reps = {}
    for (a, b), sym in list(_dot_cache.items()):
        if sym in e.free_symbols:
            va = vm[a] if a in vm else AVec.basis(a)
            vb = vm[b] if b in vm else AVec.basis(b)
            reps[sym] = va.dot(vb)
    return e.xreplace(reps) if reps else e


class Leaf:
    def __init__(self, conds, env, ret=None, aborted=False):
        self.conds = conds      # list of (sympy boolean, polarity, ast)
        self.env = env
        self.ret = ret
        self.aborted = aborted

    def value(self, key):
        return self.env.vals.get(key)


class SymExec:
    def __init__(self, unit, conv=None, inline=(), cls_consts=None, vec_class="CoordinateVector",
                 max_leaves=4096, opaque=None, facts=None):
        # facts: list of (sympy relational, bool) taken as preconditions when deciding branches
        self.facts = list(facts or [])
        # opaque: dict callee qname -> name of the symbol standing for its return value; the
        # callee's non-const reference arguments receive fresh symbols named after the argument
        self.opaque_calls = dict(opaque or {})
        self.unit = unit
        self.conv = conv or Converter()
        self.inline = set(inline)
        self.cls_consts = cls_consts or {}
        self.vec_class = vec_class
        self.max_leaves = max_leaves
        self.conv.call_hook = self._call_hook
        old_atoms = self.conv.atoms

        def atoms(key, e):
            if key is not None and key[0] == "m" and key[1] in self.cls_consts:
                return self.cls_consts[key[1]]
            return old_atoms(key, e) if old_atoms else None
        self.conv.atoms = atoms
        self._pending_calls = None

    # ------------------------------------------------------------------ vectors
    def vec_symbols(self, name):
        return AVec.basis(name)

    def _is_vec_type(self, t):
        return (t or "").replace("const ", "").strip().rstrip("&").strip().startswith(self.vec_class + "<")

    def _call_hook(self, e, env, conv):
        cur = getattr(self, "_cur", None)
        if cur is not None and id(e) in getattr(cur, "callvals", {}):
            return cur.callvals[id(e)]
        n = e.get("n")
        args = e["a"]
        if n == "dot_product" and len(args) == 2:
            a, b = conv.conv(args[0], env), conv.conv(args[1], env)
            return a.dot(b)
        if n == "norm2" and e.get("obj") is not None and not args:
            a = conv.conv(e["obj"], env)
            return a.dot(a)
        if n == "norm" and e.get("obj") is not None and not args:
            a = conv.conv(e["obj"], env)
            return sp.sqrt(a.dot(a))
        if n == "isinf" and len(args) == 1:
            return sp.Eq(sp.Function("isinf")(conv.conv(args[0], env)), 1)
        if n == "isnan" and len(args) == 1:
            return sp.Eq(sp.Function("isnan")(conv.conv(args[0], env)), 1)
        if e.get("op") == "[]" and e.get("obj") is not None and len(args) == 1:
            i = const_int(args[0])
            base = conv.conv(e["obj"], env)
            if isinstance(base, AVec):
                raise AnalysisBroken("component %s of a vector is read (line %s): not representable in "
                                     "the component-free vector algebra" % (i, e.get("l")))
        if n in ("x", "y", "z") and e.get("obj") is not None and not args:
            base = conv.conv(e["obj"], env)
            if isinstance(base, AVec):
                raise AnalysisBroken("component of a vector is read (line %s)" % e.get("l"))
        return None

    # ------------------------------------------------------------------ driver
    def run(self, fn, args=None, env=None, conds=None):
        """Leaves of fn. args: dict param name -> sympy value (defaults: fresh symbols)."""
        env = env.copy() if env is not None else Env()
        args = args or {}
        for p in fn["params"]:
            key = ("l", p["id"])
            if p["n"] in args:
                env.vals[key] = args[p["n"]]
            elif self._is_vec_type(p["t"]):
                env.vals[key] = self.vec_symbols(p["n"])
            elif p["t"].rstrip().endswith("&") and not p["t"].startswith("const"):
                pass  # out-parameter: no incoming value
            else:
                env.vals[key] = self.conv.sym(p["n"])
        leaves = self._block([Leaf(list(conds or []), env)], fn["body"], fn)
        return leaves

    def _block(self, leaves, s, fn):
        k = s.get("k")
        if k == "Block" and s.get("mac") in ABORT_MACROS:
            for l in leaves:
                if l.ret is None and not l.aborted:
                    l.aborted = True
            return leaves
        if k == "Block":
            for c in s["s"]:
                leaves = self._block(leaves, c, fn)
            return leaves
        live = [l for l in leaves if l.ret is None and not l.aborted]
        done = [l for l in leaves if not (l.ret is None and not l.aborted)]
        if not live:
            return leaves
        if k == "If":
            out = list(done)
            live = self._fork_nested(live, s["c"], fn)
            for l in live:
                self._cur = l
                c = self._conv(s["c"], l.env, fn)
                for fc, fv in self.facts:
                    if c == fc:
                        c = sp.true if fv else sp.false
                    elif hasattr(c, "xreplace") and fc in getattr(c, "atoms", lambda *a: set())(type(fc)):
                        c = c.xreplace({fc: sp.true if fv else sp.false})
                # a condition this path has already decided (e.g. a flag tested by two conditional expressions)
                for c0, pol0, _ in l.conds:
                    if c0 == c:
                        c = sp.true if pol0 else sp.false
                        break
                    if isinstance(c0, sp.Basic) and isinstance(c, sp.Basic) and c0 == sp.Not(c):
                        c = sp.false if pol0 else sp.true
                        break
                if c is sp.true:
                    out += self._block([l], s["th"], fn)
                    continue
                if c is sp.false:
                    if s.get("el"):
                        out += self._block([l], s["el"], fn)
                    else:
                        out.append(l)
                    continue
                lt = Leaf(l.conds + [(c, True, s["c"])], l.env.copy())
                lf = Leaf(l.conds + [(c, False, s["c"])], l.env.copy())
                lt.callvals = dict(getattr(l, "callvals", {}))
                lf.callvals = dict(getattr(l, "callvals", {}))
                lt.opaque = list(getattr(l, "opaque", []))
                lf.opaque = list(getattr(l, "opaque", []))
                out += self._block([lt], s["th"], fn)
                if s.get("el"):
                    out += self._block([lf], s["el"], fn)
                else:
                    out.append(lf)
                if len(out) > self.max_leaves:
                    raise AnalysisBroken("decision tree of %s too large" % fn["full"])
            return out
        if k == "Return":
            if s.get("x"):
                live = self._fork_nested(live, s["x"], fn)
            for l in live:
                self._cur = l
                l.ret = self._conv(s["x"], l.env, fn) if s.get("x") else "void"
            return done + live
        if k == "Decl":
            out = list(done)
            for l in live:
                cur = [l]
                for d in s["d"]:
                    nxt = []
                    for ll in cur:
                        nxt += self._decl(ll, d, fn)
                    cur = nxt
                out += cur
            return out
        if k == "Null":
            return leaves
        if k == "Switch":
            # a switch without fall-through is an if-chain on the value of its selector; inlinable calls in the selector
            # (a classifier helper returning an enum) are evaluated first, forking on the callee's branches
            from .tables import switch_arms
            sw, arms, default = switch_arms(fn, s)
            out = list(done)
            live = self._fork_nested(live, s["c"], fn)

            def run_arm(leaf_list, arm):
                res = leaf_list
                for st in arm["stmts"]:
                    if st.get("k") == "Block" and not st.get("mac") and st.get("s") and st["s"][-1].get("k") == "Break":
                        st = dict(st)
                        st["s"] = st["s"][:-1]
                    res = self._block(res, st, fn)
                return res
            for l in live:
                self._cur = l
                v = self._conv(s["c"], l.env, fn)
                if getattr(v, "is_Integer", False):
                    arm = arms.get(int(v), default)
                    out += run_arm([l], arm) if arm is not None else [l]
                    continue
                distinct = []
                for lab, arm in sorted(arms.items()):
                    for d_ in distinct:
                        if d_[1] is arm:
                            d_[0].append(lab)
                            break
                    else:
                        distinct.append(([lab], arm))
                negs = []
                for labs, arm in distinct:
                    c = sp.Or(*[sp.Eq(v, lab) for lab in labs]) if len(labs) > 1 else sp.Eq(v, labs[0])
                    la = Leaf(l.conds + negs + [(c, True, s["c"])], l.env.copy())
                    la.callvals = dict(getattr(l, "callvals", {}))
                    la.opaque = list(getattr(l, "opaque", []))
                    out += run_arm([la], arm)
                    negs = negs + [(c, False, s["c"])]
                ld = Leaf(l.conds + negs, l.env.copy())
                ld.callvals = dict(getattr(l, "callvals", {}))
                ld.opaque = list(getattr(l, "opaque", []))
                out += run_arm([ld], default) if default is not None else [ld]
                if len(out) > self.max_leaves:
                    raise AnalysisBroken("decision tree of %s too large" % fn["full"])
            return out
        if k in ("For", "While", "Do", "ForRange", "Goto", "Break", "Continue", "Try", "OMP"):
            raise AnalysisBroken("%s: %s statement at line %s: not a loop-free formula"
                                 % (fn["full"], k, s.get("l")))
        # expression statement
        out = list(done)
        for l in live:
            out += self._exprstmt(l, s, fn)
        return out

    def _conv(self, e, env, fn):
        try:
            return self.conv.conv(e, env)
        except AnalysisBroken as ex:
            raise AnalysisBroken("%s: %s" % (fn["full"], ex))

    def _nested_calls(self, e):
        from .cfg import walk
        return [x for x in walk(e) if x.get("k") == "Call" and self._inlinable(x)]

    def _fork_nested(self, leaves, e, fn):
        """Evaluate inlinable calls nested inside expression e first (forking on the
        callee's branches); their values are remembered per leaf."""
        calls = self._nested_calls(e)
        if not calls:
            return leaves
        for call in calls:
            nxt = []
            for l in leaves:
                self._cur = l
                for l2, val in self._inline_call(l, call, fn):
                    l2.callvals = dict(getattr(l, "callvals", {}))
                    l2.callvals[id(call)] = val
                    nxt.append(l2)
            leaves = nxt
            if len(leaves) > self.max_leaves:
                raise AnalysisBroken("decision tree of %s too large" % fn["full"])
        return leaves

    @staticmethod
    def _as_cond(e):
        """The conditional expression behind casts and copy constructions, or None."""
        e = strip_casts(e)
        while e is not None and e.get("k") == "Ctor" and len(e.get("a", [])) == 1:
            e = strip_casts(e["a"][0])
        return e if e is not None and e.get("k") == "Cond" else None

    def _decl(self, leaf, d, fn):
        key = ("l", d["id"])
        init = d.get("init")
        if init is None:
            return [leaf]
        ce = self._as_cond(init)
        if ce is not None:
            # T x = c ? a : b   is   if (c) T x = a; else T x = b;   (the same forking as for an if statement)
            th = {"k": "Decl", "l": d.get("l"), "d": [dict(d, init=ce["a"])]}
            el = {"k": "Decl", "l": d.get("l"), "d": [dict(d, init=ce["b"])]}
            return self._block([leaf], {"k": "If", "l": ce.get("l"), "c": ce["c"], "th": th, "el": el}, fn)
        ie = strip_casts(init)
        if ie.get("k") == "Ctor" and self._is_vec_type(ie.get("t")):
            if not ie["a"]:
                leaf.env.vals[key] = AVec()
                return [leaf]
            if len(ie["a"]) == 1:
                self._cur = leaf
                v = self._conv(ie["a"][0], leaf.env, fn)
                if isinstance(v, AVec):
                    leaf.env.vals[key] = v
                    return [leaf]
                if v == 0:
                    leaf.env.vals[key] = AVec()
                    return [leaf]
            raise AnalysisBroken("%s: vector built from components (line %s)" % (fn["full"], ie.get("l")))
        outs = []
        for l2 in self._fork_nested([leaf], init, fn):
            self._cur = l2
            l2.env.vals[key] = self._conv(init, l2.env, fn)
            outs.append(l2)
        return outs

    def _inlinable(self, call):
        return call.get("fn") in self.inline or call.get("fn") in self.opaque_calls

    def _exprstmt(self, leaf, s, fn):
        e = strip_casts(s)
        k = e.get("k")
        if k == "Bin" and e["op"] == "=" and self._as_cond(e["b"]) is not None:
            ce = self._as_cond(e["b"])
            th = dict(e, b=ce["a"])
            el = dict(e, b=ce["b"])
            return self._block([leaf], {"k": "If", "l": ce.get("l"), "c": ce["c"], "th": th, "el": el}, fn)
        if k == "Bin" and e["op"] in ("=", "+=", "-=", "*=", "/="):
            outs = []
            for l2 in self._fork_nested([leaf], e["b"], fn):
                self._cur = l2
                rhs = self._conv(e["b"], l2.env, fn)
                self._assign(l2, e["a"], e["op"], rhs, fn)
                outs.append(l2)
            return outs
        if k == "Call" and e.get("op") in ("=", "+=", "-=", "*=", "/=") and e.get("obj") is not None:
            self._cur = leaf
            rhs = self._conv(e["a"][0], leaf.env, fn)
            self._assign(leaf, e["obj"], e["op"], rhs, fn)
            return [leaf]
        if k == "Call" and self._inlinable(e):
            return [l2 for l2, _ in self._inline_call(leaf, e, fn)]
        if k == "Call":
            # a call whose effects we do not model: only tolerated when it has no
            # non-const reference/pointer access to tracked state (asserts are compiled out)
            raise AnalysisBroken("%s: call %s at line %s is not modelled" %
                                 (fn["full"], pretty(e)[:80], e.get("l")))
        raise AnalysisBroken("%s: statement %s at line %s not understood" %
                             (fn["full"], pretty(e)[:80], e.get("l")))

    def _assign(self, leaf, target, op, rhs, fn):
        t = strip_casts(target)
        # element of a vector
        base = None
        idx = None
        if t.get("k") == "Call" and t.get("op") == "[]" and t.get("obj") is not None:
            base, idx = t["obj"], const_int(t["a"][0])
        elif t.get("k") == "Idx":
            base, idx = t["a"], const_int(t["i"])
        if base is not None:
            bkey = self.conv.key(base)
            cur = leaf.env.vals.get(bkey)
            if bkey is not None and idx is not None and op == "=" and rhs == 0 and \
                    (cur is None or isinstance(cur, AVec)):
                # component-wise zeroing v[0] = v[1] = v[2] = 0: complete only with all three
                done = set(cur.partial) if (cur is not None and cur.partial) else set()
                done.add(idx)
                leaf.env.vals[bkey] = AVec({}, partial=done)
                return
            raise AnalysisBroken("%s: component assignment %s (line %s) is not representable" %
                                 (fn["full"], pretty(t), t.get("l")))
        key = self.conv.key(t)
        if key is None:
            raise AnalysisBroken("%s: cannot name assignment target %s (line %s)" %
                                 (fn["full"], pretty(t), t.get("l")))
        if op == "=":
            leaf.env.vals[key] = rhs
        else:
            if key not in leaf.env.vals:
                raise AnalysisBroken("%s: %s of unset variable %s (line %s)" %
                                     (fn["full"], op, pretty(t), t.get("l")))
            leaf.env.vals[key] = self._apply(op, leaf.env.vals[key], rhs)

    @staticmethod
    def _apply(op, old, rhs):
        if op == "=":
            return rhs
        if op == "+=":
            return old + rhs
        if op == "-=":
            return old - rhs
        if op == "*=":
            return old * rhs
        if op == "/=":
            return old / rhs
        raise AnalysisBroken("compound operator %s" % op)

    def _inline_call(self, leaf, call, fn):
        """Yields (leaf', return value) for each leaf of the callee."""
        if call.get("fn") in self.opaque_calls:
            cands = [c for c in self.unit.funcs(call["fn"]) if len(c["params"]) == len(call["a"])]
            if len(cands) != 1:
                raise AnalysisBroken("cannot resolve opaque callee %s" % call["fn"])
            nl = Leaf(list(leaf.conds), leaf.env.copy(), None, leaf.aborted)
            nl.callvals = dict(getattr(leaf, "callvals", {}))
            nl.opaque = list(getattr(leaf, "opaque", [])) + [call["fn"]]
            spec = self.opaque_calls[call["fn"]]
            invals = []
            self._cur = leaf
            for p, a in zip(cands[0]["params"], call["a"]):
                if not (p["t"].rstrip().endswith("&") and not p["t"].startswith("const")):
                    v = self._conv(a, leaf.env, fn)
                    if not isinstance(v, AVec) and not isinstance(v, (sp.logic.boolalg.BooleanFunction,
                                                                     sp.logic.boolalg.BooleanAtom,
                                                                     sp.core.relational.Relational)) \
                            and getattr(v, "is_Boolean", False) is not True or isinstance(v, sp.Symbol) and \
                            (v.is_real or v.is_positive):
                        invals.append(v)
            k = 0
            for p, a in zip(cands[0]["params"], call["a"]):
                if p["t"].rstrip().endswith("&") and not p["t"].startswith("const"):
                    ak = self.conv.key(a)
                    nm = spec["outs"][k] if k < len(spec.get("outs", [])) else "out%d" % k
                    k += 1
                    if self._is_vec_type(p["t"]):
                        nl.env.vals[ak] = self.vec_symbols(nm)
                    elif spec.get("functions"):
                        nl.env.vals[ak] = sp.Function(nm, real=True)(*invals)
                    else:
                        nl.env.vals[ak] = self.conv.sym(nm)
            if spec.get("functions"):
                yield nl, sp.Function(spec["ret"], real=True)(*invals)
            else:
                yield nl, self.conv.sym(spec["ret"])
            return
        cands = self.unit.funcs(call["fn"])
        cands = [c for c in cands if len(c["params"]) == len(call["a"])]
        if call.get("cls"):
            cc = [c for c in cands if c.get("cls") == call["cls"]]
            cands = cc or cands
        if len(cands) != 1:
            raise AnalysisBroken("cannot resolve callee %s for inlining" % call["fn"])
        callee = cands[0]
        cenv = Env()
        # members / class constants are shared through atoms; bind parameters
        refs = []
        for p, a in zip(callee["params"], call["a"]):
            pk = ("l", p["id"])
            is_ref = p["t"].rstrip().endswith("&") and not p["t"].startswith("const")
            if is_ref:
                ak = self.conv.key(a)
                refs.append((pk, ak))
                if ak in leaf.env.vals:
                    cenv.vals[pk] = leaf.env.vals[ak]
            else:
                self._cur = leaf
                cenv.vals[pk] = self._conv(a, leaf.env, fn)
        saved = getattr(self, "_cur", None)
        sub = self._block([Leaf(list(leaf.conds), cenv)], callee["body"], callee)
        self._cur = saved
        for sl in sub:
            nl = Leaf(list(sl.conds), leaf.env.copy(), None, sl.aborted)
            nl.callvals = dict(getattr(leaf, "callvals", {}))
            nl.opaque = list(getattr(leaf, "opaque", [])) + list(getattr(sl, "opaque", []))
            for pk, ak in refs:
                if pk in sl.env.vals:
                    nl.env.vals[ak] = sl.env.vals[pk]
            yield nl, (sl.ret if sl.ret != "void" else None)


def class_constants(unit, clsq, conv=None, gamma_symbol=None):
    """Derived constants of a solver class from its constructor initialisers:
    member name -> sympy expression in gamma (std::max(gamma, 1.00000001) is read as gamma)."""
    ctors = [m for m in unit.methods_of(clsq) if m.get("ctor") and not m.get("copyctor")]
    if len(ctors) != 1:
        raise AnalysisBroken("expected one constructor of %s" % clsq)
    ct = ctors[0]
    g = gamma_symbol or S("gamma", positive=True)
    conv = conv or Converter()
    env = Env()
    for p in ct["params"]:
        env.vals[("l", p["id"])] = g
    vals = {}

    def atoms(key, e):
        if key is not None and key[0] == "m" and key[1] in vals:
            return vals[key[1]]
        return None
    conv.atoms = atoms
    for ini in ct["inits"]:
        if "member" not in ini or ini.get("x") is None:
            continue
        v = conv.conv(ini["x"], env)
        # the clamp max(gamma, 1+eps) only matters for gamma <= 1; analysed for gamma > 1
        v = v.replace(lambda x: isinstance(x, sp.Max), lambda x: g if g in x.args else x)
        vals[ini["member"]] = sp.simplify(v)
    return vals, ct
