"""Value-precise, path-insensitive evaluation of loop-free numerical code ("phi evaluation").

Statements are evaluated in order over an environment of sympy values; at an `if` both arms are
evaluated and every location that ends up with different values in the two arms gets a fresh opaque
symbol (a phi node).  Loops with small constant bounds are unrolled.  Calls that write through
non-const reference arguments give those arguments fresh symbols.  Each value carries a flag
"non-negative by construction" (a max(., 0) clamp, a non-negative literal, or a phi of such values).
Nothing is executed: the result is a set of formulas for the final state writes.
"""
import sympy as sp

from . import cfg as C
from .astdb import AnalysisBroken
from .sym import Converter, Env


class Val:
    __slots__ = ("e", "nn")

    def __init__(self, e, nn=False):
        self.e = e
        self.nn = nn


class PhiEval:
    def __init__(self, fn, member_syms=None):
        self.fn = fn
        self.env = {}          # key -> Val   (vector locals: key + (i,))
        self.nphi = 0
        self.nopaque = 0
        self.writes = []       # (key, op) in order, for state keys
        self.member_syms = member_syms or {}
        self.vec_locals = set()
        self.calls = []

    # ---- keys ---------------------------------------------------------------------------------
    def key(self, e):
        e = C.strip_casts(e)
        k = e.get("k")
        if k == "Ref":
            return ("l", e["n"]) if "id" in e else ("g", e.get("q"))
        if k == "Mem":
            b = C.strip_casts(e["b"])
            if b.get("k") == "This":
                return ("m", e["n"])
            bk = self.key(b)
            return ("f", bk, e["n"]) if bk else None
        if k == "Idx":
            i = self.const(e["i"])
            bk = self.key(e["a"])
            return bk + (i,) if bk is not None and i is not None else None
        if k == "Call" and e.get("op") == "[]" and e.get("obj") is not None and e["a"]:
            i = self.const(e["a"][0])
            bk = self.key(e["obj"])
            return bk + (i,) if bk is not None and i is not None else None
        if k == "Call" and e.get("obj") is not None and e.get("n") in ("x", "y", "z") and not e["a"]:
            bk = self.key(e["obj"])
            return bk + ("xyz".index(e["n"]),) if bk is not None else None
        if k == "Call" and e.get("obj") is not None and e.get("n") and not e.get("op"):
            # accessor returning a reference: state.delta_conserved(k), state.conserved(k)
            bk = self.key(e["obj"])
            if bk is None:
                return None
            args = tuple(self.const(a) for a in e["a"])
            if any(a is None for a in args):
                return None
            return ("acc", bk, e["n"]) + args
        if k == "Un" and e["op"] == "*":
            return self.key(e["x"])
        return None

    def const(self, e):
        v = C.const_int(e)
        if v is not None:
            return v
        ee = C.strip_casts(e)
        k = self.key(ee) if ee.get("k") == "Ref" else None
        if k is not None and k in self.env and self.env[k].e.is_Integer:
            return int(self.env[k].e)
        if k is not None and k in self.env and self.env[k].e.is_Symbol:
            return str(self.env[k].e)       # a symbolic (but fixed) index, e.g. the cell of a cell loop
        if ee.get("k") == "Bin" and ee["op"] in ("+", "-", "*"):
            a, b = self.const(ee["a"]), self.const(ee["b"])
            if isinstance(a, int) and isinstance(b, int):
                return {"+": a + b, "-": a - b, "*": a * b}[ee["op"]]
        return None

    # ---- expressions --------------------------------------------------------------------------
    def fresh(self, name, nn=False):
        self.nopaque += 1
        return Val(sp.Symbol("%s#%d" % (name, self.nopaque), real=True), nn)

    def val(self, e):
        e0 = e
        e = C.strip_casts(e)
        k = e.get("k")
        if k == "Int":
            return Val(sp.Integer(int(e["v"])), int(e["v"]) >= 0)
        if k == "Float":
            try:
                r = sp.Rational((e.get("sp") or e["v"]).rstrip("fFlL"))
            except Exception:
                r = sp.Float(e["v"])
            return Val(r, bool(r >= 0))
        if k == "Bool":
            return Val(sp.Integer(1 if e["v"] else 0), True)
        if k in ("Ref", "Mem", "Idx") or (k == "Call" and self.key(e) is not None and
                                          (e.get("op") == "[]" or e.get("n") in ("x", "y", "z") or
                                           self.key(e)[0] == "acc")):
            key = self.key(e)
            if key is not None:
                if key in self.env:
                    return self.env[key]
                if k == "Ref" and "v" in e:
                    return Val(sp.Integer(int(e["v"])), int(e["v"]) >= 0)
                s = sp.Symbol(self.keyname(key), real=True)
                return Val(s, False)
        if k == "Bin":
            op = e["op"]
            if op in ("+", "-", "*", "/"):
                a, b = self.val(e["a"]), self.val(e["b"])
                r = {"+": a.e + b.e, "-": a.e - b.e, "*": a.e * b.e, "/": a.e / b.e}[op]
                nn = a.nn and b.nn and op in ("+", "*", "/")
                return Val(r, nn)
            if op in ("<", ">", "<=", ">=", "==", "!=", "&&", "||"):
                return self.fresh("cond")
        if k == "Un":
            if e["op"] == "-":
                a = self.val(e["x"])
                return Val(-a.e, False)
            if e["op"] == "+":
                return self.val(e["x"])
            if e["op"] == "!":
                return self.fresh("cond")
        if k == "Cond":
            a, b = self.val(e["a"]), self.val(e["b"])
            if a.e == b.e:
                return Val(a.e, a.nn and b.nn)
            self.nphi += 1
            return Val(sp.Symbol("phi#%d" % self.nphi, real=True), a.nn and b.nn)
        if k == "Call":
            fn = (e.get("fn") or e.get("n") or "")
            base = fn.split("::")[-1]
            args = e["a"]
            if base in ("max", "fmax") and len(args) == 2:
                a, b = self.val(args[0]), self.val(args[1])
                return Val(sp.Max(a.e, b.e), a.nn or b.nn)
            if base in ("min", "fmin") and len(args) == 2:
                a, b = self.val(args[0]), self.val(args[1])
                return Val(sp.Min(a.e, b.e), a.nn and b.nn)
            if base == "sqrt" and len(args) == 1:
                a = self.val(args[0])
                return Val(sp.sqrt(a.e), True)
            if base in ("abs", "fabs") and len(args) == 1:
                return Val(sp.Abs(self.val(args[0]).e), True)
            if e.get("op") in ("+", "-", "*", "/") and (e.get("obj") is not None or len(args) == 2):
                ops = ([e["obj"]] if e.get("obj") is not None else []) + args
                if len(ops) == 2:
                    a, b = self.val(ops[0]), self.val(ops[1])
                    r = {"+": a.e + b.e, "-": a.e - b.e, "*": a.e * b.e, "/": a.e / b.e}[e["op"]]
                    return Val(r, a.nn and b.nn and e["op"] != "-")
            # opaque pure call
            vals = tuple(self.val(a).e for a in args)
            objk = self.key(e["obj"]) if e.get("obj") is not None else None
            nm = "%s(%s%s)" % (base, (self.keyname(objk) + ";") if objk else "", ",".join(str(v) for v in vals))
            return Val(sp.Symbol(nm, real=True), False)
        if k == "Ctor" and len(e.get("a", [])) == 1:
            return self.val(e["a"][0])
        return self.fresh("expr")

    def keyname(self, key):
        if key is None:
            return "?"
        return ".".join(str(x) if not isinstance(x, tuple) else self.keyname(x) for x in key[1:]) \
            if key[0] in ("l", "g", "m") else "%s(%s)" % (key[0], ",".join(
                self.keyname(x) if isinstance(x, tuple) else str(x) for x in key[1:]))

    # ---- vectors ------------------------------------------------------------------------------
    def is_vec_type(self, t):
        return (t or "").replace("const ", "").strip().rstrip("&").strip().startswith("CoordinateVector<")

    def vec_val(self, e):
        """Three component values of a vector expression."""
        e = C.strip_casts(e)
        k = e.get("k")
        key = self.key(e) if k in ("Ref", "Mem") else None
        if key is not None:
            return [self.env.get(key + (i,), Val(sp.Symbol("%s[%d]" % (self.keyname(key), i), real=True)))
                    for i in range(3)]
        if k == "Ctor":
            if len(e["a"]) == 3:
                return [self.val(a) for a in e["a"]]
            if len(e["a"]) == 1:
                a = C.strip_casts(e["a"][0])
                if self.is_vec_type(a.get("t")):
                    return self.vec_val(a)
                v = self.val(a)
                return [v, v, v]
            if not e["a"]:
                return [Val(sp.Integer(0), True)] * 3
        if k == "Call" and e.get("op") in ("*", "+", "-", "/"):
            ops = ([e["obj"]] if e.get("obj") is not None else []) + e["a"]
            if len(ops) == 2:
                va = self.vec_val(ops[0]) if self.is_vec_type(C.strip_casts(ops[0]).get("t")) else [self.val(ops[0])] * 3
                vb = self.vec_val(ops[1]) if self.is_vec_type(C.strip_casts(ops[1]).get("t")) else [self.val(ops[1])] * 3
                f = {"*": lambda a, b: a * b, "+": lambda a, b: a + b, "-": lambda a, b: a - b,
                     "/": lambda a, b: a / b}[e["op"]]
                return [Val(f(a.e, b.e)) for a, b in zip(va, vb)]
        if k == "Call" and e.get("obj") is not None and not e.get("op"):
            objk = self.key(e["obj"])
            nm = "%s.%s" % (self.keyname(objk), e.get("n"))
            return [Val(sp.Symbol("%s[%d]" % (nm, i), real=True)) for i in range(3)]
        return [self.fresh("vec") for _ in range(3)]

    # ---- statements ---------------------------------------------------------------------------
    def assign(self, key, op, v, ast=None):
        if key is None:
            return
        old = self.env.get(key)
        if op == "=":
            new = v
        else:
            if old is None:
                old = Val(sp.Symbol(self.keyname(key) + "@0", real=True), False)
            f = {"+=": lambda a, b: a + b, "-=": lambda a, b: a - b, "*=": lambda a, b: a * b,
                 "/=": lambda a, b: a / b}[op]
            new = Val(f(old.e, v.e), old.nn and v.nn and op in ("+=", "*=", "/="))
        self.env[key] = new
        if key[0] in ("acc",) or (key[0] == "f"):
            self.writes.append((key, op, ast))

    def stmt(self, s):
        if s is None:
            return
        k = s.get("k")
        if k == "Block":
            if s.get("mac") in C.ABORT_MACROS:
                return
            for c in s["s"]:
                self.stmt(c)
            return
        if k == "Decl":
            for d in s["d"]:
                key = ("l", d["n"])
                if self.is_vec_type(d.get("t")):
                    self.vec_locals.add(d["n"])
                    vals = self.vec_val(d["init"]) if d.get("init") is not None else [Val(sp.Integer(0), True)] * 3
                    for i, v in enumerate(vals):
                        self.env[key + (i,)] = v
                elif d.get("init") is not None:
                    ie = C.strip_casts(d["init"])
                    if ie.get("k") == "InitList":
                        for i, a in enumerate(ie["a"]):
                            self.env[key + (i,)] = self.val(a)
                    else:
                        self.env[key] = self.val(d["init"])
            return
        if k == "If":
            self.val(s["c"])
            base = dict(self.env)
            w0 = len(self.writes)
            self.stmt(s["th"])
            env_t = self.env
            self.env = dict(base)
            if s.get("el"):
                self.stmt(s["el"])
            env_e = self.env
            merged = {}
            for key in set(env_t) | set(env_e):
                a, b = env_t.get(key), env_e.get(key)
                if a is not None and b is not None and a.e == b.e:
                    merged[key] = Val(a.e, a.nn and b.nn)
                else:
                    if a is None:
                        a = base.get(key)
                    if b is None:
                        b = base.get(key)
                    self.nphi += 1
                    nn = (a.nn if a is not None else False) and (b.nn if b is not None else False)
                    merged[key] = Val(sp.Symbol("phi#%d" % self.nphi, real=True), nn)
            self.env = merged
            return
        if k == "For":
            d = s["init"]["d"][0] if s.get("init") and s["init"].get("k") == "Decl" else None
            c = C.strip_casts(s["c"]) if s.get("c") else None
            start = C.const_int(d.get("init")) if d is not None else None
            ub = self.const(c["b"]) if c is not None and c.get("k") == "Bin" and c["op"] == "<" else None
            if d is None or start is None or ub is None or ub - start > 32:
                raise AnalysisBroken("%s: loop at line %s cannot be unrolled" % (self.fn["full"], s.get("l")))
            for i in range(start, ub):
                self.env[("l", d["n"])] = Val(sp.Integer(i), i >= 0)
                self.stmt(s["body"])
            return
        if k in ("While", "Do", "Switch", "ForRange"):
            raise AnalysisBroken("%s: %s at line %s is not a formula" % (self.fn["full"], k, s.get("l")))
        if k in ("Return", "Null", "Break", "Continue"):
            return
        # expression statement
        e = C.strip_casts(s)
        kk = e.get("k")
        if kk == "Bin" and e["op"] in ("=", "+=", "-=", "*=", "/="):
            tgt = C.strip_casts(e["a"])
            if self.is_vec_type(tgt.get("t")) and self.key(tgt) is not None:
                vals = self.vec_val(e["b"]) if self.is_vec_type(C.strip_casts(e["b"]).get("t")) else [self.val(e["b"])] * 3
                for i, v in enumerate(vals):
                    self.assign(self.key(tgt) + (i,), e["op"], v, e)
                return
            self.assign(self.key(tgt), e["op"], self.val(e["b"]), e)
            return
        if kk == "Call" and e.get("op") in ("=", "+=", "-=", "*=", "/=") and e.get("obj") is not None:
            tgt = C.strip_casts(e["obj"])
            key = self.key(tgt)
            if self.is_vec_type(tgt.get("t")) and key is not None:
                a = C.strip_casts(e["a"][0])
                vals = self.vec_val(a) if self.is_vec_type(a.get("t")) else [self.val(a)] * 3
                for i, v in enumerate(vals):
                    self.assign(key + (i,), e["op"], v, e)
                return
            self.assign(key, e["op"], self.val(e["a"][0]), e)
            return
        if kk == "Call":
            self.calls.append(e)
            # out-parameters: non-const reference arguments receive fresh symbols
            callee = e.get("fn") or e.get("n") or "call"
            base = callee.split("::")[-1]
            pts = e.get("pt") or []
            for i, a in enumerate(e["a"]):
                if i >= len(pts):
                    break
                pt = pts[i]
                if not pt.rstrip().endswith("&") or pt.startswith("const "):
                    continue
                aa = C.strip_casts(a)
                key = self.key(aa)
                if key is None:
                    continue
                if self.is_vec_type(pt):
                    for c in range(3):
                        self.env[key + (c,)] = Val(sp.Symbol("%s.%s[%d]" % (base, self.keyname(key), c), real=True))
                else:
                    self.env[key] = Val(sp.Symbol("%s.%s" % (base, self.keyname(key)), real=True))
            return

    out_calls = ("solve_for_flux",)
