"""E4: serialization-grammar extraction for the restart dump.

A writer body (write_restart_file / write_restart_info / the dump site) and the matching
reader (RestartReader constructor / read_restart_info / the restart path) are abstracted
into trees of
    Prim(type, size, cls, key)   one RestartWriter::write / RestartReader::read<T>
    Obj(cls, key)                a nested restartable object
    Loop(bound, items)           for / while / range loop around items
    Cond(cond, then, else)
in the order in which the bytes are produced / consumed (constructor initialisers in
initialisation order).  `key` ties an item to the member (or local) it is written from /
read into.  Loop bounds and conditions are normalised so that "the k-th item" is a
legal operand: a size that is written and then used as a bound is the same quantity as
the size that is read and then used as a bound.
"""
import sympy as sp

from . import cfg as C
from .astdb import AnalysisBroken

INT_TYPES = {"char": 1, "signed char": 1, "unsigned char": 1, "short": 2, "unsigned short": 2, "int": 4,
             "unsigned int": 4, "long": 8, "unsigned long": 8, "long long": 8, "unsigned long long": 8}
FLOAT_TYPES = {"float": 4, "double": 8, "long double": 16}


def prim_class(t):
    t = t.replace("const ", "").strip()
    if t in ("bool", "_Bool"):
        return ("bool", 1, None)
    if t in INT_TYPES:
        return ("int", INT_TYPES[t], not t.startswith("unsigned"))
    if t in FLOAT_TYPES:
        return ("float", FLOAT_TYPES[t], None)
    if t.startswith("std::basic_string<") or t.startswith("std::__cxx11::basic_string<") or t == "std::string":
        return ("string", None, None)
    if t.startswith("std::map<"):
        return ("map", None, None)
    return ("blob:" + t, None, None)


class Item:
    def __init__(self, kind, **kw):
        self.kind = kind
        self.__dict__.update(kw)

    def show(self, ind=0):
        p = "  " * ind
        if self.kind == "prim":
            return "%sprim %s  <- %s  (line %s)" % (p, self.type, self.key, self.line)
        if self.kind == "obj":
            return "%sobj %s  <- %s  (line %s)" % (p, self.cls, self.key, self.line)
        if self.kind == "loop":
            return "%sloop [%s] (line %s)\n%s" % (p, self.bound, self.line,
                                                  "\n".join(i.show(ind + 1) for i in self.items))
        if self.kind == "cond":
            s = "%scond [%s] (line %s)\n%s" % (p, self.cond, self.line,
                                               "\n".join(i.show(ind + 1) for i in self.then))
            if self.els:
                s += "\n%selse\n%s" % (p, "\n".join(i.show(ind + 1) for i in self.els))
            return s
        return p + self.kind


def lv_key(e):
    """Stable key of an lvalue / source expression: members by name, locals by name."""
    e = C.strip_casts(e)
    if e is None:
        return None
    k = e.get("k")
    if k == "Ref":
        return ("local", e["n"]) if "id" in e else ("global", e.get("q"))
    if k == "This":
        return ("this",)
    if k == "Mem":
        b = C.strip_casts(e["b"])
        if b.get("k") == "This":
            return ("m", e["n"]) if e["n"] else ("this",)
        bk = lv_key(b)
        if bk == ("this",):
            return ("m", e["n"]) if e["n"] else ("this",)
        if not e["n"]:
            return bk           # anonymous struct/union level
        return ("f", bk, e["n"]) if bk else None
    if k == "Idx":
        bk = lv_key(e["a"])
        return ("elem", bk) if bk else None
    if k == "Call" and e.get("op") == "[]" and e.get("obj") is not None:
        bk = lv_key(e["obj"])
        return ("elem", bk) if bk else None
    if k == "Un" and e["op"] in ("*", "&"):
        return lv_key(e["x"])
    if k == "Call" and e.get("op") in ("*", "->") and e.get("obj") is not None:
        return lv_key(e["obj"])
    if k == "Call" and e.get("obj") is not None and not e["a"]:
        bk = lv_key(e["obj"])
        return ("call", bk, e.get("n")) if bk else None
    if k == "Ctor" and len(e["a"]) == 1:
        return lv_key(e["a"][0])
    return None


def key_root_member(key):
    """The class member an item key is rooted in, or None for locals."""
    while key is not None:
        if key[0] == "m":
            return key[1]
        if key[0] in ("elem", "f", "call"):
            key = key[1]
        else:
            return None
    return None


class Extractor:
    def __init__(self, fn, side, unit=None):
        self.fn = fn
        self.side = side            # 'w' or 'r'
        self.unit = unit
        self.locals = {}            # local name -> ('item', k) | ('expr', ast)
        self.nprim = 0
        self.flat = []              # all prim/obj items in order
        self.size_of = {}           # member key -> ('item', k) established via resize / size()
        self.params = {p["n"]: p for p in fn["params"]}
        self.const_local = {}
        self.members_via_locals = set()   # members filled from / iterated through locals tied to items

    # ---- event recognition -------------------------------------------------
    def is_stream(self, e, cls):
        e = C.strip_casts(e)
        if e is None:
            return False
        if e.get("k") == "Un" and e["op"] == "*":
            e = C.strip_casts(e["x"])
        t = e.get("t", "")
        return cls in t

    def rebind_key(self, key, depth=0):
        """key with a local that merely stands for a member place (a reference parameter of an inlined helper, a const
        alias) replaced by that place"""
        if key is None or depth > 6:
            return key
        if key[0] == "local":
            d = self.locals.get(key[1])
            if d and d[0] == "expr" and self.const_local.get(key[1]):
                i0 = C.strip_casts(d[1])
                if i0 is not None and (i0.get("k") in ("Mem", "Idx", "Ref") or (i0.get("k") == "Call" and i0.get("op") == "[]")):
                    k2 = self.rebind_key(lv_key(d[1]), depth + 1)
                    if key_root_member(k2):
                        return k2
            return key
        if key[0] == "elem":
            return ("elem", self.rebind_key(key[1], depth + 1))
        if key[0] in ("f", "call"):
            return (key[0], self.rebind_key(key[1], depth + 1)) + tuple(key[2:])
        return key

    def resolve_written(self, a, depth=0):
        """Key of a written value, looking through const locals (and const local arrays) that only carry a member."""
        key = lv_key(a)
        a0 = C.strip_casts(a)
        if depth > 4 or a0 is None:
            return key
        if a0.get("k") == "Ref" and "id" in a0:
            d = self.locals.get(a0["n"])
            if d and d[0] == "expr" and self.const_local.get(a0["n"]):
                i0 = C.strip_casts(d[1])
                plain = i0 is not None and (i0.get("k") in ("Mem", "Idx", "Ref") or
                                            (i0.get("k") == "Call" and i0.get("op") == "[]"))
                k2 = self.resolve_written(d[1], depth + 1) if plain else None
                if key_root_member(k2):
                    return k2
        base = idx = None
        if a0.get("k") == "Idx":
            base, idx = C.strip_casts(a0["a"]), C.const_int(a0["i"])
        if base is not None and idx is None and a0.get("k") == "Idx":
            i0 = C.strip_casts(a0["i"])
            if i0.get("k") == "Ref" and self.locals.get(i0.get("n"), (None,))[0] == "expr" and \
                    self.const_local.get(i0.get("n")):
                idx = C.const_int(self.locals[i0["n"]][1])
        if base is not None and base.get("k") == "Ref" and "id" in base and idx is not None:
            d = self.locals.get(base["n"])
            if d and d[0] == "expr" and self.const_local.get(base["n"]):
                init = C.strip_casts(d[1])
                if init.get("k") == "InitList" and 0 <= idx < len(init["a"]):
                    k2 = self.resolve_written(init["a"][idx], depth + 1)
                    if key_root_member(k2):
                        return k2
        return self.rebind_key(key)

    def write_event(self, x):
        if C.is_call(x, name="write", cls="RestartWriter") and len(x["a"]) == 1:
            a = x["a"][0]
            t = x.get("targs") or C.strip_casts(a).get("t", "")
            key = self.resolve_written(a)
            root = key
            while root is not None and root[0] in ("f", "elem", "call"):
                root = root[1]
            if root is not None and root[0] == "local":
                d = self.locals.get(root[1])
                if d and d[0] == "expr":
                    de = C.strip_casts(d[1])
                    while de is not None and de.get("k") == "Ctor" and len(de["a"]) == 1:
                        de = C.strip_casts(de["a"][0])
                    if C.is_call(de) and de.get("n") in ("begin", "cbegin") and de.get("obj") is not None:
                        ck = lv_key(de["obj"])
                        if key_root_member(ck):
                            self.members_via_locals.add(key_root_member(ck))
            return Item("prim", type=t.replace("const ", ""), key=key, src=a, line=x.get("l"))
        if C.is_call(x) and x.get("n") in ("write_restart_file", "write_restart_info"):
            args = x["a"]
            if any(self.is_stream(a, "RestartWriter") for a in args):
                obj = x.get("obj")
                if obj is None:
                    others = [a for a in args if not self.is_stream(a, "RestartWriter")]
                    return Item("obj", cls="factory:" + x.get("cls", x.get("fn", "?")),
                                key=lv_key(others[0]) if others else None, line=x.get("l"))
                okey = lv_key(obj)
                if okey is not None and okey[0] == "local" and okey[1] in getattr(self, "ptr_walk", {}):
                    okey = ("elem", self.ptr_walk[okey[1]])
                return Item("obj", cls=x.get("cls", "?"), key=okey, line=x.get("l"),
                            virtual=bool(x.get("virt")))
        return None

    def read_event(self, x):
        if C.is_call(x, name="read", cls="RestartReader") and not x["a"]:
            t = x.get("targs") or x.get("t", "")
            return Item("prim", type=t, key=None, line=x.get("l"))
        if x.get("k") == "Ctor" and any("RestartReader" in pt for pt in x.get("pt", [])) and \
                not x.get("copy"):
            return Item("obj", cls=x["cls"], key=None, line=x.get("l"))
        if C.is_call(x) and x.get("n") in ("read_restart_info",) and \
                any(self.is_stream(a, "RestartReader") for a in x["a"]):
            return Item("obj", cls=x.get("cls", "?"), key=lv_key(x["obj"]) if x.get("obj") else None,
                        line=x.get("l"))
        if C.is_call(x) and x.get("n") == "restart" and x.get("static") and \
                any(self.is_stream(a, "RestartReader") for a in x["a"]):
            return Item("obj", cls="factory:" + x.get("cls", "?"), key=None, line=x.get("l"))
        if x.get("k") == "New" and x.get("init") is not None:
            return None
        return None

    def events_in(self, e, dest=None):
        """Items produced by evaluating expression e (operands first)."""
        out = []
        for x in C.walk(e):
            it = self.write_event(x) if self.side == "w" else self.read_event(x)
            if it is not None:
                out.append(it)
        if self.side == "r" and dest is not None and len(out) == 1:
            if out[0].key is None:
                out[0].key = dest
        return out

    # ---- bounds / conditions ----------------------------------------------
    def canon(self, e):
        """Canonical string for a bound / condition expression."""
        e = C.strip_casts(e)
        if e is None:
            return "?"
        k = e.get("k")
        if k == "Int":
            return str(e["v"])
        if k == "Bool":
            return "1" if e["v"] else "0"
        if k == "Null":
            return "null"
        if k == "Ref":
            if "id" in e:
                d = self.locals.get(e["n"])
                if d is not None and d[0] == "expr" and not self.const_local.get(e["n"], False):
                    return "local:" + e["n"]
                if d is None:
                    if e["n"] in self.params:
                        return "param:" + e["n"]
                    return "local:" + e["n"]
                if d[0] == "item":
                    return "item%d" % d[1]
                return self.canon(d[1])
            if "v" in e:
                return str(e["v"])
            return "global:%s" % e.get("q")
        if k in ("Mem", "Idx") or (k == "Call" and (e.get("op") == "[]")):
            key = lv_key(e)
            if key is None:
                return C.pretty(e)
            i = None
            if k == "Idx":
                i = C.const_int(e["i"])
            elif k == "Call":
                i = C.const_int(e["a"][0]) if e["a"] else None
            return "%s%s" % (self.keystr(key), "" if i is None else "#%d" % i)
        if k == "Call":
            n = e.get("n")
            if n == "size" and e.get("obj") is not None and not e["a"]:
                key = lv_key(e["obj"])
                if key in self.size_of:
                    return "item%d" % self.size_of[key][1]
                return "size(%s)" % self.keystr(key)
            if e.get("op") and e.get("obj") is not None and len(e["a"]) == 1:
                return "(%s%s%s)" % (self.canon(e["obj"]), e["op"], self.canon(e["a"][0]))
            if e.get("op") and e.get("obj") is None and len(e["a"]) == 2:
                return "(%s%s%s)" % (self.canon(e["a"][0]), e["op"], self.canon(e["a"][1]))
            if e.get("obj") is not None and not e["a"]:
                return "%s.%s()" % (self.canon(e["obj"]), n)
            return "%s(%s)" % (e.get("fn") or n, ",".join(self.canon(a) for a in e["a"]))
        if k == "Bin":
            a, b = self.canon(e["a"]), self.canon(e["b"])
            if e["op"] in ("*", "+", "==", "!=", "&&", "||") and b < a:
                a, b = b, a
            return "(%s%s%s)" % (a, e["op"], b)
        if k == "Un":
            return "(%s%s)" % (e["op"], self.canon(e["x"]))
        if k == "Ctor" and len(e["a"]) == 1:
            return self.canon(e["a"][0])
        return C.pretty(e)

    def keystr(self, key):
        if key is None:
            return "?"
        if key[0] in ("m", "local", "global"):
            return "%s:%s" % (key[0], key[1])
        if key[0] == "elem":
            return self.keystr(key[1]) + "[]"
        if key[0] == "f":
            return self.keystr(key[1]) + "." + key[2]
        if key[0] == "call":
            return "%s.%s()" % (self.keystr(key[1]), key[2])
        return str(key)

    def loop_bound(self, s):
        k = s.get("k")
        if k == "For":
            c = C.strip_casts(s.get("c")) if s.get("c") else None
            # pointer walk over a member array: for (T *p = member; p < member + n; ++p)
            if c is not None and c.get("k") == "Bin" and c["op"] in ("<", "!=") and s.get("init") and \
                    s["init"].get("k") == "Decl":
                d0 = s["init"]["d"][0]
                if (d0.get("t") or "").rstrip().endswith("*") and d0.get("init") is not None:
                    mk = lv_key(d0["init"])
                    end = C.strip_casts(c["b"])
                    if end.get("k") == "Ref" and self.locals.get(end.get("n"), (None,))[0] == "expr":
                        end = C.strip_casts(self.locals[end["n"]][1])
                    if key_root_member(mk) and end.get("k") == "Bin" and end["op"] == "+" and lv_key(end["a"]) == mk:
                        if not hasattr(self, "ptr_walk"):
                            self.ptr_walk = {}
                        self.ptr_walk[d0["n"]] = mk
                        return self.canon(end["b"])
            if c is not None and c.get("k") == "Bin" and c["op"] in ("<", "!=", "<="):
                b = self.canon(c["b"])
                a = C.strip_casts(c["a"])
                # iterator loops: it != x.end()
                bb = C.strip_casts(c["b"])
                if C.is_call(bb) and bb.get("n") in ("end", "cend", "original_end") and bb.get("obj") is not None:
                    key = lv_key(bb["obj"])
                    if key in self.size_of:
                        return "item%d" % self.size_of[key][1]
                    return "size(%s)%s" % (self.keystr(key), "" if bb["n"] != "original_end" else ":original")
                if c["op"] == "<=":
                    b = "(%s+1)" % b
                return b
            if c is not None and c.get("k") == "Call" and c.get("op") in ("!=", "<"):
                args = ([c["obj"]] if c.get("obj") is not None else []) + c["a"]
                bb = C.strip_casts(args[-1])
                if C.is_call(bb) and bb.get("n") in ("end", "cend", "original_end") and bb.get("obj") is not None:
                    key = lv_key(bb["obj"])
                    if key in self.size_of:
                        return "item%d" % self.size_of[key][1]
                    return "size(%s)%s" % (self.keystr(key), "" if bb["n"] != "original_end" else ":original")
            return "for(%s)" % (self.canon(c) if c else "")
        if k == "ForRange":
            key = lv_key(s["range"])
            if key in self.size_of:
                return "item%d" % self.size_of[key][1]
            return "size(%s)" % self.keystr(key)
        if k in ("While", "Do"):
            c = C.strip_casts(s.get("c")) if s.get("c") else None
            if c is not None and c.get("k") == "Bin" and c["op"] in ("<", "!="):
                v = C.strip_casts(c["a"])
                if v.get("k") == "Ref" and v.get("n") in getattr(self, "zero_counters", {}):
                    incs = [x for x in C.walk_stmt(s["body"]) if x.get("k") == "Un" and x["op"] in ("pre++", "post++") and
                            C.strip_casts(x["x"]).get("n") == v["n"]]
                    if len({id(x) for x in incs}) == 1:
                        return self.canon(c["b"])
            return "while(%s)" % self.canon(s["c"])
        return "?"

    # ---- statements ---------------------------------------------------------
    def emit(self, items, it):
        if it.kind == "prim":
            it.index = self.nprim
            self.nprim += 1
        self.flat.append(it)
        items.append(it)

    def stmt(self, s, items):
        if s is None:
            return
        k = s.get("k")
        if k == "Block":
            if s.get("mac") in C.ABORT_MACROS:
                return
            for c in s["s"]:
                self.stmt(c, items)
            return
        if k == "Decl":
            for d in s["d"]:
                init = d.get("init")
                t = d.get("t", "")
                self.const_local[d["n"]] = t.startswith("const ") and not t.rstrip().endswith("*") or \
                    t.rstrip().endswith("const")
                if init is None:
                    continue
                if C.const_int(init) == 0 and not self.const_local[d["n"]]:
                    if not hasattr(self, "zero_counters"):
                        self.zero_counters = {}
                    self.zero_counters[d["n"]] = True
                evs = self.events_in(init, dest=("local", d["n"]))
                for it in evs:
                    self.emit(items, it)
                if self.side == "r" and len(evs) == 1 and evs[0].kind == "prim" and \
                        C.strip_casts(init) is not None and self._is_direct_read(init):
                    self.locals[d["n"]] = ("item", evs[0].index)
                else:
                    self.locals[d["n"]] = ("expr", init)
            return
        if k == "If":
            for it in self.events_in(s["c"]):
                self.emit(items, it)
            th, el = [], []
            self.stmt(s["th"], th)
            if s.get("el"):
                self.stmt(s["el"], el)
            if th or el:
                items.append(Item("cond", cond=self.canon(s["c"]), then=th, els=el, line=s.get("l")))
            return
        if k == "For" and self._unrollable_over_local_array(s):
            # a constant loop that indexes a const local array (a table of members written one by one): unrolled here so
            # that every written value keeps the member it comes from
            n_it, lv = self._unrollable_over_local_array(s)
            saved = (self.locals.get(lv), self.const_local.get(lv))
            for i in range(n_it):
                self.locals[lv] = ("expr", {"k": "Int", "v": i, "t": "int"})
                self.const_local[lv] = True
                self.stmt(s["body"], items)
            if saved[0] is None:
                self.locals.pop(lv, None)
            else:
                self.locals[lv] = saved[0]
            self.const_local[lv] = saved[1]
            return
        if k in ("For", "While", "Do", "ForRange"):
            if k == "For" and s.get("init"):
                self.stmt(s["init"], items)
            body = []
            bound = self.loop_bound(s)
            self.stmt(s["body"], body)
            if body:
                items.append(Item("loop", bound=bound, items=body, line=s.get("l")))
            return
        if k in ("Return",):
            if s.get("x"):
                for it in self.events_in(s["x"]):
                    self.emit(items, it)
            return
        if k in ("Null", "Break", "Continue"):
            return
        if k == "OMP":
            self.stmt(s.get("body"), items)
            return
        if k in ("Switch", "Try"):
            if any(True for x in C.walk_stmt(s) if self._any_event(x)):
                raise AnalysisBroken("%s: restart I/O inside a %s statement (line %s)" %
                                     (self.fn["full"], k, s.get("l")))
            return
        # expression statement
        e = C.strip_casts(s)
        # a helper of the same class that receives the stream: its body is part of this grammar
        if e.get("k") == "Call" and not e.get("op") and e.get("n") not in ("write_restart_file", "write_restart_info",
                                                                            "read_restart_info", "restart") and \
                (e.get("obj") is None or C.strip_casts(e["obj"]).get("k") == "This") and \
                any(self.is_stream(a, "RestartWriter" if self.side == "w" else "RestartReader") for a in e["a"]):
            callee = None
            if self.unit is not None:
                cands = [d for d in self.unit.functions.get(e.get("fn") or "", []) if d.get("body")]
                nd = [d for d in cands if not d.get("dependent")]
                callee = (nd or cands or [None])[0]
            if callee is None or getattr(self, "_inline_depth", 0) > 3:
                raise AnalysisBroken("%s: the restart stream is handed to %s, which the grammar extractor cannot follow "
                                     "(line %s)" % (self.fn["full"], e.get("fn") or e.get("n"), e.get("l")))
            saved = {}
            for p2, a2 in zip(callee["params"], e["a"]):
                saved[p2["n"]] = (self.locals.get(p2["n"]), self.const_local.get(p2["n"]))
                self.locals[p2["n"]] = ("expr", a2)
                self.const_local[p2["n"]] = True
            self._inline_depth = getattr(self, "_inline_depth", 0) + 1
            try:
                self.stmt(callee["body"], items)
            finally:
                self._inline_depth -= 1
                for nm, (old, oc) in saved.items():
                    if old is None:
                        self.locals.pop(nm, None)
                    else:
                        self.locals[nm] = old
                    self.const_local[nm] = oc
            return
        dest = None
        if e.get("k") == "Bin" and e["op"] == "=":
            dest = self.rebind_key(lv_key(e["a"]))
        elif e.get("k") == "Call" and e.get("op") == "=" and e.get("obj") is not None:
            dest = self.rebind_key(lv_key(e["obj"]))
        evs = self.events_in(e, dest=dest)
        for it in evs:
            self.emit(items, it)
        if self.side == "w":
            # a written local that is the size of a container: remember the equivalence
            for it in evs:
                if it.kind == "prim" and it.key and it.key[0] == "local":
                    d = self.locals.get(it.key[1])
                    if d and d[0] == "expr":
                        de = C.strip_casts(d[1])
                        if C.is_call(de, name="size") and de.get("obj") is not None:
                            self.size_of[lv_key(de["obj"])] = ("item", it.index)
                        self.locals[it.key[1]] = ("item", it.index) if not C.is_call(de, name="size") else d
                        if C.is_call(de, name="size"):
                            self.locals[it.key[1]] = ("item", it.index)
                elif it.kind == "prim":
                    se = C.strip_casts(it.src)
                    if C.is_call(se, name="size") and se.get("obj") is not None:
                        self.size_of[lv_key(se["obj"])] = ("item", it.index)
        else:
            if dest is not None and key_root_member(dest) and not evs and e.get("k") in ("Bin", "Call"):
                rhs = e.get("b") if e.get("k") == "Bin" else (e["a"][0] if e["a"] else None)
                if rhs is not None and self.canon(rhs).startswith("item"):
                    self.members_via_locals.add(key_root_member(dest))
                    # `member = local` where the local holds exactly one value read from the stream: the member is what
                    # that value was read into
                    r0 = C.strip_casts(rhs)
                    if r0.get("k") == "Ref" and self.locals.get(r0.get("n"), (None,))[0] == "item":
                        kk = self.locals[r0["n"]][1]
                        for it in self.flat:
                            if it.kind == "prim" and getattr(it, "index", None) == kk and \
                                    (it.key is None or it.key[0] == "local"):
                                it.key = dest
            # reader: v.resize(local read as item k)  /  v = new T[local]
            if C.is_call(e, name="resize") and e.get("obj") is not None and e["a"]:
                c = self.canon(e["a"][0])
                if c.startswith("item"):
                    self.size_of[lv_key(e["obj"])] = ("item", int(c[4:]))
            if dest is not None and len(evs) == 1 and evs[0].kind == "prim" and dest[0] == "local" and \
                    self._is_direct_read(e.get("b") if e.get("k") == "Bin" else e["a"][0]):
                self.locals[dest[1]] = ("item", evs[0].index)

    def _unrollable_over_local_array(self, s):
        """(trip count, loop variable) for `for (T i = 0; i < N; ++i)` with constant N <= 16 whose body indexes a const
        local array with i; else None."""
        init, c, inc = s.get("init"), s.get("c"), s.get("inc")
        if not init or init.get("k") != "Decl" or len(init["d"]) != 1 or c is None or inc is None:
            return None
        d0 = init["d"][0]
        c = C.strip_casts(c)
        inc = C.strip_casts(inc)
        if C.const_int(d0.get("init")) != 0 or c.get("k") != "Bin" or c["op"] != "<" or \
                C.strip_casts(c["a"]).get("n") != d0["n"] or C.const_int(c["b"]) is None or not (0 < C.const_int(c["b"]) <= 16):
            return None
        if not (inc.get("k") == "Un" and inc["op"] in ("pre++", "post++") and C.strip_casts(inc["x"]).get("n") == d0["n"]):
            return None
        uses = False
        for x in C.walk_stmt(s["body"]):
            if x.get("k") == "Idx":
                b = C.strip_casts(x["a"])
                i = C.strip_casts(x["i"])
                if b.get("k") == "Ref" and "id" in b and self.const_local.get(b["n"]) and \
                        self.locals.get(b["n"], (None,))[0] == "expr" and \
                        C.strip_casts(self.locals[b["n"]][1]).get("k") == "InitList" and i.get("n") == d0["n"]:
                    uses = True
        return (C.const_int(c["b"]), d0["n"]) if uses else None

    def _is_direct_read(self, e):
        e = C.strip_casts(e)
        return e is not None and C.is_call(e, name="read", cls="RestartReader")

    def _any_event(self, x):
        return (self.write_event(x) if self.side == "w" else self.read_event(x)) is not None

    def run(self):
        items = []
        if self.side == "r" and self.fn.get("ctor"):
            for ini in self.fn.get("inits", []):
                if ini.get("x") is None:
                    continue
                dest = ("m", ini["member"]) if "member" in ini else None
                evs = self.events_in(ini["x"], dest=dest)
                # a member constructed from the reader: Ctor(T, reader)
                x = C.strip_casts(ini["x"])
                for it in evs:
                    if it.key is None and dest is not None:
                        it.key = dest if len(evs) == 1 else ("elem", dest)
                    self.emit(items, it)
        self.stmt(self.fn["body"], items)
        return items
