"""E0: resolved-program database.

Builds (once) the clang-14 plugin tools/cmiast.cc, runs it over
  * an umbrella unit generated on every run that includes every /repo/src/*.hpp, and
  * every hand-written library unit /repo/src/*.cpp (main-file decls + instantiations),
with the flags of /repo's real build (ninja compdb), and indexes the compact JSON.

Results are cached under /verif/.cache keyed by a hash of every input (plugin source,
flags, every file under /repo/src and the generated headers), so a cache hit is exactly
as good as a re-parse of the current working tree.
"""
import hashlib
import json
import os
import shutil
import subprocess
import sys
import tempfile
import time
from concurrent.futures import ThreadPoolExecutor

VERIF = os.path.dirname(os.path.dirname(os.path.abspath(__file__)))
REPO = os.environ.get("CMIV_REPO", "/repo")
SRC = os.path.join(REPO, "src")
BUILD = os.path.join(VERIF, "build")
CACHE = os.path.join(VERIF, ".cache")
PLUGIN_SRC = os.path.join(VERIF, "tools", "cmiast.cc")
PLUGIN_SO = os.path.join(BUILD, "cmiast.so")
UMBRELLA_EXCLUDE = {"Windows.hpp": "needs windows.h"}


class AnalysisBroken(Exception):
    """Anchor vanished / instance count below floor / construct not understood."""


def _sha(b):
    return hashlib.sha256(b).hexdigest()


def build_plugin(force=False):
    os.makedirs(BUILD, exist_ok=True)
    stamp = PLUGIN_SO + ".sha"
    want = _sha(open(PLUGIN_SRC, "rb").read())
    if not force and os.path.exists(PLUGIN_SO) and os.path.exists(stamp) \
            and open(stamp).read().strip() == want:
        return PLUGIN_SO
    cxxflags = subprocess.check_output(["llvm-config-14", "--cxxflags"], text=True).split()
    tmp = PLUGIN_SO + ".tmp%d" % os.getpid()
    cmd = ["clang++"] + cxxflags + ["-fno-rtti", "-fPIC", "-shared", "-O1", "-w",
                                   PLUGIN_SRC, "-o", tmp]
    r = subprocess.run(cmd, capture_output=True, text=True)
    if r.returncode != 0:
        raise AnalysisBroken("cannot build AST exporter plugin:\n" + r.stderr[-3000:])
    os.replace(tmp, PLUGIN_SO)
    open(stamp, "w").write(want)
    return PLUGIN_SO


_flags_cache = None


def build_flags():
    """Flags of the real build for a library unit: -I/-D/-std/-fopenmp, from ninja compdb."""
    global _flags_cache
    if _flags_cache is not None:
        return _flags_cache
    bdir = os.path.join(REPO, "_build")
    if REPO != "/repo" and not os.path.exists(os.path.join(bdir, "build.ninja")):
        bdir = "/repo/_build"
    scratch = None
    if not os.path.exists(os.path.join(bdir, "build.ninja")):
        scratch = tempfile.mkdtemp(prefix="cmiv-cfg-")
        r = subprocess.run(["cmake", "-G", "Ninja", "-S", REPO, "-B", scratch],
                           capture_output=True, text=True)
        if r.returncode != 0:
            shutil.rmtree(scratch, ignore_errors=True)
            raise AnalysisBroken("no /repo/_build and cmake configure failed: " + r.stderr[-2000:])
        bdir = scratch
    try:
        out = subprocess.check_output(["ninja", "-C", bdir, "-t", "compdb"], text=True)
        db = json.loads(out)
        cmd = None
        for e in db:
            if e["file"].endswith("/src/DensitySubGrid.cpp") or e["file"].endswith("/src/Hydro.cpp"):
                cmd = e["command"]
                break
        if cmd is None:
            for e in db:
                if "/src/" in e["file"] and e["file"].endswith(".cpp") and " -c " in e["command"]:
                    cmd = e["command"]
                    break
        if cmd is None:
            raise AnalysisBroken("compilation database has no library unit")
        toks = cmd.split()
        flags = []
        i = 0
        while i < len(toks):
            t = toks[i]
            if t.startswith("-I") or t.startswith("-D") or t.startswith("-std=") or t == "-fopenmp" \
                    or t.startswith("-U"):
                if t in ("-I", "-D", "-U"):
                    flags.append(t + toks[i + 1])
                    i += 1
                else:
                    flags.append(t)
            elif t == "-isystem":
                flags += ["-isystem", toks[i + 1]]
                i += 1
            i += 1
        if not any(f.startswith("-std=") for f in flags):
            flags.append("-std=c++11")
        if REPO != "/repo":
            # analysing a scratch copy of the sources: same flags, its src directory first
            flags = [("-I" + SRC) if f == "-I/repo/src" else f for f in flags]
        if scratch:
            # generated headers live in the scratch dir: copy them next to the cache
            gen = os.path.join(BUILD, "gen")
            shutil.rmtree(gen, ignore_errors=True)
            os.makedirs(gen, exist_ok=True)
            for sub in ("src", "include"):
                d = os.path.join(scratch, sub)
                if os.path.isdir(d):
                    dst = os.path.join(gen, sub)
                    os.makedirs(dst, exist_ok=True)
                    for fn in os.listdir(d):
                        if fn.endswith((".hpp", ".h")):
                            shutil.copy(os.path.join(d, fn), dst)
            flags = [f.replace("-I" + scratch, "-I" + gen) for f in flags]
    finally:
        if scratch:
            shutil.rmtree(scratch, ignore_errors=True)
    _flags_cache = flags
    return flags


def _input_hash(extra_roots=()):
    h = hashlib.sha256()
    h.update(open(PLUGIN_SRC, "rb").read())
    h.update(" ".join(build_flags()).encode())
    dirs = [SRC]
    for f in build_flags():
        if f.startswith("-I") and (f[2:].startswith(REPO) or f[2:].startswith(BUILD)):
            if os.path.isdir(f[2:]) and f[2:] != SRC:
                dirs.append(f[2:])
    dirs += list(extra_roots)
    for d in dirs:
        for fn in sorted(os.listdir(d)):
            p = os.path.join(d, fn)
            if os.path.isfile(p) and fn.endswith((".hpp", ".cpp", ".h", ".hh", ".cc")):
                h.update(fn.encode())
                h.update(open(p, "rb").read())
    return h.hexdigest()[:24]


def _run_plugin(unit_path, out_path, roots, mainonly):
    cmd = ["clang++", "-fsyntax-only", "-Wno-everything"] + build_flags() + [
        unit_path, "-fplugin=" + PLUGIN_SO, "-Xclang", "-plugin", "-Xclang", "cmiast",
        "-Xclang", "-plugin-arg-cmiast", "-Xclang", "out=" + out_path + ".tmp"]
    for r in roots:
        cmd += ["-Xclang", "-plugin-arg-cmiast", "-Xclang", "root=" + r]
    if mainonly:
        cmd += ["-Xclang", "-plugin-arg-cmiast", "-Xclang", "mainonly=1"]
    r = subprocess.run(cmd, capture_output=True, text=True)
    if r.returncode != 0 or not os.path.exists(out_path + ".tmp"):
        raise AnalysisBroken("clang failed on %s:\n%s" % (unit_path, r.stderr[-3000:]))
    os.replace(out_path + ".tmp", out_path)


def library_units():
    return sorted(fn for fn in os.listdir(SRC) if fn.endswith(".cpp"))


def umbrella_headers():
    return sorted(fn for fn in os.listdir(SRC) if fn.endswith(".hpp") and fn not in UMBRELLA_EXCLUDE)


def ensure_dump(log=None):
    """Make sure the cache directory for the current tree exists; return its path."""
    build_plugin()
    key = _input_hash()
    d = os.path.join(CACHE, key)
    done = os.path.join(d, "DONE")
    if os.path.exists(done):
        try:
            os.utime(d, None)
        except OSError:
            pass
        return d
    t0 = time.time()
    tmpd = tempfile.mkdtemp(prefix="cmiv-dump-", dir=CACHE if os.path.isdir(CACHE) else None) \
        if os.path.isdir(CACHE) else None
    if tmpd is None:
        os.makedirs(CACHE, exist_ok=True)
        tmpd = tempfile.mkdtemp(prefix="cmiv-dump-", dir=CACHE)
    umb = os.path.join(tmpd, "umbrella.cpp")
    with open(umb, "w") as f:
        for h in umbrella_headers():
            f.write('#include "%s"\n' % os.path.join(SRC, h))
    jobs = [(umb, os.path.join(tmpd, "umbrella.jsonl"), [SRC + "/"], False)]
    for u in library_units():
        jobs.append((os.path.join(SRC, u), os.path.join(tmpd, u + ".jsonl"), [SRC + "/"], True))
    errs = []

    def run(j):
        try:
            _run_plugin(*j)
        except AnalysisBroken as e:
            errs.append(str(e))

    with ThreadPoolExecutor(max_workers=min(16, os.cpu_count() or 4)) as ex:
        list(ex.map(run, jobs))
    if errs:
        shutil.rmtree(tmpd, ignore_errors=True)
        raise AnalysisBroken("; ".join(errs)[:6000])
    open(os.path.join(tmpd, "DONE"), "w").write(json.dumps({
        "wall_s": time.time() - t0, "units": len(jobs), "flags": build_flags()}))
    try:
        os.rename(tmpd, d)
    except OSError:
        shutil.rmtree(tmpd, ignore_errors=True)  # somebody else won the race
    _prune(keep=key)
    return d


def _prune(keep, maxn=8):
    try:
        ents = [(os.path.getmtime(os.path.join(CACHE, e)), e) for e in os.listdir(CACHE)]
    except OSError:
        return
    ents.sort(reverse=True)
    n = 0
    for _, e in ents:
        if e == keep:
            continue
        n += 1
        p = os.path.join(CACHE, e)
        try:
            age = time.time() - os.path.getmtime(p)
        except OSError:
            continue
        # never touch an entry that was used or is being written in the last 20 minutes: a concurrent run (another check,
        # a mutant of the sensitivity corpus) may be reading it
        if age < 1200:
            continue
        if n >= maxn or (e.startswith("cmiv-dump-") and age > 3600):
            shutil.rmtree(p, ignore_errors=True)


class Unit:
    """All declarations exported from one translation unit."""

    def __init__(self, name, path):
        self.name = name
        self.path = path
        self.decls = []
        self.functions = {}   # qname -> [decl]
        self.records = {}     # qname -> [decl]  (pattern + specialisations)
        self.enums = {}
        self.vars = {}
        if path is None:
            return
        ended = False
        with open(path) as f:
            for line in f:
                d = json.loads(line)
                k = d["kind"]
                if k == "end":
                    ended = True
                    continue
                if k == "error":
                    raise AnalysisBroken("unit %s had compilation errors" % name)
                self.decls.append(d)
                d["unit"] = name
                if k == "function":
                    self.functions.setdefault(d["qname"], []).append(d)
                elif k == "record":
                    self.records.setdefault(d["qname"], []).append(d)
                elif k == "enum":
                    self.enums[d["qname"]] = d
                elif k == "var":
                    self.vars[d["qname"]] = d
        if not ended:
            raise AnalysisBroken("truncated AST export for unit %s" % name)

    # ---- lookups -------------------------------------------------------
    def funcs(self, qname, inst=None, cls_full=None):
        out = []
        for d in self.functions.get(qname, []):
            if inst is not None and bool(d["inst"]) != inst:
                continue
            if cls_full is not None and d.get("cls") != cls_full:
                continue
            out.append(d)
        return out

    def func(self, qname, **kw):
        """The unique function of that name (non-dependent preferred)."""
        c = self.funcs(qname, **kw)
        nd = [d for d in c if not d.get("dependent")]
        if len(nd) == 1:
            return nd[0]
        if len(c) == 1:
            return c[0]
        if not c:
            raise AnalysisBroken("anchor function %s not found in unit %s" % (qname, self.name))
        raise AnalysisBroken("anchor function %s ambiguous in unit %s (%d candidates)" %
                             (qname, self.name, len(c)))

    def record(self, qname, full=None):
        c = self.records.get(qname, [])
        if full is not None:
            c = [d for d in c if d["full"] == full]
        else:
            nd = [d for d in c if not d["inst"]]
            c = nd or c
        if len(c) != 1:
            raise AnalysisBroken("anchor class %s %s in unit %s" %
                                 (qname, "not found" if not c else "ambiguous", self.name))
        return c[0]

    def methods_of(self, clsq, full=None):
        out = []
        for d in self.decls:
            if d["kind"] == "function" and d.get("clsq") == clsq:
                if full is None or d.get("cls") == full:
                    out.append(d)
        return out


class Program:
    def __init__(self, log=None):
        self.dir = ensure_dump(log)
        self._units = {}

    def unit(self, name):
        if name not in self._units:
            p = os.path.join(self.dir, name + ".jsonl")
            if not os.path.exists(p):
                raise AnalysisBroken("unit %s is not part of the library (file vanished?)" % name)
            self._units[name] = Unit(name, p)
        return self._units[name]

    @property
    def umbrella(self):
        return self.unit("umbrella")

    def library(self):
        """Umbrella + every library unit merged (each declaration once)."""
        if "<library>" in self._units:
            return self._units["<library>"]
        lib = Unit("<library>", None)
        seen = set()
        for name in self.all_unit_names():
            u = self.unit(name)
            for d in u.decls:
                key = (d["kind"], d.get("full", d.get("qname")), d.get("file"), d.get("line"),
                       d.get("targs"), d.get("cls"))
                if key in seen:
                    continue
                seen.add(key)
                lib.decls.append(d)
                k = d["kind"]
                if k == "function":
                    lib.functions.setdefault(d["qname"], []).append(d)
                elif k == "record":
                    lib.records.setdefault(d["qname"], []).append(d)
                elif k == "enum":
                    lib.enums[d["qname"]] = d
                elif k == "var":
                    lib.vars[d["qname"]] = d
        self._units["<library>"] = lib
        return lib

    def all_unit_names(self):
        return ["umbrella"] + library_units()


def dump_fixture(path, extra_flags=()):
    """Export a fixture file (under /verif/fixtures) with the same pipeline; not cached."""
    build_plugin()
    fd, out = tempfile.mkstemp(prefix="cmiv-fx-", suffix=".jsonl")
    os.close(fd)
    try:
        _run_plugin(path, out, [os.path.dirname(path) + "/", SRC + "/"], True)
        return Unit(os.path.basename(path), out)
    finally:
        for p in (out, out + ".tmp"):
            if os.path.exists(p):
                os.unlink(p)


def where(node_or_decl, fn=None):
    """file:line string for reports."""
    if "file" in node_or_decl and "line" in node_or_decl:
        return "%s:%d" % (os.path.relpath(node_or_decl["file"], REPO)
                          if node_or_decl["file"].startswith(REPO) else node_or_decl["file"],
                          node_or_decl["line"])
    f = fn["file"] if fn else "?"
    if f.startswith(REPO):
        f = os.path.relpath(f, REPO)
    return "%s:%s" % (f, node_or_decl.get("l", "?"))
