"""E1: structured control-flow graph over the exported AST and a generic state-set
explorer (path-sensitive typestate / abstract-state reachability).

The CFG is built from structured statements only (if / switch / for / while / do /
break / continue / return).  Any goto/label makes the builder fail analysis-broken.
Conditions are decomposed on && || ! so that every branch node tests one leaf
condition and rules can be sensitive to idioms such as `a.try_lock() && b.try_lock()`.
Calls to noreturn functions (abort, exit, ...; this is what cmac_error expands to) end
a path in the ABORT node, which is distinct from the normal EXIT.
"""
from collections import deque

from .astdb import AnalysisBroken


ABORT_MACROS = ("cmac_error",)


class Node:
    __slots__ = ("id", "kind", "ast", "succs", "info")

    def __init__(self, id, kind, ast=None, info=None):
        self.id = id
        self.kind = kind      # entry exit abort stmt decl branch switch return marker
        self.ast = ast
        self.succs = []       # list of (label, node id)
        self.info = info

    def line(self):
        a = self.ast
        if isinstance(a, dict):
            return a.get("l")
        return None

    def __repr__(self):
        return "<%d %s l%s>" % (self.id, self.kind, self.line())


def children_of(e):
    """Immediate sub-expressions in evaluation-ish order (operands before operators)."""
    k = e.get("k")
    if k in ("Ref", "This", "Int", "Float", "Bool", "Str", "Char", "Null", "Sizeof", "ZeroInit",
             "Lambda"):
        return []
    if k == "Mem":
        return [e["b"]]
    if k in ("ICast", "Cast", "Un", "DefArg", "Delete"):
        return [e["x"]] if e.get("x") else []
    if k == "DefInit":
        return [e["x"]] if e.get("x") else []
    if k == "Bin":
        if e["op"] in ("=", "+=", "-=", "*=", "/=", "%=", "<<=", ">>=", "&=", "|=", "^="):
            return [e["b"], e["a"]]
        return [e["a"], e["b"]]
    if k == "Cond":
        return [e["c"], e["a"], e["b"]]
    if k == "Idx":
        return [e["a"], e["i"]]
    if k == "New":
        return [x for x in (e.get("sz"), e.get("init")) if x]
    if k in ("Ctor", "InitList"):
        return list(e["a"])
    if k == "Call":
        out = []
        if e.get("obj"):
            out.append(e["obj"])
        if e.get("callee"):
            out.append(e["callee"])
        out += e["a"]
        return out
    if k == "Unres":
        return [e["b"]] if e.get("b") else []
    if k in ("Other", "OtherStmt"):
        return [c for c in e.get("ch", []) if c]
    if k == "Decl":
        return [d["init"] for d in e["d"] if d.get("init")]
    if k == "Return":
        return [e["x"]] if e.get("x") else []
    return []


def walk(e):
    """All expression nodes below (and including) e, operands first (post-order)."""
    if e is None:
        return
    for c in children_of(e):
        yield from walk(c)
    yield e


def walk_stmt(s):
    """Every AST node (statements and expressions) below s, pre-order for statements."""
    if s is None:
        return
    k = s.get("k")
    yield s
    if k == "Block":
        for c in s["s"]:
            yield from walk_stmt(c)
    elif k == "If":
        for key in ("init", "c", "th", "el"):
            if s.get(key):
                yield from walk_stmt(s[key])
        if s.get("var") and s["var"].get("init"):
            yield from walk_stmt(s["var"]["init"])
    elif k == "For":
        for key in ("init", "c", "inc", "body"):
            if s.get(key):
                yield from walk_stmt(s[key])
    elif k in ("While", "Do"):
        yield from walk_stmt(s["c"])
        yield from walk_stmt(s["body"])
    elif k == "ForRange":
        yield from walk_stmt(s["range"])
        yield from walk_stmt(s["body"])
    elif k == "Switch":
        yield from walk_stmt(s["c"])
        yield from walk_stmt(s["body"])
    elif k in ("Case", "Default"):
        if s.get("sub"):
            yield from walk_stmt(s["sub"])
    elif k in ("OMP", "Captured", "Attributed"):
        if s.get("body"):
            yield from walk_stmt(s["body"])
    elif k == "Try":
        yield from walk_stmt(s["body"])
        for h in s["handlers"]:
            yield from walk_stmt(h)
    elif k == "Lambda":
        yield from walk_stmt(s["body"])
    else:
        for c in children_of(s):
            yield from walk_stmt(c)


def has_noreturn(e):
    for x in walk(e):
        if x.get("k") == "Call" and x.get("noret"):
            return True
    return False


class CFG:
    def __init__(self, fn=None, body=None, name=None, loop_body=False):
        # loop_body: the region is the body of a loop; `continue` (and `break`) end the region
        self.fn = fn
        self.name = name or (fn["full"] if fn else "<region>")
        self.nodes = []
        self.entry = self._new("entry")
        self.exit = self._new("exit")
        self.abort = self._new("abort")
        body = body if body is not None else fn["body"]
        start = self._stmt(body, self.exit.id, self.exit.id if loop_body else None, self.exit.id if loop_body else None)
        first = start
        if fn is not None and fn.get("ctor"):
            # constructor initialisers run, in initialisation order, before the body
            for ini in reversed(fn.get("inits", [])):
                n = self._new("init", ini)
                n.succs = [(None, first)]
                if ini.get("x") and has_noreturn(ini["x"]):
                    n.succs = [(None, self.abort.id)]
                first = n.id
        self.entry.succs = [(None, first)]
        self._preds = None

    def _new(self, kind, ast=None, info=None):
        n = Node(len(self.nodes), kind, ast, info)
        self.nodes.append(n)
        return n

    # ------------------------------------------------------------ builders
    def _simple(self, kind, ast, nxt):
        n = self._new(kind, ast)
        if has_noreturn(ast) if kind != "marker" else False:
            n.succs = [(None, self.abort.id)]
        else:
            n.succs = [(None, nxt)]
        return n.id

    def _cond(self, e, t, f):
        """Entry node for evaluating condition e with true target t and false target f."""
        if e is None:
            return t
        k = e.get("k")
        if k == "Bin" and e["op"] == "&&":
            rhs = self._cond(e["b"], t, f)
            return self._cond(e["a"], rhs, f)
        if k == "Bin" and e["op"] == "||":
            rhs = self._cond(e["b"], t, f)
            return self._cond(e["a"], t, rhs)
        if k == "Un" and e["op"] == "!":
            return self._cond(e["x"], f, t)
        if k == "ICast" and e.get("ck") in ("IntegralToBoolean", "PointerToBoolean") and \
                e["x"].get("k") in ("Bin", "Un") and e["x"].get("op") in ("&&", "||", "!"):
            return self._cond(e["x"], t, f)
        if k == "Bool":
            return t if e["v"] else f
        n = self._new("branch", e)
        if has_noreturn(e):
            n.succs = [(None, self.abort.id)]
        else:
            n.succs = [(True, t), (False, f)]
        return n.id

    def _stmt(self, s, nxt, brk, cont):
        if s is None:
            return nxt
        k = s.get("k")
        if k == "Block" and s.get("mac") in ABORT_MACROS:
            # the expansion of cmac_error: one abort node, provided it really cannot return
            if any(x.get("k") == "Call" and x.get("noret") for x in walk_stmt(s)):
                n = self._new("stmt", {"k": "Abort", "l": s.get("l"), "mac": s.get("mac")})
                n.succs = [(None, self.abort.id)]
                return n.id
        if k == "Block":
            cur = nxt
            for c in reversed(s["s"]):
                cur = self._stmt(c, cur, brk, cont)
            return cur
        if k == "If":
            th = self._stmt(s["th"], nxt, brk, cont)
            el = self._stmt(s.get("el"), nxt, brk, cont)
            c = self._cond(s["c"], th, el)
            if s.get("var"):
                c = self._simple("decl", {"k": "Decl", "l": s.get("l"), "d": [s["var"]]}, c)
            if s.get("init"):
                c = self._stmt(s["init"], c, brk, cont)
            return c
        if k == "While":
            head = self._new("marker", s, "loophead")
            body = self._stmt(s["body"], head.id, nxt, head.id)
            c = self._cond(s["c"], body, nxt)
            head.succs = [(None, c)]
            return head.id
        if k == "Do":
            head = self._new("marker", s, "loophead")
            ctest = self._new("marker", s, "docond")
            body = self._stmt(s["body"], ctest.id, nxt, ctest.id)
            c = self._cond(s["c"], head.id, nxt)
            ctest.succs = [(None, c)]
            head.succs = [(None, body)]
            return head.id
        if k == "For":
            head = self._new("marker", s, "loophead")
            incn = self._new("marker", s, "loopinc")
            if s.get("inc"):
                inc = self._simple("stmt", s["inc"], head.id)
            else:
                inc = head.id
            incn.succs = [(None, inc)]
            body = self._stmt(s["body"], incn.id, nxt, incn.id)
            c = self._cond(s.get("c"), body, nxt)
            head.succs = [(None, c)]
            return self._stmt(s.get("init"), head.id, brk, cont)
        if k == "ForRange":
            head = self._new("branch", {"k": "RangeHasNext", "l": s.get("l"), "range": s["range"],
                                        "var": s["var"]}, "rangeloop")
            body = self._stmt(s["body"], head.id, nxt, head.id)
            head.succs = [(True, body), (False, nxt)]
            return self._simple("stmt", s["range"], head.id)
        if k == "Switch":
            sw = self._new("switch", s["c"])
            labels = []
            self._switch_body(s["body"], nxt, cont, labels)
            succs = []
            has_default = False
            for lab, nid in labels:
                if lab == "default":
                    has_default = True
                succs.append((lab, nid))
            if not has_default:
                succs.append(("default", nxt))
            sw.succs = succs
            return sw.id
        if k in ("Case", "Default"):
            raise AnalysisBroken("case label outside the immediate body of a switch (line %s of %s)"
                                 % (s.get("l"), self.name))
        if k == "Break":
            if brk is None:
                raise AnalysisBroken("break outside loop/switch in %s" % self.name)
            n = self._new("marker", s, "break")
            n.succs = [(None, brk)]
            return n.id
        if k == "Continue":
            if cont is None:
                raise AnalysisBroken("continue outside loop in %s" % self.name)
            n = self._new("marker", s, "continue")
            n.succs = [(None, cont)]
            return n.id
        if k == "Return":
            n = self._new("return", s)
            if s.get("x") and has_noreturn(s["x"]):
                n.succs = [(None, self.abort.id)]
            else:
                n.succs = [(None, self.exit.id)]
            return n.id
        if k == "Decl":
            return self._simple("decl", s, nxt)
        if k == "Null":
            return nxt
        if k == "Goto":
            raise AnalysisBroken("goto/label in %s line %s: structured analysis impossible" %
                                 (self.name, s.get("l")))
        if k == "OMP":
            end = self._new("marker", s, "omp_end")
            end.succs = [(None, nxt)]
            body = self._stmt(s.get("body"), end.id, None, None)
            beg = self._new("marker", s, "omp_begin")
            beg.succs = [(None, body)]
            return beg.id
        if k in ("Captured", "Attributed"):
            return self._stmt(s["body"], nxt, brk, cont)
        if k == "Try":
            return self._stmt(s["body"], nxt, brk, cont)
        if k == "OtherStmt" and s.get("cls") in ("GCCAsmStmt",):
            n = self._new("marker", s, "asm")
            n.succs = [(None, nxt)]
            return n.id
        if k == "OtherStmt":
            raise AnalysisBroken("statement kind %s not understood in %s line %s" %
                                 (s.get("cls"), self.name, s.get("l")))
        # expression statement
        return self._simple("stmt", s, nxt)

    def _switch_body(self, body, nxt, cont, labels):
        """Sequential body of a switch with fall-through; records (label, entry) pairs."""
        if body.get("k") != "Block":
            body = {"k": "Block", "s": [body]}
        cur = nxt
        pending = []
        for c in reversed(body["s"]):
            labs = []
            inner = c
            while inner is not None and inner.get("k") in ("Case", "Default"):
                labs.append("default" if inner["k"] == "Default" else ("case", inner.get("v")))
                inner = inner.get("sub")
            cur = self._stmt(inner, cur, nxt, cont)
            for lab in labs:
                if lab != "default" and lab[1] is None:
                    raise AnalysisBroken("non-constant case label in %s" % self.name)
                pending.append((lab, cur))
        labels.extend(reversed(pending))

    # -------------------------------------------------------------- queries
    def preds(self):
        if self._preds is None:
            p = {n.id: [] for n in self.nodes}
            for n in self.nodes:
                for lab, s in n.succs:
                    p[s].append((lab, n.id))
            self._preds = p
        return self._preds

    def reachable(self, start=None, avoid=()):
        start = self.entry.id if start is None else start
        seen = {start}
        dq = deque([start])
        avoid = set(avoid)
        while dq:
            n = dq.popleft()
            for _, s in self.nodes[n].succs:
                if s not in seen and s not in avoid:
                    seen.add(s)
                    dq.append(s)
        return seen

    def all_paths_pass(self, start, through, target=None):
        """True iff every path from start to target (default: EXIT) passes a node in
        `through` (abort paths are exempt)."""
        target = self.exit.id if target is None else target
        through = set(through)
        if start in through:
            return True
        return target not in self.reachable(start, avoid=through)

    def dominators(self):
        """Classic iterative dominator sets over nodes reachable from entry."""
        reach = self.reachable()
        order = [n.id for n in self.nodes if n.id in reach]
        preds = self.preds()
        dom = {n: set(order) for n in order}
        dom[self.entry.id] = {self.entry.id}
        changed = True
        while changed:
            changed = False
            for n in order:
                if n == self.entry.id:
                    continue
                ps = [p for _, p in preds[n] if p in reach]
                new = set.intersection(*(dom[p] for p in ps)) if ps else set()
                new = new | {n}
                if new != dom[n]:
                    dom[n] = new
                    changed = True
        return dom

    def find(self, pred):
        return [n for n in self.nodes if n.ast is not None and pred(n)]


class Exploration:
    def __init__(self, cfg):
        self.cfg = cfg
        self.at = {}        # node id -> set(states) on entry
        self.parent = {}    # (node, state) -> (prev node, prev state)

    def path_to(self, node_id, state, maxlen=200):
        out = []
        cur = (node_id, state)
        while cur in self.parent and len(out) < maxlen:
            out.append(cur)
            cur = self.parent[cur]
        out.append(cur)
        out.reverse()
        return out

    def path_lines(self, node_id, state):
        ls = []
        for nid, _ in self.path_to(node_id, state):
            l = self.cfg.nodes[nid].line()
            if l and (not ls or ls[-1] != l):
                ls.append(l)
        return ls


def explore(cfg, init_state, transfer, start=None, max_states=400000):
    """State-set reachability.  transfer(node, state) -> iterable of (label, state'):
    label None applies to every successor, otherwise only successors with that label.
    Returns an Exploration (states on entry of each node; EXIT and ABORT included)."""
    ex = Exploration(cfg)
    start = cfg.entry.id if start is None else start
    ex.at[start] = {init_state}
    dq = deque([(start, init_state)])
    count = 0
    while dq:
        nid, st = dq.popleft()
        node = cfg.nodes[nid]
        if not node.succs:
            continue
        outs = list(transfer(node, st))
        for lab, ns in outs:
            for slab, succ in node.succs:
                if lab is not None and slab != lab:
                    continue
                ss = ex.at.setdefault(succ, set())
                if ns not in ss:
                    ss.add(ns)
                    ex.parent[(succ, ns)] = (nid, st)
                    dq.append((succ, ns))
                    count += 1
                    if count > max_states:
                        raise AnalysisBroken("state explosion while analysing %s" % cfg.name)
    return ex


# ---------------------------------------------------------------------------
# small AST helpers shared by the rules

def is_call(e, name=None, cls=None, fn=None):
    if e.get("k") != "Call":
        return False
    if name is not None and e.get("n") != name:
        return False
    if fn is not None and e.get("fn") != fn:
        return False
    if cls is not None:
        c = e.get("cls", "")
        if not (c == cls or c.startswith(cls + "<")):
            return False
    return True


def strip_casts(e):
    while e is not None and e.get("k") in ("ICast", "Cast", "DefArg"):
        e = e["x"]
    return e


def ref_key(e):
    """Identity of an lvalue expression: local id, this->member, or member chain."""
    e = strip_casts(e)
    if e is None:
        return None
    k = e.get("k")
    if k == "Ref":
        if "id" in e:
            return ("local", e["id"], e["n"])
        return ("global", e.get("q"))
    if k == "Mem":
        b = ref_key(e["b"])
        return ("mem", b, e["n"])
    if k == "This":
        return ("this",)
    if k == "Idx":
        return ("idx", ref_key(e["a"]), const_int(e["i"]))
    if k == "Un" and e["op"] in ("*",):
        return ("deref", ref_key(e["x"]))
    if k == "Call" and e.get("op") in ("*", "->") and e.get("obj"):
        return ("deref", ref_key(e["obj"]))
    if k == "Call" and e.get("op") == "[]" and e.get("obj"):
        return ("idx", ref_key(e["obj"]), const_int(e["a"][0]) if e["a"] else None)
    return None


def const_int(e):
    e = strip_casts(e)
    if e is None:
        return None
    if e.get("k") == "Int":
        return int(e["v"])
    if e.get("k") == "Bool":
        return int(bool(e["v"]))
    if e.get("k") == "Ref" and "v" in e:
        return int(e["v"])
    if e.get("k") == "Un" and e["op"] == "-":
        v = const_int(e["x"])
        return -v if v is not None else None
    return None


def member_name(e):
    """Name of a `this->member` (implicit or explicit) expression, else None."""
    e = strip_casts(e)
    if e and e.get("k") == "Mem" and e.get("dk") == "Field" and strip_casts(e["b"]).get("k") == "This":
        return e["n"]
    return None


def pretty(e, depth=0):
    """Short human-readable rendering of an expression for reports."""
    if e is None:
        return "<null>"
    if depth > 12:
        return "..."
    k = e.get("k")
    p = lambda x: pretty(x, depth + 1)
    if k == "Ref":
        return e["n"]
    if k == "Mem":
        b = strip_casts(e["b"])
        if b.get("k") == "This":
            return e["n"]
        return p(e["b"]) + ("->" if e.get("arrow") else ".") + e["n"]
    if k == "This":
        return "this"
    if k in ("Int",):
        return str(e["v"])
    if k == "Float":
        return e.get("sp") or e["v"]
    if k == "Bool":
        return "true" if e["v"] else "false"
    if k == "Str":
        return '"%s"' % e["v"]
    if k == "Null":
        return "nullptr"
    if k in ("ICast", "DefArg"):
        return p(e["x"])
    if k == "Cast":
        return "(%s)%s" % (e["t"], p(e["x"]))
    if k == "Bin":
        return "(%s %s %s)" % (p(e["a"]), e["op"], p(e["b"]))
    if k == "Un":
        op = e["op"]
        if op.startswith("post"):
            return p(e["x"]) + op[4:]
        if op.startswith("pre"):
            return op[3:] + p(e["x"])
        return op + p(e["x"])
    if k == "Cond":
        return "(%s ? %s : %s)" % (p(e["c"]), p(e["a"]), p(e["b"]))
    if k == "Idx":
        return "%s[%s]" % (p(e["a"]), p(e["i"]))
    if k == "Call":
        args = ", ".join(p(a) for a in e["a"])
        if e.get("op") == "[]" and e.get("obj"):
            return "%s[%s]" % (p(e["obj"]), args)
        if e.get("op") and e.get("obj") is not None:
            if e["a"]:
                return "(%s %s %s)" % (p(e["obj"]), e["op"], args)
            return "%s%s" % (e["op"], p(e["obj"]))
        if e.get("op") and len(e["a"]) == 2:
            return "(%s %s %s)" % (p(e["a"][0]), e["op"], p(e["a"][1]))
        if e.get("obj"):
            return "%s.%s(%s)" % (p(e["obj"]), e.get("n", "?"), args)
        return "%s(%s)" % (e.get("fn") or e.get("n") or "?", args)
    if k == "Ctor":
        return "%s(%s)" % (e["cls"], ", ".join(p(a) for a in e["a"]))
    if k == "New":
        return "new %s%s" % (e["ty"], "[%s]" % p(e["sz"]) if e.get("sz") else "")
    if k == "Delete":
        return "delete%s %s" % ("[]" if e["arr"] else "", p(e["x"]))
    if k == "InitList":
        return "{%s}" % ", ".join(p(a) for a in e["a"])
    return "<%s>" % k


def inline_void_helpers(stmt, helpers, depth=0):
    """Copy of the statement tree in which every expression statement that is a call to one of `helpers` (free void
    functions with a body, keyed by qualified name) is replaced by the callee's body with the parameters substituted by
    the argument expressions. Arguments must be side-effect free lvalues / values (they are re-evaluated textually)."""
    import copy

    def subst(e, m):
        if isinstance(e, dict):
            if e.get("k") == "Ref" and e.get("id") in m:
                return copy.deepcopy(m[e["id"]])
            return {k: subst(v, m) for k, v in e.items()}
        if isinstance(e, list):
            return [subst(v, m) for v in e]
        return e

    def simple(a):
        a = strip_casts(a)
        if a is None:
            return False
        if a.get("k") in ("Ref", "Int", "Float", "Bool", "This", "Null"):
            return True
        if a.get("k") == "Un" and a.get("op") in ("*", "&"):
            return simple(a["x"])
        if a.get("k") == "Mem":
            return simple(a["b"])
        if a.get("k") == "Call" and a.get("op") in ("*", "->", "[]") and a.get("obj") is not None:
            return simple(a["obj"]) and all(simple(x) for x in a.get("a", []))
        if a.get("k") in ("Idx",):
            return simple(a["a"]) and simple(a["i"])
        if a.get("k") == "Ctor" and len(a.get("a", [])) == 1:
            return simple(a["a"][0])
        return False

    def rec(s):
        if not isinstance(s, dict):
            return s
        k = s.get("k")
        if k == "Call" and not s.get("op") and (s.get("obj") is None or (strip_casts(s["obj"]) or {}).get("k") == "This") and \
                s.get("fn") in helpers and depth < 3:
            callee = helpers[s["fn"]]
            if (callee.get("ret") or "void") == "void" and len(callee["params"]) == len(s["a"]) and \
                    all(simple(a) for a in s["a"]) and \
                    not any(x.get("k") == "Return" and x.get("x") is not None for x in walk_stmt(callee["body"])):
                m = {p["id"]: a for p, a in zip(callee["params"], s["a"])}
                body = subst(callee["body"], m)
                return inline_void_helpers(body, helpers, depth + 1)
            return s
        if k == "Block":
            out = dict(s)
            out["s"] = [rec(x) for x in s.get("s", [])]
            return out
        out = dict(s)
        for key in ("th", "el", "body", "sub"):
            if isinstance(s.get(key), dict):
                out[key] = rec(s[key])
        return out
    return rec(stmt)


_FRESH = [0]


def _fresh_id():
    _FRESH[0] -= 1
    return _FRESH[0]


def inline_helpers(stmt, helpers, depth=0):
    """Copy of the statement tree in which statements of the forms  `helper(args);`,  `x = helper(args);`  and
    `T x = helper(args);`  are replaced by the body of the helper (a function with a body from `helpers`, keyed by qualified
    name) - provided the helper returns only through one trailing `return`.  Parameters are replaced by the argument
    expressions when these are plain lvalues / literals and by fresh const locals otherwise; the helper's own locals get fresh
    ids per inlined copy.  Everything else is left as it is."""
    import copy

    def simple(a):
        a = strip_casts(a)
        if a is None:
            return False
        if a.get("k") in ("Ref", "Int", "Float", "Bool", "This", "Null"):
            return True
        if a.get("k") == "Un" and a.get("op") in ("*", "&"):
            return simple(a["x"])
        if a.get("k") == "Mem":
            return simple(a["b"])
        if a.get("k") == "Call" and a.get("op") in ("*", "->", "[]") and a.get("obj") is not None:
            return simple(a["obj"]) and all(simple(x) for x in a.get("a", []))
        if a.get("k") == "Idx":
            return simple(a["a"]) and simple(a["i"])
        if a.get("k") == "Ctor" and len(a.get("a", [])) == 1:
            return simple(a["a"][0])
        return False

    def subst(e, m, idmap):
        if isinstance(e, dict):
            if e.get("k") == "Ref" and e.get("id") in m:
                return copy.deepcopy(m[e["id"]])
            out = {k: subst(v, m, idmap) for k, v in e.items()}
            if out.get("id") in idmap and out.get("k") in ("Ref",):
                out["id"] = idmap[out["id"]]
            if "d" in out and out.get("k") == "Decl":
                for d in out["d"]:
                    if d.get("id") in idmap:
                        d["id"] = idmap[d["id"]]
            return out
        if isinstance(e, list):
            return [subst(v, m, idmap) for v in e]
        return e

    def the_call(e):
        e0 = strip_casts(e) if e is not None else None
        while e0 is not None and e0.get("k") == "Ctor" and len(e0.get("a", [])) == 1:
            e0 = strip_casts(e0["a"][0])
        if e0 is not None and e0.get("k") == "Call" and not e0.get("op") and e0.get("fn") in helpers and \
                (e0.get("obj") is None or (strip_casts(e0["obj"]) or {}).get("k") == "This"):
            callee = helpers[e0["fn"]]
            if len(callee["params"]) == len(e0["a"]) and callee.get("body") is not None and callee["body"].get("k") == "Block":
                return e0, callee
        return None, None

    def expand(call, callee, tail=False):
        """(statements, return expression or None) or None when the helper has an early return"""
        body = callee["body"]["s"]
        rets = [x for x in walk_stmt(callee["body"]) if x.get("k") == "Return"]
        if tail:
            tail_ret = None
        else:
            tail_ret = body[-1] if body and body[-1].get("k") == "Return" else None
            if len(rets) > (1 if tail_ret is not None else 0):
                return None
        pre = []
        m = {}
        for p, a in zip(callee["params"], call["a"]):
            if "id" not in p:
                continue
            if simple(a):
                m[p["id"]] = a
            else:
                nid = _fresh_id()
                pre.append({"k": "Decl", "l": call.get("l"), "d": [{"id": nid, "n": p["n"], "t": "const " + (p.get("t") or "").replace("const ", ""),
                                                                   "init": a, "l": call.get("l")}]})
                m[p["id"]] = {"k": "Ref", "n": p["n"], "id": nid, "t": p.get("t"), "dk": "Var", "l": call.get("l")}
        idmap = {}
        for st in walk_stmt(callee["body"]):
            if st.get("k") == "Decl":
                for d in st["d"]:
                    idmap[d["id"]] = _fresh_id()
            if st.get("k") == "For" and st.get("init") is not None and st["init"].get("k") == "Decl":
                for d in st["init"]["d"]:
                    idmap[d["id"]] = _fresh_id()
        stmts = [subst(x, m, idmap) for x in (body[:-1] if tail_ret is not None else body)]
        stmts = [inline_helpers(x, helpers, depth + 1) for x in stmts]
        ret = subst(tail_ret["x"], m, idmap) if tail_ret is not None and tail_ret.get("x") is not None else None
        return pre + stmts, ret

    def rec(s):
        if not isinstance(s, dict):
            return s
        k = s.get("k")
        if depth < 3:
            if k == "Decl" and len(s["d"]) == 1 and s["d"][0].get("init") is not None:
                call, callee = the_call(s["d"][0]["init"])
                if call is not None:
                    ex = expand(call, callee)
                    if ex is not None and ex[1] is not None:
                        d2 = dict(s["d"][0])
                        d2["init"] = ex[1]
                        return {"k": "Block", "l": s.get("l"), "inlined": callee["full"], "s": ex[0] + [dict(s, d=[d2])]}
            if k == "Bin" and s.get("op") == "=":
                call, callee = the_call(s["b"])
                if call is not None:
                    ex = expand(call, callee)
                    if ex is not None and ex[1] is not None:
                        return {"k": "Block", "l": s.get("l"), "inlined": callee["full"], "s": ex[0] + [dict(s, b=ex[1])]}
            if k == "Call":
                call, callee = the_call(s)
                if call is not None:
                    ex = expand(call, callee)
                    if ex is not None:
                        return {"k": "Block", "l": s.get("l"), "inlined": callee["full"], "s": ex[0]}
            if k == "Return" and s.get("x") is not None:
                # `return h(args);`: a tail call - the helper's own return statements become those of the caller
                call, callee = the_call(s["x"])
                if call is not None:
                    ex = expand(call, callee, tail=True)
                    if ex is not None:
                        return {"k": "Block", "l": s.get("l"), "inlined": callee["full"], "s": ex[0]}
        if k == "Block":
            out = dict(s)
            out["s"] = [rec(x) for x in s.get("s", [])]
            return out
        out = dict(s)
        for key in ("th", "el", "body", "sub"):
            if isinstance(s.get(key), dict):
                out[key] = rec(s[key])
        return out
    return rec(stmt)


def with_inlined_helpers(fn, candidates):
    """fn with the helper methods of its own class (loop-free or not) inlined into its body; `candidates` are the function
    declarations to choose the helpers from."""
    helpers = {}
    for h in candidates:
        if h["kind"] == "function" and h.get("body") is not None and h.get("cls") == fn.get("cls") and h is not fn and \
                not h.get("ctor") and not h.get("dtor") and h["full"].split("(")[0] != fn["full"].split("(")[0]:
            helpers.setdefault(h["full"].split("(")[0], h)
    if not helpers:
        return fn
    body = inline_helpers(fn["body"], helpers)
    out = dict(fn)
    out["body"] = body
    return out


def value_expr_of(callee):
    """The value a loop-free helper returns, as one expression over its parameters: `if (c) return a; ... return b;` becomes
    c ? a : (... b); const locals are replaced by their initialisers.  None if the body has another shape."""
    import copy
    if callee.get("body") is None or callee["body"].get("k") != "Block":
        return None
    consts = {}

    def unblock(s):
        while s is not None and s.get("k") == "Block" and not s.get("mac") and len(s.get("s", [])) == 1:
            s = s["s"][0]
        return s

    def build(stmts):
        if not stmts:
            return None
        st = stmts[0]
        k = st.get("k")
        if k == "Null" or (k == "Block" and st.get("mac") and st.get("mac") not in ABORT_MACROS):
            return build(stmts[1:])
        if k == "Decl":
            for d in st["d"]:
                if d.get("init") is None:
                    return None
                consts[d["id"]] = d["init"]
            return build(stmts[1:])
        if k == "Return":
            return st.get("x")
        if k == "Block" and not st.get("mac"):
            return build(list(st["s"]) + stmts[1:])
        if k == "If":
            th = unblock(st["th"])
            a = build([th]) if th is not None else None
            if a is None:
                return None
            rest = ([st["el"]] if st.get("el") is not None else []) + stmts[1:]
            b = build(rest)
            if b is None:
                return None
            return {"k": "Cond", "c": st["c"], "a": a, "b": b, "t": callee.get("ret") or "double", "l": st.get("l")}
        return None
    e = build(list(callee["body"]["s"]))
    if e is None:
        return None

    def subst(x, depth=0):
        if isinstance(x, dict):
            if x.get("k") == "Ref" and x.get("id") in consts and depth < 8:
                return subst(copy.deepcopy(consts[x["id"]]), depth + 1)
            return {k: subst(v, depth) for k, v in x.items()}
        if isinstance(x, list):
            return [subst(v, depth) for v in x]
        return x
    return subst(e)


def inline_value_calls(tree, helpers, depth=0):
    """Copy of an AST (statement or expression) in which calls to loop-free value helpers (qualified name -> declaration)
    are replaced by the helper's value expression with the parameters substituted by the arguments."""
    import copy

    def rec(x):
        if isinstance(x, dict):
            if x.get("k") == "Call" and not x.get("op") and x.get("fn") in helpers and depth < 3:
                callee = helpers[x["fn"]]
                if len(callee["params"]) == len(x.get("a", [])):
                    ve = value_expr_of(callee)
                    if ve is not None:
                        m = {p["id"]: rec(a) for p, a in zip(callee["params"], x["a"]) if "id" in p}

                        def sub(y):
                            if isinstance(y, dict):
                                if y.get("k") == "Ref" and y.get("id") in m:
                                    return copy.deepcopy(m[y["id"]])
                                return {k: sub(v) for k, v in y.items()}
                            if isinstance(y, list):
                                return [sub(v) for v in y]
                            return y
                        return inline_value_calls(sub(ve), helpers, depth + 1)
            return {k: rec(v) for k, v in x.items()}
        if isinstance(x, list):
            return [rec(v) for v in x]
        return x
    return rec(tree)
