"""Shared extraction and algebra for the Riemann-solver rules (C05, C11)."""
import sympy as sp

from . import cfg as C
from .astdb import AnalysisBroken, where
from .sym import Converter, Env, S, is_zero
from .symexec import SymExec, class_constants, Leaf

EX = "ExactRiemannSolver"
HL = "HLLCRiemannSolver"

gamma = S("gamma", positive=True)


def sym_for(name):
    """Assumptions by role of the parameter: densities, pressures, sound speeds positive."""
    if name.startswith(("rho", "P", "a")) and not name.startswith("Psol"):
        return S(name, positive=True)
    return S(name, real=True)


class Solver:
    def __init__(self, unit, cls):
        self.unit = unit
        self.cls = cls
        self.consts, self.ctor = class_constants(unit, cls, gamma_symbol=gamma)
        self.conv = Converter(positive_atoms=False)
        self.eps = S("DBL_MIN", positive=True)

        def atoms(key, e):
            if e.get("k") == "Float" and e.get("mac") == "DBL_MIN":
                return self.eps
            return None
        self.conv.atoms = atoms
        self.se = None

    def executor(self, inline=()):
        conv = Converter()
        eps = self.eps

        old_conv = conv.conv

        def conv_with_eps(e, env):
            ee = C.strip_casts(e)
            if ee.get("k") == "Float" and ee.get("mac") == "DBL_MIN":
                return eps
            return old_conv(e, env)
        conv.conv = conv_with_eps
        conv.sym = sym_for
        se = SymExec(self.unit, conv, inline={self.cls + "::" + n for n in inline},
                     cls_consts=self.consts)
        se.vec_symbols = lambda name: sp.Matrix([S("%s_%d" % (name, i), real=True) for i in range(3)])
        return se

    def func(self, name):
        return self.unit.func(self.cls + "::" + name)

    def leaves(self, name, inline=(), args=None):
        fn = self.func(name)
        se = self.executor(inline)
        ls = se.run(fn, args=args)
        outs = {}
        for p in fn["params"]:
            outs[p["n"]] = ("l", p["id"])
        return fn, ls, outs


# ----------------------------------------------------------------------------------
# sign predicates

def sign_pred(c, pol):
    """Normalise a branch condition to (expr, sign) meaning `expr > 0` (sign +1) or
    `expr < 0 or on the boundary` (sign -1); boundaries are measure zero and not owned.
    Non-order conditions are returned as ('bool', cond, polarity)."""
    if isinstance(c, (sp.StrictGreaterThan, sp.GreaterThan)):
        e = c.lhs - c.rhs
        return (sp.expand(e), 1 if pol else -1)
    if isinstance(c, (sp.StrictLessThan, sp.LessThan)):
        e = c.rhs - c.lhs
        return (sp.expand(e), 1 if pol else -1)
    return ("bool", c, pol)


def same_pred(p, q):
    if p[0] == "bool" or q[0] == "bool":
        return p[0] == q[0] and p[2] == q[2] and (p[1] == q[1] or sp.simplify(sp.Equivalent(p[1], q[1])) is sp.true)
    (e1, s1), (e2, s2) = p, q
    if s1 == s2 and is_zero(e1 - e2, tries=False)[0]:
        return True
    if s1 == -s2 and is_zero(e1 + e2, tries=False)[0]:
        return True
    return False


def pred_set(leaf, subs=None):
    out = []
    for c, pol, _ in leaf.conds:
        if subs:
            c = c.xreplace(subs) if hasattr(c, "xreplace") else c
        if c is sp.true or c is sp.false:
            continue
        out.append(sign_pred(c, pol))
    return out


def same_pred_set(ps, qs):
    if len(ps) != len(qs):
        return False
    used = set()
    for p in ps:
        hit = None
        for i, q in enumerate(qs):
            if i not in used and same_pred(p, q):
                hit = i
                break
        if hit is None:
            return False
        used.add(hit)
    return True


def show_conds(leaf):
    return " & ".join(("%s" if pol else "not(%s)") % c for c, pol, _ in leaf.conds) or "always"


# ----------------------------------------------------------------------------------
# mirror map

VELOCITY_PREFIX = ("u", "v", "dxdt", "ustar", "S")


def mirror_name(n):
    """uL -> uR, PLinv -> PRinv, uL_0 -> uR_0, uLface_1 -> uRface_1 ..."""
    comp = ""
    core = n
    if "_" in n and n.rsplit("_", 1)[1].isdigit():
        core, comp = n.rsplit("_", 1)
        comp = "_" + comp
    for suf in ("inv", "face", ""):
        if core.endswith("L" + suf) and len(core) > len(suf) + 1:
            return core[:-len(suf) - 1] + "R" + suf + comp if suf else core[:-1] + "R" + comp
        if core.endswith("R" + suf) and len(core) > len(suf) + 1:
            return core[:-len(suf) - 1] + "L" + suf + comp if suf else core[:-1] + "L" + comp
    return n


def is_scalar_velocity(n):
    """Scalar (1D, along the normal) velocity-like parameters change sign under mirroring."""
    if "_" in n and n.rsplit("_", 1)[1].isdigit():
        return False
    return n.startswith(("u", "v")) and not n.startswith("vface") or n in ("dxdt", "ustar")


def mirror_symbol(s, scalar_velocities=True):
    n = mirror_name(s.name)
    t = S(n, **{k: v for k, v in s.assumptions0.items() if k in ("positive", "real") and v})
    if scalar_velocities and is_scalar_velocity(s.name):
        return -t
    return t


def mirror_expr(e, extra=None):
    if e is None or isinstance(e, str):
        return e
    syms = e.free_symbols if hasattr(e, "free_symbols") else set()
    m = {s: mirror_symbol(s) for s in syms}
    if extra:
        m.update(extra)
    return e.xreplace(m)


# ----------------------------------------------------------------------------------
# positional roles of sampler parameters (robust to parameter renames)

OUT = object()
SIGS = {
    # function -> (list of canonical input names, has ustar/Pstar)
    "sample_right_state": ["rhoR", "uR", "PR", "aR", "PRinv", "ustar", "Pstar", OUT, OUT, OUT, "dxdt"],
    "sample_left_state": ["rhoL", "uL", "PL", "aL", "PLinv", "ustar", "Pstar", OUT, OUT, OUT, "dxdt"],
    "sample_right_shock_wave": ["rhoR", "uR", "PR", "aR", "PRinv", "ustar", "Pstar", OUT, OUT, OUT, "dxdt"],
    "sample_left_shock_wave": ["rhoL", "uL", "PL", "aL", "PLinv", "ustar", "Pstar", OUT, OUT, OUT, "dxdt"],
    "sample_right_rarefaction_wave": ["rhoR", "uR", "PR", "aR", "PRinv", "ustar", "Pstar", OUT, OUT, OUT, "dxdt"],
    "sample_left_rarefaction_wave": ["rhoL", "uL", "PL", "aL", "PLinv", "ustar", "Pstar", OUT, OUT, OUT, "dxdt"],
    # vacuum to the right: the gas is the LEFT state; vacuum to the left: the gas is the RIGHT state
    "sample_right_vacuum": ["rhoL", "uL", "PL", "aL", OUT, OUT, OUT, "dxdt"],
    "sample_left_vacuum": ["rhoR", "uR", "PR", "aR", OUT, OUT, OUT, "dxdt"],
    "sample_vacuum_generation": ["rhoL", "uL", "PL", "aL", "rhoR", "uR", "PR", "aR", OUT, OUT, OUT, "dxdt"],
}


def bind_sampler(fn, name, has_dxdt=True):
    """(args for SymExec.run, out keys in order rho,u,P) from positional roles."""
    sig = list(SIGS[name])
    if not has_dxdt:
        sig = sig[:-1]
    ps = fn["params"]
    if len(ps) != len(sig):
        raise AnalysisBroken("%s: signature changed (%d parameters, expected %d)" %
                             (fn["full"], len(ps), len(sig)))
    args = {}
    outs = []
    for p, role in zip(ps, sig):
        isref = p["t"].rstrip().endswith("&") and not p["t"].startswith("const")
        if role is OUT:
            if not isref:
                raise AnalysisBroken("%s: parameter %s is expected to be an output reference" %
                                     (fn["full"], p["n"]))
            outs.append(("l", p["id"]))
        else:
            if isref:
                raise AnalysisBroken("%s: parameter %s is expected to be an input" % (fn["full"], p["n"]))
            args[p["n"]] = sym_for(role)
    return args, outs


def sampler_leaves(solver, name, inline=(), has_dxdt=True):
    fn = solver.func(name)
    args, outs = bind_sampler(fn, name, has_dxdt)
    se = solver.executor(inline)
    leaves = se.run(fn, args=args)
    res = []
    for l in leaves:
        if l.aborted:
            continue
        o = {"rho": l.env.vals.get(outs[0]), "u": l.env.vals.get(outs[1]), "P": l.env.vals.get(outs[2]),
             "ret": None if l.ret in (None, "void") else l.ret}
        if any(o[k] is None for k in ("rho", "u", "P")):
            raise AnalysisBroken("%s: a path returns without setting all three outputs (%s)" %
                                 (fn["full"], show_conds(l)))
        res.append((l, o))
    return fn, res


def state_syms(K):
    return tuple(sym_for(n + K) for n in ("rho", "u", "P", "a"))


def iz(e):
    return is_zero(e, gt1=gamma)


def _pow_dummies(*exprs):
    m = {}
    for e in exprs:
        for pw in e.atoms(sp.Pow):
            b, ex = pw.as_base_exp()
            if not ex.is_number and not b.is_Symbol and b not in m:
                m[b] = sp.Dummy("B", positive=True)
    return m


def fan_relations(o, K, dxdt):
    """Residuals of the three defining relations of a centred rarefaction fan of side K:
    isentropy, characteristic u +- a = x/t, Riemann invariant. (name, holds, residual)."""
    rhoK, uK, PK, aK = state_syms(K)
    s = 1 if K == "R" else -1
    g = gamma
    rho, u, P = o["rho"], o["u"], o["P"]
    m = _pow_dummies(rho, P)
    inv = {v: k for k, v in m.items()}
    rho_d, P_d = rho.xreplace(m), P.xreplace(m)
    out = []
    ise = (P_d / rho_d ** g) / (PK / rhoK ** g) - 1
    ise = sp.powsimp(sp.powdenest(sp.expand_power_base(ise, force=True), force=True), force=True)
    z, r = iz(ise)
    out.append(("isentropy P/rho^gamma", z, r.xreplace(inv) if hasattr(r, "xreplace") else r))
    a_loc = sp.sqrt(g * P_d / rho_d).xreplace({PK: aK ** 2 * rhoK / g})
    a_loc = sp.powdenest(sp.simplify(sp.powsimp(sp.powdenest(sp.expand_power_base(a_loc, force=True),
                                                             force=True), force=True)), force=True)
    a_loc = a_loc.xreplace(inv)
    z, r = iz(u + s * a_loc - dxdt)
    out.append(("characteristic u%sa = x/t" % ("+" if s > 0 else "-"), z, r))
    z, r = iz((u - s * 2 * a_loc / (g - 1)) - (uK - s * 2 * aK / (g - 1)))
    out.append(("Riemann invariant u%s2a/(gamma-1)" % ("-" if s > 0 else "+"), z, r))
    return out


def fb_premise(K, regime):
    """u* - uK in terms of P* for a wave of side K (the pressure function of Toro section 4.2):
    the relation the solver's own f enforces; extracted separately (N1/N7) from the code."""
    rhoK, uK, PK, aK = state_syms(K)
    Ps = sym_for("Pstar")
    g = gamma
    if regime == "shock":
        A = 2 / ((g + 1) * rhoK)
        B = (g - 1) / (g + 1) * PK
        return (Ps - PK) * sp.sqrt(A / (Ps + B))
    return 2 * aK / (g - 1) * ((Ps / PK) ** ((g - 1) / (2 * g)) - 1)


def dxdt_bounds(leaf, dxdt):
    """Half-lines in x/t implied by the leaf's branch predicates: list of (bound, 'lt'|'gt').
    Compound (&&) conditions are resolved by unit propagation."""
    units = []
    clauses = []

    def lits(c, pol):
        if isinstance(c, sp.And):
            if pol:
                for a in c.args:
                    lits(a, True)
            else:
                clauses.append([(a, False) for a in c.args])
        elif isinstance(c, sp.Or):
            if not pol:
                for a in c.args:
                    lits(a, False)
            else:
                clauses.append([(a, True) for a in c.args])
        elif isinstance(c, sp.Not):
            lits(c.args[0], not pol)
        else:
            units.append((c, pol))
    for c, pol, _ in leaf.conds:
        lits(c, pol)
    changed = True
    while changed:
        changed = False
        for cl in list(clauses):
            rest = [(a, p) for a, p in cl if not any(a == ua and p != up for ua, up in units)]
            if any(any(a == ua and p == up for ua, up in units) for a, p in cl):
                clauses.remove(cl)
                continue
            if len(rest) == 1:
                units.append(rest[0])
                clauses.remove(cl)
                changed = True
    out = []
    for c, pol in units:
        sp_ = sign_pred(c, pol)
        if sp_[0] == "bool":
            continue
        e, sgn = sp_
        if dxdt not in e.free_symbols:
            continue
        co = sp.expand(e).coeff(dxdt, 1)
        rest = sp.expand(e) - co * dxdt
        if co == 0 or dxdt in rest.free_symbols:
            raise AnalysisBroken("regime predicate %s is not linear in x/t" % c)
        b = sp.simplify(-rest / co)
        positive = (co.is_positive is True) == (sgn > 0)
        if co.is_positive is None and co.is_negative is None:
            raise AnalysisBroken("sign of x/t coefficient unknown in %s" % c)
        out.append((b, "gt" if positive else "lt"))
    return out


def eq3(o, vals):
    return all(iz(o[k] - v)[0] for k, v in zip(("rho", "u", "P"), vals))


def check_wave_leaves(chk, solver, name, inline=(), has_dxdt=True, rules=None):
    """Every leaf of a sampler is a constant state, vacuum, a star state (behind a shock:
    Rankine-Hugoniot; behind a fan: isentropic) or a point of a centred rarefaction fan
    (isentropy, characteristic, Riemann invariant); regimes are delimited by the wave speeds
    and adjacent regimes agree on their common boundary (except across the shock)."""
    R = {"shock": "N3", "fan": "N4", "star": "N5", "boundary": "N6", "flag": "N6"}
    R.update(rules or {})
    fn, res = sampler_leaves(solver, name, inline, has_dxdt)
    chk.analysed(function=fn["full"])
    dxdt = sym_for("dxdt") if has_dxdt else sp.Integer(0)
    ustar, Pstar = sym_for("ustar"), sym_for("Pstar")
    sides = [K for K in ("L", "R") if any(v.name == "rho" + K for a in [bind_sampler(fn, name, has_dxdt)[0]]
                                          for v in a.values())]
    has_star = any(v.name == "ustar" for v in bind_sampler(fn, name, has_dxdt)[0].values())
    n = 0
    kinds = []
    for leaf, o in res:
        inst0 = "%s [%s]" % (fn["full"], show_conds(leaf)[:160])
        loc = where(leaf.conds[-1][2], fn) if leaf.conds else where(fn)
        kind = None
        side = None
        for K in sides:
            rhoK, uK, PK, aK = state_syms(K)
            if eq3(o, (rhoK, uK, PK)):
                kind, side = "const", K
        if kind is None and eq3(o, (0, 0, 0)):
            kind = "vacuum"
        if kind is None and has_star and iz(o["u"] - ustar)[0] and iz(o["P"] - Pstar)[0]:
            kind, side = "star", sides[0]
        if kind is None:
            best = None
            for K in sides:
                rel = fan_relations(o, K, dxdt)
                okc = sum(1 for _, z, _ in rel if z)
                if best is None or okc > best[0]:
                    best = (okc, K, rel)
            kind, side = "fan", best[1]
            for rname, z, r in best[2]:
                n += 1
                chk.require(z, R["fan"], "%s: %s of side %s" % (inst0, rname, side), loc,
                            "sampled state is neither a constant state, vacuum nor the star state, and as a "
                            "point of the %s rarefaction fan it violates the %s (residual %s)" %
                            ("right" if side == "R" else "left", rname, r),
                            function=fn["full"], construct="fan leaf %s: %s" % (side, rname.split()[0]))
        kinds.append((leaf, o, kind, side))
        # star states
        if kind == "star":
            rhoK, uK, PK, aK = state_syms(side)
            s = 1 if side == "R" else -1
            PKinv = sym_for("P%sinv" % side)
            shock = any(p[0] != "bool" and p[1] > 0 and iz(p[0] - (Pstar - PK))[0] for p in pred_set(leaf))
            if shock:
                bnds = dxdt_bounds(leaf, dxdt) if has_dxdt else []
                if len(bnds) != 1:
                    raise AnalysisBroken("%s: shock leaf without a single shock-speed predicate" % fn["full"])
                Sx = bnds[0][0]
                prem = {ustar: uK + s * fb_premise(side, "shock"), PKinv: 1 / PK,
                        aK: sp.sqrt(gamma * PK / rhoK)}
                rho = o["rho"]
                mass = (rhoK * (uK - Sx) - rho * (ustar - Sx)).xreplace(prem)
                mom = (rhoK * (uK - Sx) ** 2 + PK - rho * (ustar - Sx) ** 2 - Pstar).xreplace(prem)
                for nm, e in (("mass", mass), ("momentum", mom)):
                    z, r = iz(e)
                    n += 1
                    chk.require(z, R["shock"], "%s: Rankine-Hugoniot %s" % (inst0, nm), loc,
                                "post-shock state and coded shock speed %s violate the %s jump condition "
                                "(residual %s)" % (Sx, nm, r), function=fn["full"],
                                construct="shock leaf %s: %s" % (side, nm))
                n += 1
                want = "lt" if side == "R" else "gt"
                chk.require(bnds[0][1] == want, R["boundary"], "%s: star state lies behind the shock" % inst0, loc,
                            "post-shock state is returned on the wrong side of the shock",
                            function=fn["full"], construct="shock leaf %s: side" % side)
            else:
                z, r = iz((o["rho"] - rhoK * (Pstar / PK) ** (1 / gamma)).xreplace({PKinv: 1 / PK}))
                n += 1
                chk.require(z, R["star"], "%s: star state behind the fan is isentropic" % inst0, loc,
                            "density behind the rarefaction is not rhoK (P*/PK)^(1/gamma) (residual %s)" % r,
                            function=fn["full"], construct="star leaf %s: isentropy" % side)
        # side flag
        if o["ret"] is not None:
            n += 1
            want = 0 if kind == "vacuum" else (1 if side == "R" else -1)
            chk.require(iz(o["ret"] - want)[0], R["flag"], "%s: side flag" % inst0, loc,
                        "returns side flag %s for a %s%s leaf (expected %d)" %
                        (o["ret"], kind, " " + side if side else "", want),
                        function=fn["full"], construct="side flag of %s %s leaf" % (kind, side))
    # regime geometry and boundary continuity
    if has_dxdt:
        for leaf, o, kind, side in kinds:
            inst0 = "%s [%s]" % (fn["full"], show_conds(leaf)[:160])
            loc = where(leaf.conds[-1][2], fn) if leaf.conds else where(fn)
            if kind != "fan":
                continue
            rhoK, uK, PK, aK = state_syms(side)
            s = 1 if side == "R" else -1
            PKinv = sym_for("P%sinv" % side)
            head = uK + s * aK
            if has_star:
                tail = ustar + s * aK * (Pstar / PK) ** ((gamma - 1) / (2 * gamma))
            else:
                tail = uK - s * 2 * aK / (gamma - 1)
            bnds = dxdt_bounds(leaf, dxdt)
            got = []
            for b, d in bnds:
                b = b.xreplace({PKinv: 1 / PK})
                if iz(b - head)[0]:
                    got.append(("head", d))
                elif iz(b - tail)[0]:
                    got.append(("tail", d))
                else:
                    # vacuum generation: the front of the *other* rarefaction is used to pick the side;
                    # under the function's precondition (fronts separated) it is implied by the tail bound
                    oK = "L" if side == "R" else "R"
                    if oK in sides and not has_star:
                        orho, ou, oP, oa = state_syms(oK)
                        ofront = ou + s * 2 * oa / (gamma - 1)
                        if iz(b - ofront)[0] and d == ("gt" if s > 0 else "lt"):
                            continue
                    got.append(("other %s" % b, d))
            want = {("head", "lt" if s > 0 else "gt"), ("tail", "gt" if s > 0 else "lt")}
            n += 1
            chk.require(set(got) == want, R["boundary"], "%s: fan lies between tail and head" % inst0, loc,
                        "the fan formula is used in the region %s, expected between the tail (%s) and the "
                        "head (%s) of the %s rarefaction" % (got, tail, head, "right" if s > 0 else "left"),
                        function=fn["full"], construct="fan region %s" % side)
            # continuity at the head
            z = eq3({k: v.subs(dxdt, head) for k, v in o.items() if k != "ret"}, (rhoK, uK, PK))
            n += 1
            chk.require(z, R["boundary"], "%s: fan joins the %s state at the head" % (inst0, side), loc,
                        "at x/t = head the fan does not reduce to the undisturbed state",
                        function=fn["full"], construct="fan head continuity %s" % side)
            # continuity at the tail
            if has_star:
                prem = {ustar: uK + s * fb_premise(side, "fan"), PKinv: 1 / PK}
                t2 = tail.xreplace(prem)
                stars = [oo for _, oo, kk, ss in kinds if kk == "star" and
                         not any(p[0] != "bool" and p[1] > 0 and iz(p[0] - (Pstar - PK))[0] for p in pred_set(_))]
                okk = bool(stars)
                for so in stars:
                    for k in ("rho", "u", "P"):
                        e = (o[k].xreplace(prem).subs(dxdt, t2) - so[k].xreplace(prem))
                        e = e.xreplace({PK: aK ** 2 * rhoK / gamma}) if k == "u" else e
                        okk = okk and iz(e)[0]
                n += 1
                chk.require(okk, R["boundary"], "%s: fan joins the star state at the tail" % inst0, loc,
                            "at x/t = tail the fan does not reduce to the star state",
                            function=fn["full"], construct="fan tail continuity %s" % side)
            else:
                e_rho = sp.simplify(o["rho"].xreplace({gamma: 1 + sp.Symbol("delta", positive=True)})
                                    .subs(dxdt, tail.xreplace({gamma: 1 + sp.Symbol("delta", positive=True)})))
                e_P = sp.simplify(o["P"].xreplace({gamma: 1 + sp.Symbol("delta", positive=True)})
                                  .subs(dxdt, tail.xreplace({gamma: 1 + sp.Symbol("delta", positive=True)})))
                n += 1
                chk.require(e_rho == 0 and e_P == 0, R["boundary"],
                            "%s: fan joins the vacuum at the tail" % inst0, loc,
                            "density/pressure at the vacuum front are %s / %s, expected 0" % (e_rho, e_P),
                            function=fn["full"], construct="fan vacuum continuity %s" % side)
        for leaf, o, kind, side in kinds:
            if kind not in ("const", "vacuum"):
                continue
            inst0 = "%s [%s]" % (fn["full"], show_conds(leaf)[:160])
            loc = where(leaf.conds[-1][2], fn) if leaf.conds else where(fn)
            bnds = dxdt_bounds(leaf, dxdt)
            if kind == "const":
                s = 1 if side == "R" else -1
                want = "gt" if s > 0 else "lt"
                okk = bool(bnds) and all(d == want for b, d in bnds if True) if len(bnds) == 1 else \
                    any(d == want for b, d in bnds)
                n += 1
                chk.require(okk, R["boundary"], "%s: undisturbed state lies ahead of the wave" % inst0, loc,
                            "undisturbed %s state is returned for x/t %s (expected beyond the wave front)"
                            % (side, bnds), function=fn["full"], construct="const region %s" % side)
    return n, kinds
