"""Shared extraction and algebra for the Riemann-solver rules (C05, C11)."""
import sympy as sp

from . import cfg as C
from .astdb import AnalysisBroken, where
from .sym import Converter, Env, S, is_zero
from .symexec import SymExec, class_constants, Leaf

EX = "ExactRiemannSolver"
HL = "HLLCRiemannSolver"

gamma = S("gamma", positive=True)


def sym_for(name):
    """Assumptions by role of the parameter: densities, pressures, sound speeds positive."""
    if name.startswith(("rho", "P", "a")) and not name.startswith("Psol"):
        return S(name, positive=True)
    return S(name, real=True)


class Solver:
    def __init__(self, unit, cls):
        self.unit = unit
        self.cls = cls
        self.consts, self.ctor = class_constants(unit, cls, gamma_symbol=gamma)
        self.conv = Converter(positive_atoms=False)
        self.eps = S("DBL_MIN", positive=True)

        def atoms(key, e):
            if e.get("k") == "Float" and e.get("mac") == "DBL_MIN":
                return self.eps
            return None
        self.conv.atoms = atoms
        self.se = None

    def executor(self, inline=(), opaque=None):
        conv = Converter()
        eps = self.eps

        old_conv = conv.conv

        def conv_with_eps(e, env):
            ee = C.strip_casts(e)
            if ee.get("k") == "Float" and ee.get("mac") == "DBL_MIN":
                return eps
            return old_conv(e, env)
        conv.conv = conv_with_eps
        conv.sym = sym_for
        # besides the requested ones, every loop-free helper of the class that calls nothing of the class itself (a leaf
        # helper such as gb, or one extracted by a refactoring) is inlined, so that extracting / inlining small helpers
        # does not change what is analysed
        auto = set()
        opq = set((opaque or {}).keys())
        for m in self.unit.methods_of(self.cls):
            if not m.get("body") or m.get("ctor") or m.get("dtor") or m["name"] in opq or m["name"] in inline:
                continue
            loops = any(x.get("k") in ("For", "While", "Do", "ForRange") for x in C.walk_stmt(m["body"]))
            calls_own = False
            for st in C.walk_stmt(m["body"]):
                exprs = [d["init"] for d in st["d"] if d.get("init") is not None] if st.get("k") == "Decl" else \
                    ([st] if st.get("k") not in ("Block", "If", "For", "While", "Do", "ForRange", "Switch") else [])
                if st.get("k") == "Return" and st.get("x") is not None:
                    exprs = [st["x"]]
                if st.get("k") == "If":
                    exprs = [st["c"]]
                for ex in exprs:
                    for x in C.walk(ex):
                        if x.get("k") == "Call" and (x.get("fn") or "").startswith(self.cls + "::"):
                            calls_own = True
            if not loops and not calls_own:
                auto.add(m["name"])
        self.auto_inlined = sorted(auto)
        se = SymExec(self.unit, conv, inline={self.cls + "::" + n for n in tuple(inline) + tuple(auto)},
                     cls_consts=self.consts, facts=[(sp.Gt(gamma, 1), True)],
                     opaque={self.cls + "::" + k: v for k, v in (opaque or {}).items()})
        return se

    def func(self, name):
        return self.unit.func(self.cls + "::" + name)

    def leaves(self, name, inline=(), args=None):
        fn = self.func(name)
        se = self.executor(inline)
        ls = se.run(fn, args=args)
        outs = {}
        for p in fn["params"]:
            outs[p["n"]] = ("l", p["id"])
        return fn, ls, outs


# ----------------------------------------------------------------------------------
# sign predicates

def sign_pred(c, pol):
    """Normalise a branch condition to (expr, sign) meaning `expr > 0` (sign +1) or
    `expr < 0 or on the boundary` (sign -1); boundaries are measure zero and not owned.
    Non-order conditions are returned as ('bool', cond, polarity)."""
    if isinstance(c, (sp.StrictGreaterThan, sp.GreaterThan)):
        e = c.lhs - c.rhs
        return (sp.expand(e), 1 if pol else -1)
    if isinstance(c, (sp.StrictLessThan, sp.LessThan)):
        e = c.rhs - c.lhs
        return (sp.expand(e), 1 if pol else -1)
    return ("bool", c, pol)


def same_pred(p, q):
    if p[0] == "bool" or q[0] == "bool":
        return p[0] == q[0] and p[2] == q[2] and (p[1] == q[1] or sp.simplify(sp.Equivalent(p[1], q[1])) is sp.true)
    (e1, s1), (e2, s2) = p, q
    if s1 == s2 and is_zero(e1 - e2, tries=False)[0]:
        return True
    if s1 == -s2 and is_zero(e1 + e2, tries=False)[0]:
        return True
    return False


def pred_set(leaf, subs=None):
    out = []
    for c, pol, _ in leaf.conds:
        if subs:
            c = c.xreplace(subs) if hasattr(c, "xreplace") else c
        if c is sp.true or c is sp.false:
            continue
        out.append(sign_pred(c, pol))
    return out


def same_pred_set(ps, qs):
    if len(ps) != len(qs):
        return False
    used = set()
    for p in ps:
        hit = None
        for i, q in enumerate(qs):
            if i not in used and same_pred(p, q):
                hit = i
                break
        if hit is None:
            return False
        used.add(hit)
    return True


def show_conds(leaf):
    return " & ".join(("%s" if pol else "not(%s)") % c for c, pol, _ in leaf.conds) or "always"


# ----------------------------------------------------------------------------------
# mirror map

VELOCITY_PREFIX = ("u", "v", "dxdt", "ustar", "S")


def mirror_name(n):
    """uL -> uR, PLinv -> PRinv, uL_0 -> uR_0, uLface_1 -> uRface_1 ..."""
    comp = ""
    core = n
    if "_" in n and n.rsplit("_", 1)[1].isdigit():
        core, comp = n.rsplit("_", 1)
        comp = "_" + comp
    for suf in ("inv", "face", ""):
        if core.endswith("L" + suf) and len(core) > len(suf) + 1:
            return core[:-len(suf) - 1] + "R" + suf + comp if suf else core[:-1] + "R" + comp
        if core.endswith("R" + suf) and len(core) > len(suf) + 1:
            return core[:-len(suf) - 1] + "L" + suf + comp if suf else core[:-1] + "L" + comp
    return n


def is_scalar_velocity(n):
    """Scalar (1D, along the normal) velocity-like parameters change sign under mirroring."""
    if "_" in n and n.rsplit("_", 1)[1].isdigit():
        return False
    return n.startswith(("u", "v")) and not n.startswith("vface") or n in ("dxdt", "ustar")


def mirror_symbol(s, scalar_velocities=True):
    n = mirror_name(s.name)
    t = S(n, **{k: v for k, v in s.assumptions0.items() if k in ("positive", "real") and v})
    if scalar_velocities and is_scalar_velocity(s.name):
        return -t
    return t


def mirror_expr(e, extra=None):
    if e is None or isinstance(e, str):
        return e
    syms = e.free_symbols if hasattr(e, "free_symbols") else set()
    m = {s: mirror_symbol(s) for s in syms}
    if extra:
        m.update(extra)
    return e.xreplace(m)


# ----------------------------------------------------------------------------------
# positional roles of sampler parameters (robust to parameter renames)

OUT = object()
SIGS = {
    # function -> (list of canonical input names, has ustar/Pstar)
    "sample_right_state": ["rhoR", "uR", "PR", "aR", "PRinv", "ustar", "Pstar", OUT, OUT, OUT, "dxdt"],
    "sample_left_state": ["rhoL", "uL", "PL", "aL", "PLinv", "ustar", "Pstar", OUT, OUT, OUT, "dxdt"],
    "sample_right_shock_wave": ["rhoR", "uR", "PR", "aR", "PRinv", "ustar", "Pstar", OUT, OUT, OUT, "dxdt"],
    "sample_left_shock_wave": ["rhoL", "uL", "PL", "aL", "PLinv", "ustar", "Pstar", OUT, OUT, OUT, "dxdt"],
    "sample_right_rarefaction_wave": ["rhoR", "uR", "PR", "aR", "PRinv", "ustar", "Pstar", OUT, OUT, OUT, "dxdt"],
    "sample_left_rarefaction_wave": ["rhoL", "uL", "PL", "aL", "PLinv", "ustar", "Pstar", OUT, OUT, OUT, "dxdt"],
    # vacuum to the right: the gas is the LEFT state; vacuum to the left: the gas is the RIGHT state
    "sample_right_vacuum": ["rhoL", "uL", "PL", "aL", OUT, OUT, OUT, "dxdt"],
    "sample_left_vacuum": ["rhoR", "uR", "PR", "aR", OUT, OUT, OUT, "dxdt"],
    "sample_vacuum_generation": ["rhoL", "uL", "PL", "aL", "rhoR", "uR", "PR", "aR", OUT, OUT, OUT, "dxdt"],
}


def bind_sampler(fn, name, has_dxdt=True):
    """(args for SymExec.run, out keys in order rho,u,P) from positional roles."""
    sig = list(SIGS[name])
    if not has_dxdt:
        sig = sig[:-1]
    ps = fn["params"]
    if len(ps) != len(sig):
        raise AnalysisBroken("%s: signature changed (%d parameters, expected %d)" %
                             (fn["full"], len(ps), len(sig)))
    args = {}
    outs = []
    for p, role in zip(ps, sig):
        isref = p["t"].rstrip().endswith("&") and not p["t"].startswith("const")
        if role is OUT:
            if not isref:
                raise AnalysisBroken("%s: parameter %s is expected to be an output reference" %
                                     (fn["full"], p["n"]))
            outs.append(("l", p["id"]))
        else:
            if isref:
                raise AnalysisBroken("%s: parameter %s is expected to be an input" % (fn["full"], p["n"]))
            args[p["n"]] = sym_for(role)
    return args, outs


def sampler_leaves(solver, name, inline=(), has_dxdt=True):
    fn = solver.func(name)
    args, outs = bind_sampler(fn, name, has_dxdt)
    se = solver.executor(inline)
    leaves = se.run(fn, args=args)
    res = []
    for l in leaves:
        if l.aborted:
            continue
        o = {"rho": l.env.vals.get(outs[0]), "u": l.env.vals.get(outs[1]), "P": l.env.vals.get(outs[2]),
             "ret": None if l.ret in (None, "void") else l.ret}
        if any(o[k] is None for k in ("rho", "u", "P")):
            raise AnalysisBroken("%s: a path returns without setting all three outputs (%s)" %
                                 (fn["full"], show_conds(l)))
        res.append((l, o))
    return fn, res


def state_syms(K):
    return tuple(sym_for(n + K) for n in ("rho", "u", "P", "a"))


def iz(e):
    return is_zero(e, gt1=gamma)


def _pow_dummies(*exprs):
    m = {}
    for e in exprs:
        for pw in e.atoms(sp.Pow):
            b, ex = pw.as_base_exp()
            if not ex.is_number and not b.is_Symbol and b not in m:
                m[b] = sp.Dummy("B", positive=True)
    return m


def fan_relations(o, K, dxdt):
    """Residuals of the three defining relations of a centred rarefaction fan of side K:
    isentropy, characteristic u +- a = x/t, Riemann invariant. (name, holds, residual)."""
    rhoK, uK, PK, aK = state_syms(K)
    s = 1 if K == "R" else -1
    g = gamma
    rho, u, P = o["rho"], o["u"], o["P"]
    m = _pow_dummies(rho, P)
    inv = {v: k for k, v in m.items()}
    rho_d, P_d = rho.xreplace(m), P.xreplace(m)
    out = []
    ise = (P_d / rho_d ** g) / (PK / rhoK ** g) - 1
    ise = sp.powsimp(sp.powdenest(sp.expand_power_base(ise, force=True), force=True), force=True)
    z, r = iz(ise)
    out.append(("isentropy P/rho^gamma", z, r.xreplace(inv) if hasattr(r, "xreplace") else r))
    a_loc = sp.sqrt(g * P_d / rho_d).xreplace({PK: aK ** 2 * rhoK / g})
    a_loc = sp.powdenest(sp.simplify(sp.powsimp(sp.powdenest(sp.expand_power_base(a_loc, force=True),
                                                             force=True), force=True)), force=True)
    a_loc = a_loc.xreplace(inv)
    z, r = iz(u + s * a_loc - dxdt)
    out.append(("characteristic u%sa = x/t" % ("+" if s > 0 else "-"), z, r))
    z, r = iz((u - s * 2 * a_loc / (g - 1)) - (uK - s * 2 * aK / (g - 1)))
    out.append(("Riemann invariant u%s2a/(gamma-1)" % ("-" if s > 0 else "+"), z, r))
    return out


def fb_premise(K, regime):
    """u* - uK in terms of P* for a wave of side K (the pressure function of Toro section 4.2):
    the relation the solver's own f enforces; extracted separately (N1/N7) from the code."""
    rhoK, uK, PK, aK = state_syms(K)
    Ps = sym_for("Pstar")
    g = gamma
    if regime == "shock":
        A = 2 / ((g + 1) * rhoK)
        B = (g - 1) / (g + 1) * PK
        return (Ps - PK) * sp.sqrt(A / (Ps + B))
    return 2 * aK / (g - 1) * ((Ps / PK) ** ((g - 1) / (2 * g)) - 1)


def dxdt_bounds(leaf, dxdt):
    """Half-lines in x/t implied by the leaf's branch predicates: list of (bound, 'lt'|'gt').
    Compound (&&) conditions are resolved by unit propagation."""
    units = []
    clauses = []

    def lits(c, pol):
        if isinstance(c, sp.And):
            if pol:
                for a in c.args:
                    lits(a, True)
            else:
                clauses.append([(a, False) for a in c.args])
        elif isinstance(c, sp.Or):
            if not pol:
                for a in c.args:
                    lits(a, False)
            else:
                clauses.append([(a, True) for a in c.args])
        elif isinstance(c, sp.Not):
            lits(c.args[0], not pol)
        else:
            units.append((c, pol))
    for c, pol, _ in leaf.conds:
        lits(c, pol)
    changed = True
    while changed:
        changed = False
        for cl in list(clauses):
            rest = [(a, p) for a, p in cl if not any(a == ua and p != up for ua, up in units)]
            if any(any(a == ua and p == up for ua, up in units) for a, p in cl):
                clauses.remove(cl)
                continue
            if len(rest) == 1:
                units.append(rest[0])
                clauses.remove(cl)
                changed = True
    out = []
    for c, pol in units:
        sp_ = sign_pred(c, pol)
        if sp_[0] == "bool":
            continue
        e, sgn = sp_
        if dxdt not in e.free_symbols:
            continue
        co = sp.expand(e).coeff(dxdt, 1)
        rest = sp.expand(e) - co * dxdt
        if co == 0 or dxdt in rest.free_symbols:
            raise AnalysisBroken("regime predicate %s is not linear in x/t" % c)
        b = sp.simplify(-rest / co)
        positive = (co.is_positive is True) == (sgn > 0)
        if co.is_positive is None and co.is_negative is None:
            raise AnalysisBroken("sign of x/t coefficient unknown in %s" % c)
        out.append((b, "gt" if positive else "lt"))
    return out


def eq3(o, vals):
    return all(iz(o[k] - v)[0] for k, v in zip(("rho", "u", "P"), vals))


def check_wave_leaves(chk, solver, name, inline=(), has_dxdt=True, rules=None):
    """Every leaf of a sampler is a constant state, vacuum, a star state (behind a shock:
    Rankine-Hugoniot; behind a fan: isentropic) or a point of a centred rarefaction fan
    (isentropy, characteristic, Riemann invariant); regimes are delimited by the wave speeds
    and adjacent regimes agree on their common boundary (except across the shock)."""
    R = {"shock": "N3", "fan": "N4", "star": "N5", "boundary": "N6", "flag": "N6"}
    R.update(rules or {})
    fn, res = sampler_leaves(solver, name, inline, has_dxdt)
    chk.analysed(function=fn["full"])
    dxdt = sym_for("dxdt") if has_dxdt else sp.Integer(0)
    ustar, Pstar = sym_for("ustar"), sym_for("Pstar")
    sides = [K for K in ("L", "R") if any(v.name == "rho" + K for a in [bind_sampler(fn, name, has_dxdt)[0]]
                                          for v in a.values())]
    has_star = any(v.name == "ustar" for v in bind_sampler(fn, name, has_dxdt)[0].values())
    n = 0
    kinds = []
    for leaf, o in res:
        inst0 = "%s [%s]" % (fn["full"], show_conds(leaf)[:160])
        loc = where(leaf.conds[-1][2], fn) if leaf.conds else where(fn)
        kind = None
        side = None
        for K in sides:
            rhoK, uK, PK, aK = state_syms(K)
            if eq3(o, (rhoK, uK, PK)):
                kind, side = "const", K
        if kind is None and eq3(o, (0, 0, 0)):
            kind = "vacuum"
        if kind is None and has_star and iz(o["u"] - ustar)[0] and iz(o["P"] - Pstar)[0]:
            kind, side = "star", sides[0]
        if kind is None:
            best = None
            for K in sides:
                rel = fan_relations(o, K, dxdt)
                okc = sum(1 for _, z, _ in rel if z)
                if best is None or okc > best[0]:
                    best = (okc, K, rel)
            kind, side = "fan", best[1]
            for rname, z, r in best[2]:
                n += 1
                chk.require(z, R["fan"], "%s: %s of side %s" % (inst0, rname, side), loc,
                            "sampled state is neither a constant state, vacuum nor the star state, and as a "
                            "point of the %s rarefaction fan it violates the %s (residual %s)" %
                            ("right" if side == "R" else "left", rname, r),
                            function=fn["full"], construct="fan leaf %s: %s" % (side, rname.split()[0]))
        kinds.append((leaf, o, kind, side))
        # star states
        if kind == "star":
            rhoK, uK, PK, aK = state_syms(side)
            s = 1 if side == "R" else -1
            PKinv = sym_for("P%sinv" % side)
            shock = any(p[0] != "bool" and p[1] > 0 and iz(p[0] - (Pstar - PK))[0] for p in pred_set(leaf))
            if shock:
                bnds = dxdt_bounds(leaf, dxdt) if has_dxdt else []
                if len(bnds) != 1:
                    raise AnalysisBroken("%s: shock leaf without a single shock-speed predicate" % fn["full"])
                Sx = bnds[0][0]
                prem = {ustar: uK + s * fb_premise(side, "shock"), PKinv: 1 / PK,
                        aK: sp.sqrt(gamma * PK / rhoK)}
                rho = o["rho"]
                mass = (rhoK * (uK - Sx) - rho * (ustar - Sx)).xreplace(prem)
                mom = (rhoK * (uK - Sx) ** 2 + PK - rho * (ustar - Sx) ** 2 - Pstar).xreplace(prem)
                for nm, e in (("mass", mass), ("momentum", mom)):
                    z, r = iz(e)
                    n += 1
                    chk.require(z, R["shock"], "%s: Rankine-Hugoniot %s" % (inst0, nm), loc,
                                "post-shock state and coded shock speed %s violate the %s jump condition "
                                "(residual %s)" % (Sx, nm, r), function=fn["full"],
                                construct="shock leaf %s: %s" % (side, nm))
                n += 1
                want = "lt" if side == "R" else "gt"
                chk.require(bnds[0][1] == want, R["boundary"], "%s: star state lies behind the shock" % inst0, loc,
                            "post-shock state is returned on the wrong side of the shock",
                            function=fn["full"], construct="shock leaf %s: side" % side)
            else:
                z, r = iz((o["rho"] - rhoK * (Pstar / PK) ** (1 / gamma)).xreplace({PKinv: 1 / PK}))
                n += 1
                chk.require(z, R["star"], "%s: star state behind the fan is isentropic" % inst0, loc,
                            "density behind the rarefaction is not rhoK (P*/PK)^(1/gamma) (residual %s)" % r,
                            function=fn["full"], construct="star leaf %s: isentropy" % side)
        # side flag
        if o["ret"] is not None:
            n += 1
            want = 0 if kind == "vacuum" else (1 if side == "R" else -1)
            chk.require(iz(o["ret"] - want)[0], R["flag"], "%s: side flag" % inst0, loc,
                        "returns side flag %s for a %s%s leaf (expected %d)" %
                        (o["ret"], kind, " " + side if side else "", want),
                        function=fn["full"], construct="side flag of %s %s leaf" % (kind, side))
    # regime geometry and boundary continuity
    if has_dxdt:
        for leaf, o, kind, side in kinds:
            inst0 = "%s [%s]" % (fn["full"], show_conds(leaf)[:160])
            loc = where(leaf.conds[-1][2], fn) if leaf.conds else where(fn)
            if kind != "fan":
                continue
            rhoK, uK, PK, aK = state_syms(side)
            s = 1 if side == "R" else -1
            PKinv = sym_for("P%sinv" % side)
            head = uK + s * aK
            if has_star:
                tail = ustar + s * aK * (Pstar / PK) ** ((gamma - 1) / (2 * gamma))
            else:
                tail = uK - s * 2 * aK / (gamma - 1)
            bnds = dxdt_bounds(leaf, dxdt)
            got = []
            for b, d in bnds:
                b = b.xreplace({PKinv: 1 / PK})
                if iz(b - head)[0]:
                    got.append(("head", d))
                elif iz(b - tail)[0]:
                    got.append(("tail", d))
                elif has_star and iz((b - tail).xreplace({ustar: uK + s * fb_premise(side, "fan"), PKinv: 1 / PK}))[0]:
                    # the same speed written through the Riemann invariant of the wave (a* = aK -+ (gamma-1)/2 (uK - u*)):
                    # equal to the tail for every (u*, P*) that satisfies the star relation of this rarefaction
                    got.append(("tail", d))
                else:
                    # vacuum generation: the front of the *other* rarefaction is used to pick the side;
                    # under the function's precondition (fronts separated) it is implied by the tail bound
                    oK = "L" if side == "R" else "R"
                    if oK in sides and not has_star:
                        orho, ou, oP, oa = state_syms(oK)
                        ofront = ou + s * 2 * oa / (gamma - 1)
                        if iz(b - ofront)[0] and d == ("gt" if s > 0 else "lt"):
                            continue
                    got.append(("other %s" % b, d))
            want = {("head", "lt" if s > 0 else "gt"), ("tail", "gt" if s > 0 else "lt")}
            n += 1
            chk.require(set(got) == want, R["boundary"], "%s: fan lies between tail and head" % inst0, loc,
                        "the fan formula is used in the region %s, expected between the tail (%s) and the "
                        "head (%s) of the %s rarefaction" % (got, tail, head, "right" if s > 0 else "left"),
                        function=fn["full"], construct="fan region %s" % side)
            # continuity at the head
            z = eq3({k: v.subs(dxdt, head) for k, v in o.items() if k != "ret"}, (rhoK, uK, PK))
            n += 1
            chk.require(z, R["boundary"], "%s: fan joins the %s state at the head" % (inst0, side), loc,
                        "at x/t = head the fan does not reduce to the undisturbed state",
                        function=fn["full"], construct="fan head continuity %s" % side)
            # continuity at the tail
            if has_star:
                prem = {ustar: uK + s * fb_premise(side, "fan"), PKinv: 1 / PK}
                t2 = tail.xreplace(prem)
                stars = [oo for _, oo, kk, ss in kinds if kk == "star" and
                         not any(p[0] != "bool" and p[1] > 0 and iz(p[0] - (Pstar - PK))[0] for p in pred_set(_))]
                okk = bool(stars)
                for so in stars:
                    for k in ("rho", "u", "P"):
                        e = (o[k].xreplace(prem).subs(dxdt, t2) - so[k].xreplace(prem))
                        e = e.xreplace({PK: aK ** 2 * rhoK / gamma}) if k == "u" else e
                        okk = okk and iz(e)[0]
                n += 1
                chk.require(okk, R["boundary"], "%s: fan joins the star state at the tail" % inst0, loc,
                            "at x/t = tail the fan does not reduce to the star state",
                            function=fn["full"], construct="fan tail continuity %s" % side)
            else:
                e_rho = sp.simplify(o["rho"].xreplace({gamma: 1 + sp.Symbol("delta", positive=True)})
                                    .subs(dxdt, tail.xreplace({gamma: 1 + sp.Symbol("delta", positive=True)})))
                e_P = sp.simplify(o["P"].xreplace({gamma: 1 + sp.Symbol("delta", positive=True)})
                                  .subs(dxdt, tail.xreplace({gamma: 1 + sp.Symbol("delta", positive=True)})))
                n += 1
                chk.require(e_rho == 0 and e_P == 0, R["boundary"],
                            "%s: fan joins the vacuum at the tail" % inst0, loc,
                            "density/pressure at the vacuum front are %s / %s, expected 0" % (e_rho, e_P),
                            function=fn["full"], construct="fan vacuum continuity %s" % side)
        for leaf, o, kind, side in kinds:
            if kind not in ("const", "vacuum"):
                continue
            inst0 = "%s [%s]" % (fn["full"], show_conds(leaf)[:160])
            loc = where(leaf.conds[-1][2], fn) if leaf.conds else where(fn)
            bnds = dxdt_bounds(leaf, dxdt)
            if kind == "const":
                s = 1 if side == "R" else -1
                want = "gt" if s > 0 else "lt"
                okk = bool(bnds) and all(d == want for b, d in bnds if True) if len(bnds) == 1 else \
                    any(d == want for b, d in bnds)
                n += 1
                chk.require(okk, R["boundary"], "%s: undisturbed state lies ahead of the wave" % inst0, loc,
                            "undisturbed %s state is returned for x/t %s (expected beyond the wave front)"
                            % (side, bnds), function=fn["full"], construct="const region %s" % side)
    return n, kinds


# ----------------------------------------------------------------------------------
# rational-function identities with radicals / Max / opaque functions as atoms

def atomise(exprs):
    """Replace every radical, Max/Min and applied function by a dummy (same sub-expression,
    after expansion of its argument, -> same dummy). Returns (new exprs, mapping)."""
    table = {}

    def key_of(x):
        if x.is_Pow:
            return ("pow", sp.expand(x.base), x.exp)
        return (x.func, tuple(sp.expand(a) for a in x.args))

    def is_atom(x):
        if x.is_Pow and not x.exp.is_Integer:
            return True
        if isinstance(x, (sp.Max, sp.Min)):
            return True
        if isinstance(x, sp.Function) or (hasattr(x, "func") and isinstance(x.func, sp.core.function.UndefinedFunction)):
            return True
        return False

    def rep(e):
        if not hasattr(e, "args") or not e.args:
            return e
        if is_atom(e):
            k = key_of(e)
            if k not in table:
                table[k] = sp.Dummy("A%d" % len(table), positive=bool(e.is_Pow))
            return table[k]
        return e.func(*[rep(a) for a in e.args])
    return [rep(e) for e in exprs], table


def _canon_sign(p):
    """(sign, canonical polynomial) with the sign chosen from the first term in sort order."""
    p = sp.expand(p)
    if p == 0:
        return 1, p
    terms = p.as_ordered_terms()
    c = terms[0].as_coeff_Mul()[0]
    if c.is_negative:
        return -1, -p
    return 1, p


class AtomSpace:
    """Shared dummy table so that equal sub-expressions get the same atom across calls."""

    def __init__(self):
        self.table = {}
        self.memo = {}
        self.sub0 = {}
        self.rootq = {}

    def dummy(self, key, positive=False):
        if key not in self.table:
            self.table[key] = sp.Dummy("A%d" % len(self.table), positive=positive)
        return self.table[key]

    def note_roots(self, exprs):
        changed = False
        for e in exprs:
            if not hasattr(e, "atoms"):
                continue
            for pw in e.atoms(sp.Pow):
                b, x = pw.as_base_exp()
                if b.is_Symbol and x.is_Rational and not x.is_Integer:
                    q = int(x.q)
                    old = self.rootq.get(b)
                    if old is None or old % q != 0:
                        self.rootq[b] = q if old is None else int(sp.ilcm(q, old))
                        changed = True
        if changed:
            # symbols are rewritten as powers of their roots: earlier results are stale
            self.memo.clear()
            self.sub0 = {b: self.dummy(("root", b, q), positive=True) ** q for b, q in self.rootq.items()}

    def split_content(self, p):
        p = sp.expand(p)
        f = sp.factor_terms(p)
        mono, prim = sp.Integer(1), sp.Integer(1)
        for a in sp.Mul.make_args(f):
            if a.is_Add:
                prim = prim * a
            else:
                mono = mono * a
        sg, prim = _canon_sign(prim)
        return sg * mono, prim

    def rep(self, e):
        if not getattr(e, "args", None):
            return self.sub0.get(e, e)
        r = self.memo.get(e)
        if r is not None:
            return r
        args = [self.rep(a) for a in e.args]
        if e.is_Pow:
            b, x = args
            if x.is_Integer and x < 0 and b.is_Add:
                mono, prim = self.split_content(b)
                if prim == 1:
                    r = mono ** x
                else:
                    r = (mono ** x) * self.dummy(("inv", prim)) ** (-x)
            elif x.is_Rational and not x.is_Integer:
                bb = sp.expand(b)
                if bb.is_Pow and bb.base.is_Dummy and bb.exp.is_Integer:
                    r = bb.base ** (bb.exp * x) if (bb.exp * x).is_Integer else \
                        self.dummy(("root", bb, x.q), positive=True) ** x.p
                else:
                    r = self.dummy(("root", bb, x.q), positive=True) ** x.p
            elif not x.is_Integer:
                r = self.dummy(("pow", sp.expand(b), x), positive=True)
            else:
                r = b ** x
        elif isinstance(e, (sp.Max, sp.Min)) or isinstance(e.func, sp.core.function.UndefinedFunction):
            r = self.dummy((e.func, tuple(sp.expand(a) for a in args)))
        else:
            r = e.func(*args)
        self.memo[e] = r
        return r


_SPACE = AtomSpace()


def atomise_deep(exprs, space=None):
    """Bottom-up: radicals, Max/Min, applied functions AND reciprocals of non-trivial polynomials
    become dummies (reciprocals keyed by their primitive part up to sign and monomial content,
    symbols whose root occurs are written as powers of that root), so that the result is a Laurent
    polynomial in the dummies. Equal sub-expressions get the same dummy."""
    space = space or _SPACE
    space.note_roots(exprs)
    return [space.rep(e) if hasattr(e, "args") else e for e in exprs], space.table


def rat_is_zero(e, limit=1200, complete=True):
    """Zero test for expressions that are rational functions of radicals / Max / opaque atoms.
    1. reciprocal-aware polynomial normal form (exact when both sides share their denominators);
    2. common-denominator normal form (complete), only below a size limit."""
    if e == 0:
        return True, sp.Integer(0)
    (e1,), tbl = atomise_deep([e])
    x = sp.expand(e1)
    if x == 0:
        return True, sp.Integer(0)
    # roots: A = b^(1/q)  =>  A^k = b^(k div q) * A^(k mod q)
    roots = [(A, key[1], key[2]) for key, A in tbl.items() if key[0] == "root"]

    def reduce_roots(x):
        return x
    if roots:
        def reduce_roots(x):
            reps = {}
            for pw in x.atoms(sp.Pow) | {a for a in x.atoms(sp.Dummy)}:
                b, k = (pw.as_base_exp() if pw.is_Pow else (pw, sp.Integer(1)))
                for A, base, q in roots:
                    if b == A and k.is_Integer and (k >= q or k < 0):
                        if base.is_Symbol or k < 0:
                            continue     # symbols are already written as powers of their root
                        reps[pw] = base ** (int(k) // q) * A ** (int(k) % q)
            return sp.expand(x.xreplace(reps)) if reps else x
        for _ in range(3):
            x2 = reduce_roots(x)
            if x2 == x:
                break
            x = x2
        if x == 0:
            return True, sp.Integer(0)
    if not complete:
        return False, x
    # clear reciprocal atoms one at a time (outermost first): x(A) with A = 1/B  ->  sum c_j B^(k-j)
    y = x
    for _round in range(40):
        inv = [(A, key[1]) for key, A in tbl.items() if key[0] == "inv" and A in y.free_symbols]
        if not inv:
            break
        outer = [(A, B) for A, B in inv if not any(A in B2.free_symbols for A2, B2 in inv if A2 != A)]
        A, B = (outer or inv)[0]
        P = sp.Poly(y, A)
        k = P.degree()
        y = sp.expand(sum(c * B ** (k - m[0]) for m, c in P.terms()))
        if roots:
            for _ in range(6):
                y2 = reduce_roots(y)
                if y2 == y:
                    break
                y = y2
        if y == 0:
            return True, sp.Integer(0)
        if len(y.args) > 20000:
            break
    else:
        y = x
    if not complete:
        return False, x
    (e2,), _ = atomise([e])
    if sp.count_ops(e2) > limit:
        return False, x
    num = sp.expand(sp.numer(sp.together(e2)))
    if num == 0:
        return True, sp.Integer(0)
    return False, num


VBASIS = ("uL", "uR", "normal", "vface", "uLface", "uRface", "pvac")


def flat(v):
    """Scalar or abstract vector -> list of scalars (coefficients over the vector basis)."""
    from .symexec import AVec
    if isinstance(v, AVec):
        extra = sorted(set(v.c) - set(VBASIS))
        return [v.c.get(b, sp.Integer(0)) for b in VBASIS] + [v.c[b] for b in extra]
    return [v]


FLUX_SIG = ["rhoL", "uL", "PL", "rhoR", "uR", "PR", OUT, OUT, OUT, "normal", "vface"]


def flux_leaves(solver, name="solve_for_flux", inline=(), opaque=None, sig=None, extra_args=None):
    fn = solver.func(name)
    se = solver.executor(inline, opaque)
    sig = sig or FLUX_SIG
    if len(fn["params"]) != len(sig):
        raise AnalysisBroken("%s: signature changed" % fn["full"])
    args = {}
    outs = []
    for p, role in zip(fn["params"], sig):
        if role is OUT:
            outs.append(("l", p["id"]))
        elif "CoordinateVector" in p["t"]:
            args[p["n"]] = se.vec_symbols(role)
        elif p["t"].replace("const ", "").strip() == "bool":
            args[p["n"]] = sp.Symbol(role)   # boolean flag
        else:
            args[p["n"]] = sym_for(role)
    leaves = se.run(fn, args=args)
    res = []
    for l in leaves:
        if l.aborted:
            continue
        vals = [l.env.vals.get(k) for k in outs]
        if any(v is None for v in vals):
            raise AnalysisBroken("%s: a path leaves a flux unset (%s)" % (fn["full"], show_conds(l)[:200]))
        if getattr(vals[1], "partial", None) is not None and vals[1].partial != {0, 1, 2}:
            raise AnalysisBroken("%s: momentum flux only partly set (%s)" % (fn["full"], show_conds(l)[:200]))
        res.append((l, {"m": vals[0], "p": vals[1], "E": vals[2]}))
    return fn, res, se


MIRROR_VM = None


def mirror_vm():
    """Basis map of the mirror operation: states swapped, normal reversed, face velocity kept."""
    from .symexec import AVec
    return {"uL": AVec.basis("uR"), "uR": AVec.basis("uL"), "uLface": AVec.basis("uRface"),
            "uRface": AVec.basis("uLface"), "normal": -AVec.basis("normal")}


def apply_vm(e, vm, scalar_map=None):
    """Image of a scalar expression / abstract vector under a linear map of the vector basis
    combined with a substitution of scalar symbols."""
    from .symexec import AVec, remap_scalar
    scalar_map = scalar_map or {}
    if isinstance(e, AVec):
        r = AVec()
        for k, v in e.c.items():
            r = r + (vm[k] if k in vm else AVec.basis(k)) * remap_scalar(v, vm).xreplace(scalar_map)
        return r
    if not hasattr(e, "xreplace"):
        return e
    return remap_scalar(e, vm).xreplace(scalar_map)


def flux_mirror(e, scalar_map):
    """Mirror image of a scalar expression or abstract vector."""
    from .symexec import AVec, remap_scalar
    vm = mirror_vm()
    if isinstance(e, AVec):
        r = AVec()
        for k, v in e.c.items():
            r = r + (vm[k] if k in vm else AVec.basis(k)) * remap_scalar(v, vm).xreplace(scalar_map)
        return r
    return remap_scalar(e, vm).xreplace(scalar_map)


def flux_mirror_map(symbols):
    m = {}
    for s in symbols:
        n = s.name
        if n.startswith("<"):
            continue    # dot symbols are remapped through the basis map
        elif n in ("vL", "vR"):
            # projected velocities passed as scalars: the normal is reversed
            m[s] = -S(mirror_name(n), real=True)
        else:
            t = mirror_name(n)
            m[s] = S(t, **{k: v for k, v in s.assumptions0.items() if k in ("positive", "real") and v})
    return m
