"""CMacIonize static verification machinery (see /verif/DESIGN.md)."""
