"""Regenerates /verif/MANIFEST.json from the table below (python3-vt -m cmiv.manifest)."""
import json
import os

from .astdb import VERIF

CLAIMED = {
    "C14": dict(
        level="other", design="3/C14",
        technique="static analysis: guard-dominance (no unsigned wrap), must-pass-through and "
                  "control-dependence on the CFG of get_restart_writer and the dump site, CAS comparison of the shift bound; abstract "
                  "interpretation of get_restart_writer over the finite domain {0, 1, >=2} of its counters with a reachable-state "
                  "fixpoint across calls (class invariant of the manager)",
        text="Decides the structural clauses of the rotation protocol for every number of backups and dumps: "
             "no rotation counter can wrap, backups are shifted i-1 -> i downwards from min(max-1, nbackups) before the "
             "old dump is renamed to backup 0, that rename happens exactly when a previous dump exists and precedes the "
             "truncating open - also when the rename is folded into the shift loop, in every counter state the manager can reach - "
             "rename failures abort, an explicit deletion in the rotation never removes a slot that holds a dump to be kept (stage from the "
             "CFG, slot index and guards by finite case evaluation over the reachable counter states), no other method of the manager deletes a "
             "file whose name is built from the dump / backup literals, the dump site closes the writer "
             "and a stop is dumped before resubmit. "
             "The newest-first history claim follows by the pencil argument in DESIGN.md; crash timing is not explored.",
        note="Trusted: clang front end, AST export, atomic rename (POSIX); nothing else touches the dump files."),
}

CLAIMED["C12"] = dict(
    level="other", design="3/C12",
    technique="static analysis: definite-assignment (typestate) of owned/optional pointer members over every "
              "constructor CFG of every class, new[]/delete[] form agreement, path-sensitive nullness analysis (belief "
              "contradiction) of the optional components of both task-based drivers with correlated-flag tracking, "
              "counting argument on the CFG for the fixed task arrays, unconditional-reset rule for the pools; zone (difference-bound) "
              "abstract interpretation with widening and boolean-flag partitioning for the index arithmetic of the task queue",
    text="Decides the ownership and null discipline whose breach is the reported crash, for every class of the library: "
         "each pointer member that a destructor deletes or that the class compares with nullptr is definitely assigned by "
         "every user-provided non-delegating constructor (restart constructors included), allocation/deallocation forms agree; "
         "every optional component of the two task-based drivers (a pointer the driver itself compares with nullptr) is "
         "dereferenced only on paths on which it cannot be null; the 27-entry task arrays handed to every TaskContext::execute "
         "receive at most 27 entries per task; pool resets clear every released element; every subscript and block move on the task "
         "queue's heap array stays inside the allocation under the class invariant size <= capacity (adding methods under the "
         "stated assumption that callers leave room); a per-block container that a driver hands to a task context by reference is as long "
         "as the loops that index it there (size terms compared across the construction site). One known finding (RHD driver with "
         "`PhotonSourceDistribution: type: None`). Does not decide the index bounds of other arrays or exit status as such.",
    note="Trusted: clang front end and AST export. A member handed out by address/reference is assumed initialised by the callee; "
         "factory functions are taken as non-null only when every reachable return statement returns `new`.")

CLAIMED["C07"] = dict(
    level="proof", design="3/C07",
    technique="static analysis: partial evaluation of the graph-building functions over a finite abstract neighbour "
              "configuration domain (729 configurations), exhaustive check of the extracted task-graph invariants, "
              "typestate protocol check of the worker loop CFG",
    text="For all layouts and periodicities at once (every abstract neighbour configuration incl. single- and two-subgrid "
         "periodic axes) the extracted task graph satisfies: reset counter = in-degree, edges respect the phase order (acyclic), "
         "child capacity 7, touched subgrids are covered by held locks, the two locks differ, source tasks reach everything, "
         "each interface is owned by one task; the worker loop follows execute -> stop -> unlock -> release children -> "
         "self-decrement; the queues' hand-out rules (C08 Q3, Q4) hold. These premises imply exactly-once, ordering, mutual exclusion and termination for every schedule by the "
         "argument in DESIGN.md C07.",
    note="Assumes mutual neighbour tables (A1), the container guarantees of C08 and a fair OpenMP runtime; trusted base: clang, AST export, the extractor.")

CLAIMED["C11"] = dict(
    level="proof", design="3/C11",
    technique="static analysis: decision-tree extraction of the loop-free solver code (forward substitution, callee inlining at the "
              "real call sites) and computer-algebra proof of the wave relations for every leaf",
    text="Proves, as identities over all real inputs (gamma>1, positive states), that the formulas coded in the exact solver are the "
         "right ones: Newton derivative = derivative of the pressure function as called from solve(); arms continuous at P*=P; star "
         "velocity consistent with the pressure equation; Rankine-Hugoniot conditions for shock leaves with the coded shock speed; "
         "isentropy, characteristic and Riemann invariant for every fan leaf (vacuum fans included); regimes delimited by the wave "
         "speeds and continuous at fan head/tail/vacuum front. Convergence of the iteration and agreement with a reference solver are "
         "numeric and not decided.",
    note="Trusted: clang, AST export, sympy normal forms, real-arithmetic idealisation; premise a^2 = gamma P/rho as computed by solve().")

CLAIMED["C05"] = dict(
    level="proof", design="3/C05",
    technique="static analysis: decision-tree extraction of both solvers' loop-free code with component-free vector algebra, "
              "computer-algebra proof of mirror, Galilean and textbook-HLLC identities regime by regime",
    text="Proves as identities over all real inputs: every left/right twin sampler and every flux regime of both solvers is the mirror "
         "image of its twin (swap states + reverse normal negates all five flux components); HLLC vacuum samplers are true fans and "
         "equal the exact ones at x/t=0; the HLLC star-region flux is F_K + S_K (U*_K - U_K) with the textbook star state for the "
         "solver's own wave speeds; the coded contact speed equalises the star pressures (so the flux is continuous when the contact "
         "crosses the face); upwind arms return the analytic flux; identical states give S* = v; both flux functions transform as a "
         "Galilean boost. Finiteness for extreme inputs, round-off and the 1.5-sound-speed clause are not decided.",
    note="Trusted: clang, AST export, sympy polynomial arithmetic; the exact solver's iteration is an uninterpreted mirror-equivariant "
         "function; DBL_MIN regularisers set to 0 in the flux identities.")

CLAIMED["C09"] = dict(
    level="other", design="3/C09",
    technique="static analysis: serialization-grammar extraction of every restart writer and reader (ordered trees of primitives, "
              "objects, loops, conditions tied to members) and item-by-item agreement; member-coverage and operation-tree rules; CAS comparison "
              "of dump bounds with allocated sizes; finite evaluation of derived members",
    text="Decides that the dump is complete and symmetric for every stop point at once: for every restartable class the writer grammar "
         "equals the reader grammar (shape, primitive size/class, member identity and member type, loop bounds, conditions), the dump "
         "site and the restart path of the task-based RHD driver exchange the same sequence with optional components guarded "
         "consistently, every data member in the state closure of the dump is round-tripped, re-derived by the primary constructor's own "
         "floating-point operation tree, rebuilt from a derived value by a reader that inverts the writer on every state (finite "
         "evaluation), or a listed transient; containers dumped element by element are dumped with the size the primary constructor "
         "allocates; the restart factories know every dumpable class, the primitive codec is "
         "symmetric, and no two stream reads are unsequenced. Bit-identity of the continued run itself is not decided.",
    note="Trusted: clang, AST export, initialisation order as reported by clang; assumes no continuation-relevant state outside the dumped objects; "
         "the transient table (cmiv/rules/c09.py) is confirmed by reading, one reason per member.")

CLAIMED["C08"] = dict(
    level="other", design="3/C08",
    technique="static analysis: per-operation typestate / lockset / confirmed-value path rules on the CFG of every container method "
              "and instantiation; symbolic old/new-value check of the atomic wrappers; zone abstract interpretation with a ghost position for "
              "the queue's gap closing",
    text="Decides, for every instantiation, the per-operation facts from which the hand-out guarantees follow for every interleaving: "
         "each AtomicValue method is exactly one atomic access with the right delta and result; ThreadLock is a thin test-and-set; a "
         "pool index is returned only after its flag was won, flags are flipped only by acquire/release, the occupancy counter nets +1 "
         "per hand-out and 0 otherwise and is only changed by read-modify-writes, released ranges are reset, every slot index the pool "
         "computes itself is reduced modulo / compared with the pool size on every path before it subscripts the pool; queue state is touched only "
         "under the queue lock which is released once on every path; a task index is handed out only after lock_dependency() succeeded "
         "on exactly that entry and it left the live range, and the position it was handed out from is overwritten whenever it is still "
         "below the fill counter; two-lock acquisition rolls back (loop forms included); overflow copies use one shared counter. "
         "Progress under contention and full multiset preservation by the gap closing are not decided.",
    note="Trusted: C++11 memory model for std::atomic RMW, clang, AST export. Statistics fields (QUEUE_STATS) are outside the lock rule.")

CLAIMED["C19"] = dict(
    level="proof", design="3/C19",
    technique="static analysis: custom abstract interpretation (power-of-two typestate + divisibility fact) over the CFG of TimeLine, "
              "dominance of the time update by the divisibility-loop exit, restart grammar agreement",
    text="Proves the invariant structure from which the per-step argument follows for every history: stored limits and the step added are "
         "powers of two >= 1, the update `_current_time += step` is dominated on every path by the exit of `(2^63 - time) % step > 0` with "
         "neither operand changed since, no modulus by a possibly-zero value, the step only shrinks from the configured maximum, early "
         "stops do not move time, the reported step/time are the affine images of the integers used, the flag is time < end, all state "
         "members are saved and restored, and the driver stops on false. Hence time increases strictly, never passes the end and can "
         "only end at the end (DESIGN.md). The floating-point `no larger than requested` comparison is located, not evaluated.",
    note="Trusted: clang, AST export, 64-bit unsigned arithmetic; TimeLine limits are powers of two on entry of advance() by T1 and by restart round-trip.")

CLAIMED["C02"] = dict(
    level="other", design="3/C02",
    technique="static analysis: partial evaluation of the exit-mask and entry-index tables over all 64 masks / 27 directions, "
              "axis-consistency and control-skeleton rules on DensitySubGrid::interact, CAS proof of the surplus-path correction",
    text="Decides the finite tables and the skeleton that make the geometric claim possible for every start position and direction: "
         "the 27 consistent exit masks map one-to-one onto the 27 directions and all others are rejected (this bijection defines the "
         "geometric signature used by C03/C10); each entry classification starts in the lower / upper / position-derived cell per axis; "
         "in the ray march every per-axis expression uses one axis, the upper face is used for positive direction, the surplus-path "
         "correction lands exactly on the target optical depth, each visited cell is credited once with the corrected length, and "
         "INSIDE is returned iff the target was reached; for a vanishing direction component the wall distance of that axis is DBL_MAX / "
         "+inf wherever the packet sits in the closed cell (abstract evaluation over {zero, nonneg, inf, NaN-possible, ...}); every value "
         "added to a mean-intensity or heating estimator is a product containing the packet weight, the cross section and the path length. The "
         "floating-point march itself is not decided.",
    note="Trusted: clang, AST export. Optical depth is linear in the path length within a cell (as coded in get_optical_depth).")
CLAIMED["C03"] = dict(
    level="other", design="3/C03",
    technique="static analysis: partial evaluation of the four direction tables over the 27 directions against the code-derived geometric "
              "signature; structural hand-over and field-set agreement rules; pairing rule on the CFG for containers that grow together; "
              "finite case evaluation (integer interpretation of the syntax tree) of the neighbour wiring",
    text="Decides the self-consistency of the hand-over bookkeeping for every layout: opposite-direction table is the geometric involution; "
         "the output/input compatibility tables test exactly the signs of the (opposite) signature; re-positioning snaps exactly the "
         "coordinates fixed by the entry classification; what leaves through direction i is tagged neighbour(i)/opposite(i) and stored in "
         "the buffer of the direction the traversal returned; the estimator fields a packet accumulates are the fields folded from copies "
         "and reset, over full extents, each copy folded once; the list of copies and the copy -> original map are reset together "
         "wherever one of them is shrunk; and the neighbour table create_subgrid gives a subgrid is the geometric one (offset signature(d), "
         "wrapped on periodic axes, OUTSIDE beyond a non-periodic face), by finite case evaluation of its integer code for 1, 2 and 3 "
         "subgrids per axis, every periodicity and every subgrid. Numeric equality between layouts is not decided.",
    note="Trusted: clang, AST export; signature from C02-T1; that more than 3 subgrids per axis add no new ordering of the compared indices.")

CLAIMED["C10"] = dict(
    level="other", design="3/C10",
    technique="static analysis: symbolic (cell-count parametric) evaluation of the sweep loop nests and 6-face tables against the cell "
              "index formula taken from the code, sibling agreement, dispatch exhaustiveness, task-graph data-dependency coverage",
    text="Decides for all cell counts and layouts that internal sweeps plus one pair sweep per interface visit exactly the faces of the "
         "undivided grid with the two adjacent cells (left = last layer of the left grid, right = first layer of the right grid, one shared "
         "column/row map, this/neighbour per side, axis quantities of that axis), that gradient and flux sweeps agree, that every hydro task "
         "type runs the sweep of its kind on the face/neighbour stored in the task, and that every sweep touching a subgrid precedes that "
         "subgrid's next phase in the task graph (C07 rules G1, G2, G4, G8 re-checked), and that within a phase the face operations and the "
         "sweeps themselves only accumulate into what the phase accumulates (they commute). Summation round-off and bit reproducibility are "
         "not decided.",
    note="Trusted: clang, AST export, sympy polynomial arithmetic; assumption A1 (neighbour tables) and C08 container guarantees.")

CLAIMED["C04"] = dict(
    level="other", design="3/C04",
    technique="static analysis: phi-evaluation (forward substitution with opaque merge symbols at branches, constant loops unrolled) of the "
              "flux application and state update code, computer-algebra check of antisymmetry / common scaling, non-negativity-by-construction flags; "
              "for the reflecting wall: the HLLC decision tree specialised to a mirror pair, branch exclusion by outward-rounded interval "
              "evaluation (branch and bound over Mach number x adiabatic index), CAS zero test of the wall mass and energy flux",
    text="Decides, for every state and every limiter outcome at once, that the five updates a face flux applies to its left and right cell "
         "cancel exactly, that all five carry the same area/limiter factor relative to the Riemann output, that nothing else of the cell "
         "states is written, that a boundary flux changes only the inside cell, and that the final writes of mass, energy, density and pressure "
         "are max(.,0) clamps or non-negative by construction on every path. With C10 (each face once) this is conservation wherever the "
         "safeguard does not intervene. At a reflecting wall: the ghost state is the mirror image of the wall cell, and for a mirror pair "
         "of face states the HLLC mass and energy flux vanish identically on every solver branch that a wall-normal Mach number in [0, 1.5] "
         "can reach, for every gamma in (1, 2]. Finiteness, the round-off size and the symmetry of the second-order face reconstruction "
         "at a wall are not decided.",
    note="Trusted: clang, AST export, sympy; the Riemann solver's outputs are opaque symbols (its own symmetry is C05).")

CLAIMED["C01"] = dict(
    level="other", design="3/C01",
    technique="static analysis: typestate / must-pass-through / control-dependence rules on the CFG of every photon task body, of the source "
              "task creation code and of both worker loops; path-wise symbolic evaluation of the packet budget split",
    text="Decides the per-task resource and accounting discipline that is necessary for `exactly once, nothing left behind` under every "
         "schedule: every task slot and photon buffer taken is published / attached / freed exactly once on every path, the input buffer of a "
         "traversal is freed and that of a re-emission is re-attached or freed, the done-counter advances exactly once by input size minus the "
         "sizes of the buffers kept for later work, the worker loops release locks, free the slot and publish every returned task, the run flag "
         "is cleared only under (no buffer in flight and done == requested), source batches equal what is counted as launched, external-source "
         "tasks announce their packets only after storing them, the flush is scheduled once and holds its block's lock, and photon batches "
         "are handed out under the source's lock, and the packet budgets of the source types add up to the requested number on every "
         "set-up path, and every traversal task depends on the lock of the subgrid whose index it stores. Quiescence detection under a racy "
         "schedule and the per-source split inside DistributedPhotonSource are not decided.",
    note="Trusted: clang, AST export; C08 container guarantees; the run flag is a plain bool eventually seen by all workers.")

CLAIMED["C20"] = dict(
    level="other", design="3/C20",
    technique="static analysis: extraction of the unit table, SI-name table, conversion list and of every default unit literal in the "
              "library (call-site query over all units) with exact rational consistency checks; structural stack-discipline rule on the YAML parser; "
              "writer/reader name-table agreement for the HDF5 snapshot (string patterns resolved through the field-name switch); "
              "path-partitioned provenance (dataset-label) dataflow over the snapshot readers' value path; forward size-term dataflow "
              "(with staleness at loop heads) over the snapshot writer's block buffers",
    text="Decides the self-consistency of the built-in tables and of all their users: SI-prefixed table entries differ from their base unit by "
         "exactly the prefix power; every quantity has an SI name made of factor-1 table units; every default unit literal passed to "
         "get_physical_value/get_physical_vector anywhere in the library parses and has the dimension of its quantity (or a registered "
         "conversion); the parameter-file parser keeps group and indentation stacks in lock step, closes every deeper group on a dedent and "
         "clears both on a top-level line; every group, attribute and dataset name (with element type and per-ion suffix function) the "
         "snapshot reader asks for is one the snapshot writer produces, stored unit values x conversion applied = 1, and parameter keys read "
         "back from a snapshot are keys the components read; on the paths that read the stored density, temperature and neutral fractions "
         "no value derived from a dataset is an unguarded denominator and each value handed to a cell derives from the dataset of its "
         "quantity; every buffer the writer hands to append_dataset has exactly the size of the block gathered into it. The parse/print round trip for arbitrary trees, printed precision and the "
         "HDF5 library itself are not decided.",
    note="Trusted: clang, AST export, sympy rationals; literal values are read as written in the source.")

CLAIMED["C06"] = dict(
    level="other", design="3/C06",
    technique="static analysis: forward-substitution extraction of the closed-form balance formulas and computer-algebra sign "
              "certificates (non-negative-coefficient ratios), CAS identities for the hydrogen root and the sibling quadratic arms, "
              "path-sensitive reaching-definition rule for the temperature cap; sign-domain abstract evaluation of the stage-ratio "
              "denominators (through lambdas and conditional expressions)",
    text="Decides, for all non-negative inputs in real arithmetic: every metal ionic fraction is a ratio of polynomials with non-negative "
         "coefficients and the tracked stages of each element sum to at most 1; the hydrogen-only closed form solves the balance equation, "
         "lies in [floor, 1], decreases with the radiation field and increases with density and recombination rate, and its strong-field arm "
         "is the leading term of the exact root; expansion arm, exact arm and switch variable of both quadratic solves in the H/He "
         "iteration describe the same root; literal special-case arms set every tracked ion to values in [0,1] summing to at most 1 per "
         "element; every temperature written by the thermal balance is a literal <= 30000 or capped by min(30000, .) on every path; "
         "every stage-ratio denominator that contains a charge-transfer term keeps a strictly positive term on every path (the "
         "clamped radiative rate may be 0). "
         "Convergence and bounds of the H/He fixed point, the temperature iteration (lower bound, finiteness) and absence of the "
         "`too many iterations` abort are loop properties over runtime values and are not decided.",
    note="Trusted: clang, AST export, sympy; assumes rates, intensities and densities are non-negative (C18 is not decided).")

CLAIMED["C13"] = dict(
    level="other", design="3/C13",
    technique="static analysis: abstract interpretation of RandomGenerator over a dyadic-grid interval domain (sets n*2^e with integer "
              "bounds, smashed arrays, inlined calls with reference parameters, loop fixpoints) with an exactness check on every "
              "floating-point operation; restart grammar agreement; call-site form rule for the optical-depth draws; whole-library "
              "taint analysis (clock / cycle counter / pid / address / C-library generator sources, RandomGenerator seed sinks)",
    text="Decides the clauses of C13 that are invariants of the generator state: for EVERY seed the seeding code leaves the twelve state "
         "words in {n 2^-48 : 0 <= n < 2^48}, carry 0 and the indices in range (seed 0 becomes 1); the refill preserves that invariant "
         "with the carry in {0, 2^-48}; every returned value is a state word, hence in [0, 1 - 2^-48] (never 1, so -log(u) > 0 at "
         "every optical-depth draw); every floating-point operation of the generator is exact (no rounding), so the stream is the same "
         "function of the seed on every platform and optimisation level; all indices are in bounds; the full state round-trips through a "
         "restart file; every seed given to a RandomGenerator constructor or set_seed anywhere in the library is a function of the input "
         "(no clock, cycle-counter, pid, address or rand() value flows into it), the structural half of 'same seed => identical output'. "
         "The seed -> 31-bit pattern map in front of the bit generator is injective on 0 .. 2^31-1 (0 treated as 1). "
         "NOT decided: that the stream equals the published ranlxd2 sequence (no reference on disk), that different bit "
         "patterns give different streams, byte-identical snapshots of whole runs.",
    note="Trusted: clang, AST export, the 600-line abstract interpreter (cmiv/absint.py), IEEE-754 binary64 semantics.")

CLAIMED["C17"] = dict(
    level="proof", design="3/C17",
    technique="static analysis: extraction of the predicates' expression DAGs, computer-algebra identity with the reference determinants, "
              "interval (bit-width) abstract interpretation of the multi-precision integer code, symbolic forward rounding-error "
              "analysis of the floating-point filter (magnitude form and rounding depth per node), call-site provenance rule",
    text="Proves, for all points with coordinates in [1,2): the integer polynomials evaluated by orient3d_exact / insphere_exact on the "
         "52-bit mantissas are the orientation / in-sphere determinants (documented sign convention), returned through an exact "
         "three-way sign; every intermediate fits the declared 256- / 278-bit magnitude (159 / 267 bits needed); the polynomials are "
         "antisymmetric under every transposition; the floating-point filters evaluate the same polynomial on exactly computed "
         "differences, cannot underflow, and their error bound is 1e-10 times the magnitude form of the guarded expression, which "
         "exceeds the worst-case round-off of the 5 / 11 roundings on the deepest path, so a non-zero filter answer has the exact sign; "
         "the fall-back passes the same points in the same order; every call site feeds the predicates from the position lookup. "
         "Not decided: that looked-up coordinates really lie in [1,2) (the rescaling computes runtime values).",
    note="Trusted: clang, AST export, sympy polynomial arithmetic, the standard model of IEEE-754 rounding, boost::multiprecision "
         "below its capacity. Lifting argument in DESIGN.md C17.")

CLAIMED["C18"] = dict(
    level="other", design="3/C18",
    technique="static analysis: interval abstract interpretation (outward rounded, monotone exp / pow) of every charge-transfer formula over "
              "its clamped range; sign x monotonicity abstract domain on the recombination and photoionization fit expressions; "
              "table exhaustiveness (call-site constants vs. switch labels); must-pass-through rule for the final clamp and the "
              "threshold guard; symbolic composition (CAS) of the constructor's stored table entries with the evaluated cross-section "
              "formula against the published Verner fits",
    text="Decides the clauses of C18 that do not depend on the values in the shipped data tables, for all temperatures / energies at once: "
         "every charge-transfer rate is finite and non-negative (39 arms, enclosures reported) and every reaction the ionization balance "
         "asks for has a non-aborting arm; every recombination rate is returned through max(0, .); the hydrogen and helium recombination "
         "fits are strictly positive and strictly decreasing for T > 0; photoionization cross sections are 0 below the threshold (tested "
         "first) and otherwise a product of non-negative factors, given non-negative table entries; the formula evaluated per shell, "
         "composed with the derived entries the constructor stores, is identically the published fit (Verner & Yakovlev 1995 inner shells, "
         "Verner et al. 1996 outer shell) times 1e-22. NOT decided: the values of the shipped tables, strict positivity of the metal rates up to 1e5 K, finiteness where table entries "
         "enter a denominator, and the frequency samplers.",
    note="Trusted: clang, AST export, libm exp/pow within 2 ulp for the enclosures. Assumes non-negative Verner table entries.")

CLAIMED["C16"] = dict(
    level="other", design="3/C16",
    technique="static analysis: symbolic execution of one traversal step of the three sibling implementations of DensityGrid::interact "
              "(path-forking on the sign of the remaining optical depth, CAS identities on the extracted expressions); per-axis case "
              "evaluation of the Cartesian grid's loop-free wall-intersection, periodic-wrap and neighbour functions over finite "
              "classes of index (below / inside / above, with non-uniform comparisons reported) and the 13 weak orderings of the three "
              "wall distances; mixed-radix floor certificate for the linear-index bijection; affine-inverse identity between "
              "get_cell_indices and get_cell with the constructor's definitions substituted; finite evaluation of the octant encode / "
              "decode expressions and of the 8 x 6 child-neighbour table of the AMR tree; purity (effect) analysis of the look-up path",
    text="Decides, for every input at once, the clauses of C16 that are in the shape of the code. (1) Cartesian, AMR and Voronoi "
         "interact() account a step identically: the optical depth of a step is linear in the path; the target is reduced by exactly "
         "that; on overshoot the path is shortened so that the optical depth used equals the target exactly, the packet stops there and "
         "the cell cursor does not advance; exactly one deposit per step, of the path actually travelled, into the cell whose opacity "
         "was used, every deposited quantity proportional to the path; the position advances by that path times the direction and is "
         "stored; end() is returned exactly when the loop's inside-condition fails. (2) Cartesian grid: wall distances, minimum, index "
         "step with ties, wall point; periodic wrap of index and position for all 216 class/flag combinations; get_long_index / "
         "get_indices are inverse bijections onto [0, number of cells); a cell's box is exactly the set of positions mapped to its "
         "index; cell volume x number of cells = box volume; the neighbour table is c-1 / c+1 with wrap or none, normals -1 / +1 "
         "(hence mutual). (3) AMR tree: every site that descends into, creates or enumerates children uses child = 4 ix + 2 iy + iz with "
         "the bit of an axis = upper half, and child box (anchor + i side/2, side/2), so the eight children tile the parent and the "
         "descent picks the child containing the position (induction over any refinement history); one key radix (3 bits per level) "
         "everywhere; set_ngbs gives each child the sibling or the mirrored child of the parent's neighbour in all 48 entries; the "
         "look-up path of every grid keeps no state between calls. NOT decided: which cells a refinement splits, key enumeration order, "
         "AMR and Voronoi wall finding, Voronoi geometry, the Octree / PointLocations searches, and anything numeric (round-off, "
         "positions exactly on walls).",
    note="Trusted: clang, AST export, sympy; the wall point of the AMR / Voronoi helpers is assumed to be position + s x direction "
         "(decided for the Cartesian helper only).")

NOT_APPLICABLE = {
    "C15": "Validity of a Voronoi tessellation and agreement of two constructions quantify over real generator sets; correctness rests on geometric predicates and flip sequences whose outcomes are runtime values; no clause has its truth in the shape of the code.",
}

PENDING = "check not built yet (DESIGN.md section 6 build order); not claimed until it is"


def main():
    props = [json.loads(l) for l in open(os.path.join(VERIF, "properties.jsonl"))]
    checks = []
    na = []
    for p in props:
        pid = p["id"]
        if pid in CLAIMED:
            c = CLAIMED[pid]
            checks.append({
                "property_id": pid,
                "quick_cmd": "bin/cmi-verify %s --tier quick" % pid,
                "thorough_cmd": "bin/cmi-verify %s --tier thorough" % pid,
                "evidence_file": "evidence/%s.json" % pid,
                "replay_cmd_template": "bin/cmi-verify %s --tier quick  # re-evaluates the instance recorded in {path}" % pid,
                "engine": "cmiv",
                "level_claimed": {"category": c["level"], "text": c["text"], "design_ref": c["design"]},
                "level_note": c["note"],
                "technique": c["technique"],
            })
        else:
            na.append({"property_id": pid, "reason": NOT_APPLICABLE.get(pid, PENDING)})
    m = {
        "version": 1,
        "setup_cmd": "python3-vt -m cmiv.setup",
        "hooks": {
            "guard": "CMACIONIZE_VERIF",
            "enable": "not needed: no check uses instrumentation; every check parses /repo/src with the flags of the real build (ninja -t compdb)",
            "baseline_off_cmd": "ctest --test-dir /repo/_build -j8 --timeout 900",
            "source_commits": [],
            "add_only": True,
        },
        "engines": [{
            "name": "cmiv", "path": "cmiv/", "serves_properties": sorted(CLAIMED),
            "kind_free_text": "repository-specific static analysis: clang-14 plugin exports the type-resolved AST "
                              "(tools/cmiast.cc); Python rules over structured CFGs (typestate / state-set reachability), "
                              "table partial evaluation, serialization-grammar extraction and computer-algebra normal forms",
        }],
        "checks": checks,
        "notes": "Exit codes: 0 holds, 1 violation (VIOLATION line), 2 analysis-broken (anchor vanished, instance floor missed, construct not understood). See DESIGN.md.",
        "not_applicable": na,
    }
    json.dump(m, open(os.path.join(VERIF, "MANIFEST.json"), "w"), indent=1)
    print("MANIFEST.json: %d checks, %d not applicable" % (len(checks), len(na)))


if __name__ == "__main__":
    main()
