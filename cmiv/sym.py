"""E3: expression normaliser.  AST expression -> sympy expression, with forward
substitution of locals (value numbering of loop-free code) and decision-tree extraction
for loop-free functions.  Equality is decided over the reals by a computer-algebra
normal form (never by evaluating the program)."""
import sympy as sp

from .astdb import AnalysisBroken
from .cfg import strip_casts, pretty, const_int

_sym_cache = {}


def S(name, **kw):
    key = (name, tuple(sorted(kw.items())))
    if key not in _sym_cache:
        _sym_cache[key] = sp.Symbol(name, **kw)
    return _sym_cache[key]


class Env:
    """Maps variable keys (local id / member name) to sympy expressions."""

    def __init__(self, parent=None):
        self.vals = dict(parent.vals) if parent else {}

    def copy(self):
        return Env(self)


class Converter:
    """Configurable AST -> sympy conversion.

    atoms: callback(kind, name, node) -> sympy expr or None, for references the
           environment does not know (parameters, members, opaque calls)."""

    def __init__(self, atoms=None, real=True, positive_atoms=False, call_hook=None,
                 integer=False):
        self.atoms = atoms
        self.real = real
        self.integer = integer
        self.positive_atoms = positive_atoms
        self.call_hook = call_hook
        self.opaque = {}

    def sym(self, name):
        if self.integer:
            return S(name, integer=True)
        if self.positive_atoms:
            return S(name, positive=True)
        return S(name, real=True)

    def key(self, e):
        e = strip_casts(e)
        k = e.get("k")
        if k == "Ref":
            return ("l", e["id"]) if "id" in e else ("g", e.get("q"))
        if k == "Mem":
            b = strip_casts(e["b"])
            if b.get("k") == "This":
                return ("m", e["n"])
            bk = self.key(b)
            return ("f", bk, e["n"]) if bk else None
        if k == "Idx":
            bk = self.key(e["a"])
            i = const_int(e["i"])
            return ("i", bk, i) if bk is not None and i is not None else None
        if k == "Call" and e.get("op") == "[]" and e.get("obj") is not None and e["a"]:
            bk = self.key(e["obj"])
            i = const_int(e["a"][0])
            return ("i", bk, i) if bk is not None and i is not None else None
        if k == "Call" and e.get("obj") is not None and not e["a"] and e.get("n") in ("x", "y", "z"):
            bk = self.key(e["obj"])
            return ("i", bk, "xyz".index(e["n"])) if bk is not None else None
        return None

    def name_of_key(self, key):
        if key[0] == "l":
            return "v%s" % key[1]
        if key[0] in ("m", "g"):
            return str(key[1])
        if key[0] == "f":
            return "%s.%s" % (self.name_of_key(key[1]), key[2])
        if key[0] == "i":
            return "%s[%s]" % (self.name_of_key(key[1]), key[2])
        return str(key)

    def conv(self, e, env):
        e0 = e
        e = strip_casts(e)
        k = e.get("k")
        if k == "Int":
            return sp.Integer(int(e["v"]))
        if k == "Float":
            sptxt = (e.get("sp") or e["v"]).rstrip("fFlL")
            try:
                return sp.Rational(sptxt)
            except Exception:
                return sp.Float(e["v"])
        if k == "Bool":
            return sp.true if e["v"] else sp.false
        if k in ("Ref", "Mem", "Idx") or (k == "Call" and (e.get("op") == "[]" or
                                                           (not e["a"] and e.get("n") in ("x", "y", "z")
                                                            and e.get("obj") is not None))):
            key = self.key(e)
            if key is not None and key in env.vals:
                return env.vals[key]
            if k == "Ref" and "v" in e:
                return sp.Integer(int(e["v"]))
            if self.atoms:
                r = self.atoms(key, e)
                if r is not None:
                    return r
            if key is None:
                raise AnalysisBroken("cannot name lvalue %s (line %s)" % (pretty(e), e.get("l")))
            nm = e.get("n") if k in ("Ref",) and "id" in e else self.name_of_key(key)
            return self.sym(nm)
        if k == "Bin":
            op = e["op"]
            if op == ",":
                return self.conv(e["b"], env)
            a = self.conv(e["a"], env)
            b = self.conv(e["b"], env)
            return self.binop(op, a, b, e)
        if k == "Un":
            op = e["op"]
            x = self.conv(e["x"], env)
            if op == "-":
                return -x
            if op == "+":
                return x
            if op == "!":
                return sp.Not(x)
            raise AnalysisBroken("unary %s in pure expression (line %s)" % (op, e.get("l")))
        if k == "Cond":
            c = self.conv(e["c"], env)
            return sp.Piecewise((self.conv(e["a"], env), c), (self.conv(e["b"], env), True))
        if k == "Call":
            return self.call(e, env)
        if k == "Ctor" and len(e["a"]) == 1:
            return self.conv(e["a"][0], env)
        raise AnalysisBroken("expression kind %s not convertible (line %s): %s" %
                             (k, e.get("l"), pretty(e0)))

    def binop(self, op, a, b, e=None):
        if op == "+":
            return a + b
        if op == "-":
            return a - b
        if op == "*":
            return a * b
        if op == "/":
            return a / b
        if op == "<":
            return sp.Lt(a, b)
        if op == ">":
            return sp.Gt(a, b)
        if op == "<=":
            return sp.Le(a, b)
        if op == ">=":
            return sp.Ge(a, b)
        if op == "==":
            return sp.Eq(a, b)
        if op == "!=":
            return sp.Ne(a, b)
        if op == "&&":
            return sp.And(a, b)
        if op == "||":
            return sp.Or(a, b)
        raise AnalysisBroken("binary operator %s not convertible (line %s)" %
                             (op, e.get("l") if e else "?"))

    def call(self, e, env):
        fn = e.get("fn") or e.get("n") or ""
        args = e["a"]
        if e.get("op") and e.get("obj") is not None and e.get("op") not in ("[]", "()"):
            # overloaded arithmetic operator with member form
            a = self.conv(e["obj"], env)
            if args:
                return self.binop(e["op"], a, self.conv(args[0], env), e)
            if e["op"] == "-":
                return -a
        if e.get("op") and e.get("obj") is None and len(args) == 2:
            return self.binop(e["op"], self.conv(args[0], env), self.conv(args[1], env), e)
        base = fn.split("::")[-1]
        if self.call_hook:
            r = self.call_hook(e, env, self)
            if r is not None:
                return r
        if base in ("min", "fmin") and len(args) == 2:
            return sp.Min(self.conv(args[0], env), self.conv(args[1], env))
        if base in ("max", "fmax") and len(args) == 2:
            return sp.Max(self.conv(args[0], env), self.conv(args[1], env))
        if base == "sqrt" and len(args) == 1:
            return sp.sqrt(self.conv(args[0], env))
        if base == "pow" and len(args) == 2:
            return self.conv(args[0], env) ** self.conv(args[1], env)
        if base in ("abs", "fabs") and len(args) == 1:
            return sp.Abs(self.conv(args[0], env))
        if base == "exp" and len(args) == 1:
            return sp.exp(self.conv(args[0], env))
        if base == "log" and len(args) == 1:
            return sp.log(self.conv(args[0], env))
        # opaque call: an uninterpreted atom per (callee, argument values)
        cargs = tuple(self.conv(a, env) for a in args)
        objk = None
        if e.get("obj") is not None:
            try:
                objk = self.key(e["obj"])
            except AnalysisBroken:
                objk = None
        tag = (fn, objk, cargs)
        if tag not in self.opaque:
            nm = "%s(%s)" % (base, ",".join(str(c) for c in cargs))
            self.opaque[tag] = self.sym(nm)
        return self.opaque[tag]


_delta = sp.Symbol("delta", positive=True)


def is_zero(expr, tries=True, gt1=None):
    """CAS decision of expr == 0 over the reals. Returns (bool, residual).
    gt1: a symbol known to exceed 1 (the adiabatic index); rewritten as 1+delta, delta>0,
    so that radicands that are sums of positive terms are recognised as positive."""
    if expr == 0:
        return True, sp.Integer(0)
    r = sp.simplify(expr)
    if r == 0:
        return True, r
    if gt1 is not None and tries:
        e2 = expr.xreplace({gt1: 1 + _delta})
        r2 = sp.simplify(e2)
        if r2 == 0:
            return True, r2
        r2 = r2.replace(lambda x: x.is_Pow and x.exp in (sp.Rational(1, 2), -sp.Rational(1, 2)),
                        lambda x: sp.Pow(sp.factor(sp.expand(x.base)), x.exp))
        r2 = sp.simplify(r2)
        if r2 == 0:
            return True, r2
        r2 = sp.simplify(sp.powsimp(sp.powdenest(sp.expand_power_base(r2, force=True), force=True), force=True))
        if r2 == 0:
            return True, r2
    if tries:
        for f in (lambda x: sp.simplify(sp.expand(x)),
                  lambda x: sp.simplify(sp.powsimp(sp.expand_power_base(x, force=True), force=True)),
                  lambda x: sp.radsimp(sp.together(x)),
                  lambda x: sp.simplify(sp.factor(x))):
            try:
                r2 = f(r)
            except Exception:
                continue
            if r2 == 0:
                return True, r2
    return False, r
