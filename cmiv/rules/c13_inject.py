"""C13-X9: different seeds give different generator states.

RandomGenerator::set_seed turns the seed into the 31 bits that start the bit generator: a loop `xbit[k] = v % 2; v /= 2`
over a value v computed from the seed.  "Different seeds give different streams" needs the map seed -> v to be injective on
the documented domain 0 .. 2^31 - 1, with the one documented exception that seed 0 is treated as seed 1.

Abstract interpretation of the statements in front of the bit-extraction loop over *piecewise shifted identities*: the value
of a variable is a list of pieces (lo, hi, "id", off) = "seed + off for lo <= seed <= hi" or (lo, hi, "const", c).
`if (x == c)` / `!=` split the pieces; `x & (2^k - 1)` keeps a piece whose values lie in [0, 2^k - 1]; `x % m` keeps a piece
below m and splits the rest ([m, 2m - 1] becomes seed + off - m); anything else is not read (exit 2).  The pieces of v must
have pairwise disjoint value sets, except that {0, 1} may share the value 1; a collision is reported with the two seeds.
"""
from .. import cfg as C
from ..astdb import AnalysisBroken, where

TOP = 2 ** 31 - 1


def rule_X9(chk, u):
    fn = u.func("RandomGenerator::set_seed")
    chk.analysed(function=fn["full"])
    seed = [p for p in fn["params"] if "id" in p]
    if len(seed) != 1:
        raise AnalysisBroken("%s: seed parameter not found" % fn["full"])
    # the bit-extraction loop and the variable it consumes
    target = None
    loop = None
    for s in fn["body"]["s"]:
        if s.get("k") == "For":
            for x in C.walk_stmt(s["body"]):
                b_ = C.strip_casts(x["b"]) if x.get("k") == "Bin" and x.get("op") == "=" else None
                if b_ is not None and b_.get("k") == "Bin" and \
                        ((b_.get("op") == "%" and C.const_int(b_["b"]) == 2) or (b_.get("op") == "&" and C.const_int(b_["b"]) == 1)):
                    v = C.strip_casts(C.strip_casts(x["b"])["a"])
                    if v.get("k") == "Bin" and v.get("op") == ">>":
                        v = C.strip_casts(v["a"])             # bit k read as (v >> k) & 1
                    if v.get("k") == "Ref" and "id" in v:
                        target, loop = v, s
            if target is not None:
                break
    if target is None:
        raise AnalysisBroken("%s: the loop that extracts the 31 seed bits was not found" % fn["full"])
    env = {seed[0]["id"]: [(0, TOP, "id", 0)]}
    const_decls = {}
    for s_ in C.walk_stmt(fn["body"]):
        if s_.get("k") == "Decl":
            for d_ in s_["d"]:
                if d_.get("init") is not None and "const" in (d_.get("t") or ""):
                    const_decls[d_["id"]] = d_["init"]

    def lit(e):
        """value of a constant integer expression: literals, + - * << and casts of them"""
        e = C.strip_casts(e)
        v = C.const_int(e)
        if v is not None:
            return v
        if e.get("k") == "Ctor" and len(e.get("a", [])) == 1:
            return lit(e["a"][0])
        if e.get("k") == "Bin" and e.get("op") in ("+", "-", "*", "<<"):
            a, b = lit(e["a"]), lit(e["b"])
            if a is None or b is None:
                return None
            return a + b if e["op"] == "+" else (a - b if e["op"] == "-" else (a * b if e["op"] == "*" else a << b))
        if e.get("k") == "Ref" and e.get("id") in const_decls:
            return lit(const_decls[e["id"]])
        return None

    def value(e):
        e = C.strip_casts(e)
        k = e.get("k")
        if lit(e) is not None:
            return [(0, TOP, "const", lit(e))]
        if k == "Ref" and e.get("id") in env:
            return list(env[e["id"]])
        if k == "Bin" and e.get("op") in ("&", "%") and lit(e["b"]) is not None:
            a, m = value(e["a"]), lit(e["b"])
            out = []
            for lo, hi, kind, off in a:
                if kind == "const":
                    out.append((lo, hi, "const", (off & m) if e["op"] == "&" else (off % m)))
                    continue
                vlo, vhi = lo + off, hi + off
                if e["op"] == "&":
                    if m & (m + 1) == 0 and 0 <= vlo and vhi <= m:
                        out.append((lo, hi, kind, off))
                    else:
                        raise AnalysisBroken("%s: `%s` is not a mask that keeps the seed range" % (fn["full"], C.pretty(e)))
                else:
                    if vlo < 0:
                        raise AnalysisBroken("%s: remainder of a possibly negative value" % fn["full"])
                    cur = lo
                    while cur <= hi:
                        q = (cur + off) // m
                        last = min(hi, (q + 1) * m - 1 - off)
                        if last == cur and (cur + off) % m == 0 and False:
                            pass
                        out.append((cur, last, "id", off - q * m))
                        cur = last + 1
                        if len(out) > 64:
                            raise AnalysisBroken("%s: too many pieces" % fn["full"])
            return out
        if k == "Bin" and e.get("op") in ("+", "-") and lit(e["b"]) is not None:
            d = lit(e["b"]) * (1 if e["op"] == "+" else -1)
            return [(lo, hi, kind, off + d) for lo, hi, kind, off in value(e["a"])]
        if k == "Cond":
            c = C.strip_casts(e["c"])
            if c.get("k") == "Bin" and c.get("op") in ("==", "!=") and lit(c["b"]) is not None:
                eq, ne = split_eq(value(c["a"]), lit(c["b"]))
                t_p, f_p = (eq, ne) if c["op"] == "==" else (ne, eq)
                return clip(value(e["a"]), [(lo, hi) for lo, hi, _, _ in t_p]) + \
                    clip(value(e["b"]), [(lo, hi) for lo, hi, _, _ in f_p])
        raise AnalysisBroken("%s: `%s` is not read by the seed-map evaluation" % (fn["full"], C.pretty(e)[:60]))

    def clip(pcs, dom):
        out = []
        for lo, hi, kind, off in pcs:
            for rlo, rhi in dom:
                a, b = max(lo, rlo), min(hi, rhi)
                if a <= b:
                    out.append((a, b, kind, off))
        return out

    def split_eq(pieces, c):
        """(pieces where value == c, pieces where value != c)"""
        eq, ne = [], []
        for lo, hi, kind, off in pieces:
            if kind == "const":
                (eq if off == c else ne).append((lo, hi, kind, off))
                continue
            s0 = c - off
            if lo <= s0 <= hi:
                eq.append((s0, s0, "const", c))
                if lo <= s0 - 1:
                    ne.append((lo, s0 - 1, kind, off))
                if s0 + 1 <= hi:
                    ne.append((s0 + 1, hi, kind, off))
            else:
                ne.append((lo, hi, kind, off))
        return eq, ne

    def restrict(envx, seeds):
        """environment restricted to the seeds covered by the given pieces"""
        ranges = [(lo, hi) for lo, hi, _, _ in seeds]
        out = {}
        for vid, pcs in envx.items():
            np_ = []
            for lo, hi, kind, off in pcs:
                for rlo, rhi in ranges:
                    a, b = max(lo, rlo), min(hi, rhi)
                    if a <= b:
                        np_.append((a, b, kind, off))
            out[vid] = np_
        return out

    def merge(e1, e2):
        out = {}
        for vid in set(e1) | set(e2):
            out[vid] = sorted(e1.get(vid, []) + e2.get(vid, []))
        return out

    def clip(pcs, dom):
        out = []
        for lo, hi, kind, off in pcs:
            for rlo, rhi in dom:
                a, b = max(lo, rlo), min(hi, rhi)
                if a <= b:
                    out.append((a, b, kind, off))
        return out

    def run(stmts, envx, dom=((0, TOP),)):
        for s in stmts:
            if s is loop:
                return envx, True
            k = s.get("k")
            if k == "Block":
                envx, done = run(s["s"], envx, dom)
                if done:
                    return envx, True
            elif k == "Decl":
                for d in s["d"]:
                    if d.get("init") is not None:
                        env_backup = dict(env)
                        env.clear(); env.update(envx)
                        envx = dict(envx)
                        envx[d["id"]] = clip(value(d["init"]), dom)
                        env.clear(); env.update(env_backup)
            elif k == "Bin" and s.get("op") == "=" and C.strip_casts(s["a"]).get("k") == "Ref":
                env_backup = dict(env)
                env.clear(); env.update(envx)
                envx = dict(envx)
                envx[C.strip_casts(s["a"])["id"]] = clip(value(s["b"]), dom)
                env.clear(); env.update(env_backup)
            elif k == "If":
                c = C.strip_casts(s["c"])
                if not (c.get("k") == "Bin" and c.get("op") in ("==", "!=") and C.strip_casts(c["a"]).get("k") == "Ref" and
                        lit(c["b"]) is not None and C.strip_casts(c["a"]).get("id") in envx):
                    raise AnalysisBroken("%s: condition `%s` is not read by the seed-map evaluation" % (fn["full"], C.pretty(c)[:60]))
                eq, ne = split_eq(envx[C.strip_casts(c["a"])["id"]], lit(c["b"]))
                t_p, f_p = (eq, ne) if c["op"] == "==" else (ne, eq)
                d_t = [(lo, hi) for lo, hi, _, _ in t_p]
                d_f = [(lo, hi) for lo, hi, _, _ in f_p]
                e_t, _ = run([s["th"]], restrict(envx, t_p), d_t) if t_p else ({}, False)
                e_f, _ = (run([s["el"]], restrict(envx, f_p), d_f) if s.get("el") is not None else (restrict(envx, f_p), False)) if f_p else ({}, False)
                envx = merge(e_t, e_f)
            elif k in ("Null",):
                continue
            elif k == "Decl":
                continue
            else:
                # statements that do not touch the tracked integers (double locals etc.)
                touched = {C.strip_casts(x["a"]).get("id") for x in C.walk_stmt(s) if x.get("k") == "Bin" and
                           x.get("op", "").endswith("=") and x["op"] not in ("==", "!=", "<=", ">=")}
                if touched & set(envx):
                    raise AnalysisBroken("%s: statement at line %s is not read by the seed-map evaluation" % (fn["full"], s.get("l")))
        return envx, False

    final, found = run(fn["body"]["s"], dict(env))
    if not found or target["id"] not in final:
        raise AnalysisBroken("%s: the value whose bits seed the generator has no definition in front of the loop" % fn["full"])
    pieces = sorted(final[target["id"]])
    covered = sum(hi - lo + 1 for lo, hi, _, _ in pieces)
    if covered != TOP + 1:
        raise AnalysisBroken("%s: the seed map is defined for %d of %d seeds" % (fn["full"], covered, TOP + 1))
    # injectivity: value intervals pairwise disjoint, except {0, 1} -> 1
    ivs = []
    for lo, hi, kind, off in pieces:
        ivs.append(((off, off) if kind == "const" else (lo + off, hi + off), (lo, hi), kind))
    clash = None
    for i in range(len(ivs)):
        (a1, b1), (s1lo, s1hi), k1 = ivs[i]
        if k1 == "const" and s1hi > s1lo and clash is None:
            clash = (s1lo, s1lo + 1, a1)
        for j in range(i + 1, len(ivs)):
            (a2, b2), (s2lo, s2hi), k2 = ivs[j]
            lo_, hi_ = max(a1, a2), min(b1, b2)
            if lo_ <= hi_:
                v = lo_
                sa = s1lo if k1 == "const" else v - (a1 - s1lo)
                sb = s2lo if k2 == "const" else v - (a2 - s2lo)
                if {sa, sb} == {0, 1} and v == 1:
                    if hi_ > lo_:
                        v = lo_ + 1
                        sa = s1lo if k1 == "const" else v - (a1 - s1lo)
                        sb = s2lo if k2 == "const" else v - (a2 - s2lo)
                    else:
                        continue
                if clash is None:
                    clash = (sa, sb, v)
    chk.require(clash is None, "X9", "set_seed maps different seeds in 0 .. 2^31-1 to different bit patterns (0 is treated as 1)",
                where(loop, fn), "seeds %s and %s both give the generator the bit pattern of %s: two seeds, one stream" %
                ((clash or (0, 0, 0))[0], (clash or (0, 0, 0))[1], (clash or (0, 0, 0))[2]), function=fn["full"],
                construct="seed map injective")
    return 1
