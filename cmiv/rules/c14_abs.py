"""C14-U6: rename-before-truncate under the class invariant of the manager's counters.

An abstract interpreter over the finite domain {0, 1, >=2} for the unsigned counters of RestartManager (maximum number of
backups, number of backups, number of restarts) and the integer locals of get_restart_writer (the shift-loop counter):

  1. the set of counter states in which get_restart_writer can be entered is computed as a least fixpoint: the
     constructor's initial values (literals in its member initialisers; the maximum is any class), then the abstract effect of
     get_restart_writer itself, until nothing new appears (at most 27 states).  No other method writes the counters (checked);
  2. from every such entry state every path to the truncating open is followed, loops included (the counter classes make
     the state space finite), with comparisons, min / max, +-1 evaluated on classes (a comparison between two ">= 2" values
     forks both ways), and with the names handed to rename() resolved through their declarations - a conditional
     expression selecting the dump name is decided on the class of the loop counter;
  3. required at the open: if backups are configured (maximum >= 1) and a previous dump exists (restarts >= 1) the dump name
     has been renamed exactly once on that path, otherwise not at all.

This decides what U2 decides for the plain form (a rename guarded directly by the restart counter) and also the forms in
which the rename of the dump is folded into the shift loop, where whether the loop body runs depends on how the backup
counter relates to the restart counter across calls - which is what the fixpoint of step 1 supplies.
"""
from .. import cfg as C
from ..astdb import AnalysisBroken, where

TOP = (0, 1, 2)
NAMES = {0: "0", 1: "1", 2: ">= 2"}


def cap(v):
    return 2 if v >= 2 else v


class Abs14:
    def __init__(self, fn, g, members, dump_local, root_local, rename_calls, open_node):
        self.fn, self.g = fn, g
        self.members = members            # role -> ref_key of the member
        self.keys = {v: k for k, v in members.items()}
        self.dump_id = dump_local["id"]
        self.root_local = root_local
        self.renames = {id(n): x for n, x in rename_calls}
        self.rename_nodes = {n.id: x for n, x in rename_calls}
        self.open_node = open_node
        # string locals and their initialisers
        self.inits = {}
        for node in g.nodes:
            if node.kind == "decl":
                for d in node.ast["d"]:
                    if d.get("init") is not None:
                        self.inits[d["id"]] = d["init"]

    # ---- values --------------------------------------------------------------------------------
    def aval(self, e, vals):
        """Set of classes an unsigned integer expression can take."""
        e = C.strip_casts(e)
        if e is None:
            return set(TOP)
        k = e.get("k")
        ci = C.const_int(e)
        if ci is not None:
            return {cap(ci)} if ci >= 0 else set(TOP)
        if k in ("Ref", "Mem"):
            key = C.ref_key(e)
            if key in vals:
                return {vals[key]}
            return set(TOP)
        if k == "Bin" and e["op"] in ("+", "-"):
            a = self.aval(e["a"], vals)
            c = C.const_int(e["b"])
            if c is None or c < 0 or c > 2:
                b = self.aval(e["b"], vals)
                if e["op"] == "+":
                    return {cap(x + y) for x in a for y in b}
                return set(TOP)
            out = set()
            for x in a:
                if e["op"] == "+":
                    out.add(cap(x + c))
                elif c == 0:
                    out.add(x)
                elif x == 2:
                    out |= ({1, 2} if c == 1 else {0, 1, 2})
                elif x >= c:
                    out.add(x - c)
                else:
                    out |= set(TOP)       # wraps (U1's business); any value
            return out
        if k == "Call":
            base = (e.get("fn") or e.get("n") or "").split("::")[-1]
            if base in ("min", "max") and len(e["a"]) == 2:
                a, b = self.aval(e["a"][0], vals), self.aval(e["a"][1], vals)
                f = min if base == "min" else max
                out = set()
                for x in a:
                    for y in b:
                        if x == 2 and y == 2:
                            out.add(2)
                        else:
                            out.add(f(x, y))
                return out
        if k == "Cond":
            out = set()
            for t in self.acond(e["c"], vals):
                out |= self.aval(e["a"] if t else e["b"], vals)
            return out
        return set(TOP)

    def acond(self, e, vals):
        """Set of truth values of a condition."""
        e = C.strip_casts(e)
        k = e.get("k")
        if k == "Bool":
            return {bool(e["v"])}
        if k == "Un" and e["op"] == "!":
            return {not t for t in self.acond(e["x"], vals)}
        if k == "Bin" and e["op"] in ("&&", "||"):
            a, b = self.acond(e["a"], vals), self.acond(e["b"], vals)
            out = set()
            for x in a:
                if e["op"] == "&&":
                    out |= (b if x else {False})
                else:
                    out |= ({True} if x else b)
            return out
        if k == "Bin" and e["op"] in ("<", ">", "<=", ">=", "==", "!="):
            a, b = self.aval(e["a"], vals), self.aval(e["b"], vals)
            out = set()
            for x in a:
                for y in b:
                    if x == 2 and y == 2:
                        out |= {True, False}
                    else:
                        # class 2 stands for every value >= 2; against 0 or 1 every comparison is decided by 2 itself,
                        # except equality with 2-vs-2 handled above
                        out.add({"<": x < y, ">": x > y, "<=": x <= y, ">=": x >= y, "==": x == y, "!=": x != y}[e["op"]])
            return out
        if k in ("Ref", "Mem"):
            return {v != 0 for v in self.aval(e, vals)}
        return {True, False}

    def is_dump_name(self, e, vals, depth=0):
        """Set of truth values of `this string expression is the dump file name`."""
        if depth > 6:
            return {True, False}
        loc = self.root_local(e)
        if loc is None:
            return {False}
        if loc["id"] == self.dump_id:
            return {True}
        init = self.inits.get(loc["id"])
        if init is None:
            return {False}
        i0 = C.strip_casts(init)
        while i0 is not None and i0.get("k") == "Ctor" and len(i0["a"]) == 1:
            i0 = C.strip_casts(i0["a"][0])
        if i0 is not None and i0.get("k") == "Cond":
            out = set()
            for t in self.acond(i0["c"], vals):
                out |= self.is_dump_name(i0["a"] if t else i0["b"], vals, depth + 1)
            return out
        if i0 is not None and i0.get("k") == "Ref" and "id" in i0:
            return self.is_dump_name(i0, vals, depth + 1)
        if i0 is not None and any(x.get("k") == "Ref" and x.get("id") == self.dump_id for x in C.walk(i0)) and \
                not any(x.get("k") == "Str" for x in C.walk(i0)):
            return {True}
        return {False}

    # ---- transfer ------------------------------------------------------------------------------
    def transfer(self, node, st):
        vals, ren, opened = dict(st[0]), st[1], st[2]
        ast = node.ast

        def pack(v=vals, r=ren, o=opened):
            return (tuple(sorted(v.items(), key=repr)), r, o)
        if node.id in self.rename_nodes:
            x = self.rename_nodes[node.id]
            outs = []
            for t in self.is_dump_name(x["a"][0], vals):
                ns = pack(r=min(ren + 1, 2) if t else ren)
                if node.kind == "branch":
                    outs += [(True, ns), (False, ns)]      # the result of rename() is not modelled: both outcomes
                else:
                    outs.append((None, ns))
            return outs
        if node.kind == "branch" and ast.get("k") != "RangeHasNext":
            outs = self.acond(ast, vals)
            return [(t, st) for t in outs]
        if node.kind == "branch":
            return [(True, st), (False, st)]
        if node is self.open_node:
            return [(None, pack(o=True))]
        if node.kind in ("stmt", "decl", "init", "return") and ast is not None and ast.get("k") != "Abort":
            body = ast.get("x") if node.kind == "init" and "x" in ast else ast
            states = [vals]
            if body.get("k") == "Decl":
                for d in body["d"]:
                    t = (d.get("t") or "").replace("const ", "").strip()
                    if d.get("init") is not None and ("unsigned" in t or t in ("int", "long", "short")):
                        new = []
                        for v in states:
                            for c in self.aval(d["init"], v):
                                v2 = dict(v)
                                v2[("local", d["id"], d["n"])] = c
                                new.append(v2)
                        states = new
            else:
                for x in C.walk(body):
                    kk = x.get("k")
                    key = None
                    if kk == "Un" and x["op"] in ("pre++", "post++", "pre--", "post--"):
                        key = C.ref_key(x["x"])
                        if key in vals:
                            new = []
                            for v in states:
                                cur = v[key]
                                if "++" in x["op"]:
                                    nxt = [cap(cur + 1)]
                                elif cur == 2:
                                    nxt = [1, 2]
                                elif cur == 1:
                                    nxt = [0]
                                else:
                                    nxt = list(TOP)
                                for c in nxt:
                                    v2 = dict(v)
                                    v2[key] = c
                                    new.append(v2)
                            states = new
                    elif kk == "Bin" and x["op"] in ("=", "+=", "-="):
                        key = C.ref_key(x["a"])
                        if key in vals:
                            new = []
                            for v in states:
                                if x["op"] == "=":
                                    cs = self.aval(x["b"], v)
                                else:
                                    cs = self.aval({"k": "Bin", "op": x["op"][0], "a": x["a"], "b": x["b"]}, v)
                                for c in cs:
                                    v2 = dict(v)
                                    v2[key] = c
                                    new.append(v2)
                            states = new
            return [(None, pack(v=v)) for v in states]
        return [(None, st)]


def rule_U6(chk, u, fn, g, dump_local, root_local, rename_calls, open_node, open_x):
    cls = fn.get("cls")
    # the counters: members compared / updated in the function, classified by their role through the constructor
    ctor = [m for m in u.methods_of(cls) if m.get("ctor") and not m.get("delegating") and not m.get("copyctor") and m.get("inits")]
    if not ctor:
        raise AnalysisBroken("RestartManager constructor with member initialisers not found")
    ctor = ctor[0]
    init_vals = {}
    for ini in ctor["inits"]:
        if ini.get("x") is None or not ini.get("member"):
            continue
        c = C.const_int(ini["x"])
        key = ("mem", ("this",), ini["member"])
        t = None
        if c is not None and c >= 0:
            init_vals[key] = {cap(c)}
        else:
            init_vals[key] = set(TOP)
    # unsigned integer members touched by the function
    used = set()
    for node in g.nodes:
        if node.ast is None:
            continue
        for x in C.walk(node.ast if not (node.kind == "init" and "x" in node.ast) else node.ast["x"]):
            if x.get("k") == "Mem" and C.member_name(x) and "unsigned" in (x.get("t") or ""):
                used.add(("mem", ("this",), x["n"]))
    tracked = sorted(k for k in used if k in init_vals)
    if len(tracked) < 2:
        raise AnalysisBroken("get_restart_writer: the counters of the rotation were not found (%s)" % sorted(used))
    # nobody else writes them
    for m in u.methods_of(cls):
        if m is fn or m.get("ctor") or not m.get("body"):
            continue
        if m["full"] == fn["full"]:
            continue
        for x in C.walk_stmt(m["body"]):
            key = None
            if x.get("k") == "Bin" and x.get("op", "").endswith("=") and x["op"] not in ("==", "!=", "<=", ">="):
                key = C.ref_key(x["a"])
            elif x.get("k") == "Un" and x.get("op") in ("pre++", "post++", "pre--", "post--"):
                key = C.ref_key(x["x"])
            if key in tracked:
                raise AnalysisBroken("%s also writes %s: the counter invariant of U6 does not cover it" % (m["full"], key[-1]))
    const_members = set()
    # which tracked member is never written by the function: the configured maximum
    written = set()
    for node in g.nodes:
        if node.ast is None:
            continue
        body = node.ast if not (node.kind == "init" and "x" in node.ast) else node.ast["x"]
        for x in C.walk(body):
            if x.get("k") == "Bin" and x.get("op", "").endswith("=") and x["op"] not in ("==", "!=", "<=", ">="):
                written.add(C.ref_key(x["a"]))
            elif x.get("k") == "Un" and x.get("op") in ("pre++", "post++", "pre--", "post--"):
                written.add(C.ref_key(x["x"]))
    maxima = [k for k in tracked if k not in written]
    counters = [k for k in tracked if k in written]
    # the restart counter: incremented on every path to the exit (counts the dumps); the other written one counts backups
    interp = Abs14(fn, g, {}, dump_local, root_local, rename_calls, open_node)

    def run_from(entry_vals):
        st0 = (tuple(sorted(entry_vals.items(), key=repr)), 0, False)
        return C.explore(g, st0, interp.transfer, max_states=200000)
    # step 1: reachable entry states
    import itertools
    seeds = []
    for combo in itertools.product(*[sorted(init_vals[k]) for k in tracked]):
        seeds.append(dict(zip(tracked, combo)))
    reach = []
    work = list(seeds)
    seen = set()
    explorations = {}
    while work:
        ev = work.pop()
        sig = tuple(sorted(ev.items(), key=repr))
        if sig in seen:
            continue
        seen.add(sig)
        reach.append(ev)
        ex = run_from(ev)
        explorations[sig] = ex
        for st in ex.at.get(g.exit.id, ()):
            vals = dict(st[0])
            nxt = {k: vals[k] for k in tracked}
            if tuple(sorted(nxt.items(), key=repr)) not in seen:
                work.append(nxt)
    # which counter counts dumps: the one that is larger by one (class-wise) at every exit than at entry
    dump_counter = None
    for k in counters:
        ok = True
        for ev in reach:
            ex = explorations[tuple(sorted(ev.items(), key=repr))]
            for st in ex.at.get(g.exit.id, ()):
                if dict(st[0])[k] != cap(ev[k] + 1):
                    ok = False
        if ok:
            dump_counter = k if dump_counter is None else dump_counter
    if dump_counter is None or len(maxima) != 1:
        raise AnalysisBroken("get_restart_writer: cannot tell the dump counter (incremented on every call) and the configured "
                             "maximum (never written) among %s" % [k[-1] for k in tracked])
    mxk = maxima[0]
    n = 0
    for ev in sorted(reach, key=lambda d: sorted(d.items(), key=repr).__repr__()):
        ex = explorations[tuple(sorted(ev.items(), key=repr))]
        sts = ex.at.get(open_node.id, set())
        want = 1 if (ev[mxk] >= 1 and ev[dump_counter] >= 1) else 0
        bad = [st for st in sts if st[1] != want or st[2]]
        n += 1
        others = ", ".join("%s %s" % (k[-1].lstrip("_").replace("_", " "), NAMES[ev[k]]) for k in tracked)
        chk.require(bool(sts) and not bad, "U6", "reachable state [%s]: the previous dump is renamed %s before the truncating open" %
                    (others, "exactly once" if want else "never (there is none, or no backups are configured)"),
                    where(open_x, fn), ("on the path through lines %s the dump name is renamed %s time(s) before the open; "
                                        "expected %d. This state is reachable: the counters start at %s and evolve by the function "
                                        "itself" % (ex.path_lines(open_node.id, bad[0]), bad[0][1], want,
                                                    {k[-1]: sorted(v) for k, v in init_vals.items() if k in tracked}))
                    if bad else "the open is not reached", function=fn["qname"], construct="rename before truncate [%s]" % others)
    chk.note("U6: %d reachable counter states out of %d" % (len(reach), 3 ** len(tracked)))
    return n
