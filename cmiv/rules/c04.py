"""C04 - a hydro step conserves mass, momentum and energy and keeps states physical.

Decides (DESIGN.md C04), for every state and every limiter outcome:
 F1 what the left cell loses across a face the right cell gains: the five updates of
    delta_conserved are equal and opposite, and nothing else in either state is written;
 F2 all five fluxes carry the same scaling (face area, flux limiter) relative to the Riemann output;
 F3 every interior face is visited exactly once (shared with C10-S1/S2);
 F4 the positivity safeguard is on every final write of mass / energy / density / pressure;
 F5 a boundary (ghost) flux changes only the inside cell;
 F6 the read-modify-write updates of F1 are never concurrent on one subgrid (C07 rules G4, G8 re-checked);
 F7 for a mirror pair of face states the HLLC mass and energy flux vanish on every branch that gas moving into a wall with
    Mach number <= 1.5 can take, for gamma in (1, 2] (decision tree specialised to the mirror pair; branch-and-bound
    interval evaluation of the branch conditions; c04_wall.py);
 F8 the ghost state of ReflectiveHydroBoundary is the mirror image of the wall cell.
Finiteness, the size of the round-off and the symmetry of the second-order face reconstruction at a wall are not decided.
"""
import sympy as sp

from .. import cfg as C
from ..astdb import AnalysisBroken, where
from ..phieval import PhiEval


def deltas(pe, state):
    out = {}
    for k, v in pe.env.items():
        if k[0] == "acc" and k[1] == ("l", state):
            init = sp.Symbol(pe.keyname(k) + "@0", real=True)
            out[(k[2],) + tuple(k[3:])] = sp.expand(v.e - init)
    return out


def solver_outputs(pe):
    """Symbols standing for the raw fluxes returned by the Riemann solver, in order m, p0, p1, p2, E."""
    syms = set()
    for k, v in pe.env.items():
        if k[0] == "acc":
            syms |= {s for s in v.e.free_symbols if s.name.startswith("solve_for_flux.")}
    names = sorted(s.name for s in syms)
    m = [s for s in syms if "flux[" not in s.name]
    p = sorted([s for s in syms if "flux[" in s.name], key=lambda s: s.name)
    if len(m) != 2 or len(p) != 3:
        raise AnalysisBroken("cannot identify the five Riemann fluxes (found %s)" % names)
    # mass before energy: by argument order of the call (mflux, pflux, Eflux)
    return m, p


def run(chk, prog):
    chk.explanation = (
        "The flux application code is evaluated to closed-form formulas (forward substitution; every `if` merges into "
        "opaque phi symbols, so the result holds for every limiter outcome): the five updates of the left and the right "
        "cell cancel exactly, all five carry the same factor relative to the Riemann solver's output, boundary fluxes touch "
        "only the inside cell, and the final writes of mass, energy, density and pressure are max(.,0) clamps or "
        "non-negative by construction on every path. With C10 (each face once) this is conservation up to round-off "
        "wherever the safeguard does not intervene. At a reflecting wall the ghost state is the mirror image of the wall cell, "
        "and for a mirror pair the HLLC mass and energy flux are identically zero on every branch of the solver that can be "
        "taken for a wall-normal Mach number in [0, 1.5] and gamma in (1, 2] (the other branches are excluded by outward-"
        "rounded interval evaluation of their conditions on a subdivided box). Finiteness is numeric and not decided.")
    u = prog.umbrella
    chk.analysed(unit="umbrella")
    n = 0
    # ---- F1 / F2 ---------------------------------------------------------------------------------
    fn = u.func("Hydro::do_flux_calculation")
    chk.analysed(function=fn["full"])
    pe = PhiEval(fn)
    pe.stmt(fn["body"])
    pnames = [p["n"] for p in fn["params"]]
    states = [p["n"] for p in fn["params"] if "HydroVariables" in p["t"]]
    if len(states) != 2:
        raise AnalysisBroken("do_flux_calculation: expected two HydroVariables parameters")
    L, R = deltas(pe, states[0]), deltas(pe, states[1])
    written = {k[0] for k in list(L) + list(R) if (L.get(k, 0) != 0 or R.get(k, 0) != 0)}
    n += 1
    chk.require(written == {"delta_conserved"}, "F1", "a face flux only changes the flux accumulators of its two cells",
                where(fn), "do_flux_calculation writes %s of the cell states" % sorted(written), function=fn["full"],
                construct="written state")
    raw = None
    ratios = []
    for k in range(5):
        key = ("delta_conserved", k)
        l, r = L.get(key, sp.Integer(0)), R.get(key, sp.Integer(0))
        n += 1
        chk.require(r != 0 and sp.expand(l + r) == 0, "F1",
                    "what the left cell loses in conserved quantity %d the right cell gains" % k, where(fn),
                    "left update %s, right update %s: their sum is %s, not 0 (for some limiter outcome the step "
                    "creates or destroys this quantity)" % (l, r, sp.factor(sp.expand(l + r))), function=fn["full"],
                    construct="antisymmetry %d" % k)
        outs = sorted([s for s in r.free_symbols if s.name.startswith("solve_for_flux.")], key=lambda s: s.name)
        if len(outs) == 1:
            ratios.append((k, sp.simplify(r / outs[0]), outs[0]))
        else:
            ratios.append((k, None, None))
    used = [str(o) for _, _, o in ratios]
    n += 1
    chk.require(all(o is not None for _, _, o in ratios) and len(set(used)) == 5, "F2",
                "each conserved quantity receives its own Riemann flux component", where(fn),
                "flux components used: %s" % used, function=fn["full"], construct="flux components")
    facs = {str(f) for _, f, _ in ratios}
    n += 1
    chk.require(len(facs) == 1 and None not in [f for _, f, _ in ratios], "F2",
                "all five fluxes carry the same area / limiter factor", where(fn),
                "factors relative to the Riemann output: %s: a limiter that scales one flux only breaks the "
                "consistency of mass, momentum and energy" % {k: str(f) for k, f, _ in ratios}, function=fn["full"],
                construct="common scaling")
    # ---- F5 ---------------------------------------------------------------------------------
    gfn = u.func("Hydro::do_ghost_flux_calculation")
    chk.analysed(function=gfn["full"])
    pg = PhiEval(gfn)
    pg.stmt(gfn["body"])
    gstates = [p["n"] for p in gfn["params"] if "HydroVariables" in p["t"]]
    GL = deltas(pg, gstates[0])
    other = {k for k in pg.env if k[0] == "acc" and k[1] != ("l", gstates[0]) and k[2] in ("delta_conserved", "conserved")}
    gfac = set()
    for k in range(5):
        v = GL.get(("delta_conserved", k), sp.Integer(0))
        outs = [s for s in v.free_symbols if s.name.startswith("solve_for_flux.")]
        n += 1
        chk.require(v != 0 and len(outs) == 1 and sp.simplify(v / outs[0]).could_extract_minus_sign(), "F5",
                    "a boundary flux removes conserved quantity %d from the inside cell" % k, where(gfn),
                    "update is %s" % v, function=gfn["full"], construct="ghost update %d" % k)
        if len(outs) == 1:
            gfac.add(str(sp.simplify(v / outs[0])))
    n += 1
    chk.require(len(gfac) == 1, "F2", "all five boundary fluxes carry the same factor", where(gfn),
                "factors: %s" % sorted(gfac), function=gfn["full"], construct="ghost common scaling")
    # ---- F4 ---------------------------------------------------------------------------------
    hu = u.func("HydroDensitySubGrid::update_conserved_variables")
    chk.analysed(function=hu["full"])
    loops = [s for s in hu["body"]["s"] if s.get("k") == "For"]
    if len(loops) != 1:
        raise AnalysisBroken("update_conserved_variables: expected one cell loop")
    ph = PhiEval(hu)
    for s in hu["body"]["s"]:
        if s.get("k") == "Decl":
            ph.stmt(s)
    lv = loops[0]["init"]["d"][0]["n"]
    ph.env[("l", lv)] = __import__("cmiv.phieval", fromlist=["Val"]).Val(sp.Symbol("cell", integer=True), True)
    ph.stmt(loops[0]["body"])
    finals = {}
    for k, v in ph.env.items():
        if k[0] == "acc" and k[2] == "conserved":
            finals[k[3]] = v
    for comp, what in ((0, "mass"), (4, "total energy")):
        v = finals.get(comp)
        n += 1
        chk.require(v is not None and v.nn, "F4", "the conserved %s ends every update clamped to >= 0" % what, where(hu),
                    "the last write of conserved(%d) is %s, which is not a max(., 0) clamp on every path (asserts are "
                    "compiled out)" % (comp, v.e if v is not None else None), function=hu["full"],
                    construct="clamp conserved %d" % comp)
    for name, setters in (("set_primitive_variables", ("set_primitives_density", "set_primitives_pressure")),
                          ("set_conserved_variables", ("set_conserved_mass", "set_conserved_total_energy"))):
        f = u.func("Hydro::" + name)
        chk.analysed(function=f["full"])
        pv = PhiEval(f)
        vals = {}
        # evaluate statements; at each setter call record the argument's flag
        def visit(s):
            if s.get("k") == "Block" and s.get("mac") not in C.ABORT_MACROS:
                for c in s["s"]:
                    visit(c)
                return
            e = C.strip_casts(s)
            if C.is_call(e) and e.get("n") in setters:
                vals[e["n"]] = pv.val(e["a"][0])
                return
            pv.stmt(s)
        visit(f["body"])
        for st in setters:
            v = vals.get(st)
            n += 1
            chk.require(v is not None and v.nn, "F4", "%s passes a value clamped to >= 0 to %s" % (name, st), where(f),
                        "the value given to %s is %s: not non-negative by construction on every path" %
                        (st, v.e if v is not None else "never set"), function=f["full"], construct="clamp %s" % st)
    chk.floor("F", n, 20)
    # F6: the equal-and-opposite updates of F1 are read-modify-write operations on both cells: they only add up when no two
    # tasks touch one subgrid at the same time.  The exclusivity / ordering premises of the task graph (C07) are re-checked
    # here, as C10 does, so that a lock dropped from a flux task is reported against conservation as well.
    from ..report import Check
    from . import c07
    sub = Check("C07", "embedded", "other")
    c07.run(sub, prog)
    no = 0
    for o in sub.obligations:
        if o["rule"] in ("G4", "G8"):
            no += 1
            if o["verdict"] == "VIOLATED":
                chk.fail("F6-" + o["rule"], o["instance"], o["where"], o["detail"], function=o.get("function", ""),
                         construct=o.get("construct", ""))
    chk.ok("F6", "every hydro task holds the lock of each subgrid it updates and is ordered against the other phases "
           "(%d C07 obligations G4, G8 re-checked)" % no, "src/TaskBasedRadiationHydrodynamicsSimulation.cpp")
    chk.floor("F6", no, 1000)

    # F9: the equal-and-opposite updates only add up if nothing in the flux phase but the accumulations themselves touches the
    # accumulators (C10 rule S5 re-checked for the flux phase): a sweep that resets them wipes the half of an exchange that
    # an earlier sweep has deposited
    from . import c10_commute
    sub5 = Check("C10", "embedded", "other")
    c10_commute.rule_S5(sub5, prog.library())
    n9 = 0
    for o in sub5.obligations:
        if o["rule"] == "S5" and "flux phase" in o["instance"]:
            n9 += 1
            if o["verdict"] == "VIOLATED":
                chk.fail("F9-S5", o["instance"], o["where"], o["detail"], function=o.get("function", ""),
                         construct=o.get("construct", ""))
    chk.ok("F9", "within the flux phase the accumulators are only accumulated into (%d C10 obligations S5 re-checked)" % n9,
           "src/HydroDensitySubGrid.hpp")
    chk.floor("F9", n9, 4)
    # F9: the equal-and-opposite updates only add up if nothing in the flux phase but the accumulations themselves touches the
    # accumulators (C10 rule S5 re-checked for the flux phase): a sweep that resets them wipes the half of an exchange that
    # an earlier sweep has deposited
    from . import c10_commute
    sub5 = Check("C10", "embedded", "other")
    c10_commute.rule_S5(sub5, prog.library())
    n9 = 0
    for o in sub5.obligations:
        if o["rule"] == "S5" and "flux phase" in o["instance"]:
            n9 += 1
            if o["verdict"] == "VIOLATED":
                chk.fail("F9-S5", o["instance"], o["where"], o["detail"], function=o.get("function", ""),
                         construct=o.get("construct", ""))
    chk.ok("F9", "within the flux phase the accumulators are only accumulated into (%d C10 obligations S5 re-checked)" % n9,
           "src/HydroDensitySubGrid.hpp")
    chk.floor("F9", n9, 4)
    # F7 / F8: the reflecting-wall clause as far as it is algebra (c04_wall.py)
    # the ghost state is the mirror image, and
    # for a mirror pair the HLLC mass and energy flux vanish on every branch reachable with a wall-normal Mach number
    # in [0, 1.5] for gamma in (1, 2]
    from . import c04_wall
    n8 = c04_wall.rule_F8(chk, u)
    chk.floor("F8", n8, 45)
    n7 = c04_wall.rule_F7(chk, u)
    chk.floor("F7", n7, 20)
