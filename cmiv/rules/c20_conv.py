"""C20-K6: the two directions of a cross-quantity conversion (energy <-> frequency, wavelength <-> frequency) are inverse.

UnitConverter::try_conversion registers conversions B = fac * A^pow and implements both directions.  "Converting a value to
SI and back returns it" needs reverse(forward(v; from=u1, to=u2); from=u2, to=u1) = v for every registered power and all
unit factors.  Both branches are executed symbolically for each registered (concrete, literal) power - the power loops run
on concrete counters, the value and the unit factors stay symbolic - and the composition is compared with v by a CAS
normal form over positive reals."""
import sympy as sp

from .. import cfg as C
from ..astdb import AnalysisBroken, where
from ..sym import Converter, Env


class Ret(Exception):
    def __init__(self, v):
        self.v = v


def rule_K6(chk, u):
    fn = u.func("UnitConverter::try_conversion")
    chk.analysed(function=fn["full"])
    ps = fn["params"]
    if len(ps) != 3:
        raise AnalysisBroken("try_conversion: unexpected signature")
    vpar, fpar, tpar = ps
    # registered powers and the vectors
    vec_kind = {}      # local id -> "pow" | "fac" | "A" | "B"
    pows = []
    for st in C.walk_stmt(fn["body"]):
        if st.get("k") == "Decl":
            for d in st["d"]:
                t = d.get("t") or ""
                if t.startswith("std::vector<"):
                    el = t[len("std::vector<"):].split(",")[0].rstrip(">").strip()
                    if el == "double":
                        vec_kind[d["id"]] = "fac"
                    elif el in ("long", "int", "short", "long long", "signed char"):
                        vec_kind[d["id"]] = "pow"
                    elif "Quantity" in el:
                        vec_kind[d["id"]] = "A" if not any(v == "A" for v in vec_kind.values()) else "B"
        if C.is_call(st, name="push_back") and st.get("obj") is not None and st["a"]:
            o = C.strip_casts(st["obj"])
            if o.get("k") == "Ref" and vec_kind.get(o.get("id")) == "pow":
                a = st["a"][0]
                while C.strip_casts(a).get("k") == "Ctor" and len(C.strip_casts(a)["a"]) == 1:
                    a = C.strip_casts(a)["a"][0]
                p = C.const_int(a)
                if p is None:
                    raise AnalysisBroken("try_conversion: a registered power is not a literal (line %s)" % st.get("l"))
                pows.append(p)
    if not pows or "fac" not in vec_kind.values():
        raise AnalysisBroken("try_conversion: registered conversions not found")
    loops = [s_ for s_ in fn["body"]["s"] if s_.get("k") == "For" and not s_.get("mac")]
    if len(loops) != 1:
        raise AnalysisBroken("try_conversion: expected one loop over the registered conversions")
    body = loops[0]["body"]
    stmts = body["s"] if body.get("k") == "Block" else [body]
    # locals naming the SI unit of the A / B quantity
    side = {}
    for st in stmts:
        if st.get("k") == "Decl":
            for d in st["d"]:
                if d.get("init") is not None:
                    for x in C.walk(d["init"]):
                        if x.get("k") == "Ref" and vec_kind.get(x.get("id")) in ("A", "B"):
                            side[d["id"]] = vec_kind[x["id"]]
    branches = {}
    for st in stmts:
        if st.get("k") != "If":
            continue
        frm = None
        for x in C.walk(st["c"]):
            if C.is_call(x, name="is_same_quantity") and x.get("obj") is not None and \
                    C.strip_casts(x["obj"]).get("id") == fpar["id"] and x["a"]:
                a = C.strip_casts(x["a"][0])
                while a.get("k") == "Ctor" and len(a["a"]) == 1:
                    a = C.strip_casts(a["a"][0])
                frm = side.get(a.get("id"))
        if frm == "A":
            branches["forward"] = st
        elif frm == "B":
            branches["reverse"] = st
    if set(branches) != {"forward", "reverse"}:
        raise AnalysisBroken("try_conversion: forward / reverse branches not identified (%s)" % sorted(branches))
    v, f, t, fac = (sp.Symbol(n, positive=True) for n in ("v", "u_from", "u_to", "fac"))

    def execute(branch, p):
        def atoms(key, e):
            e0 = C.strip_casts(e)
            if e0.get("k") == "Call" and e0.get("op") == "[]" and e0.get("obj") is not None:
                o = C.strip_casts(e0["obj"])
                kind = vec_kind.get(o.get("id"))
                if kind == "pow":
                    return sp.Integer(p)
                if kind == "fac":
                    return fac
            if e0.get("k") == "Ref":
                if e0.get("id") == vpar["id"]:
                    return v
                if e0.get("id") == fpar["id"]:
                    return f
                if e0.get("id") == tpar["id"]:
                    return t
            return None
        conv = Converter(atoms=atoms, positive_atoms=True)
        env = Env()

        def truth(e):
            c = conv.conv(e, env)
            if c in (sp.true, True):
                return True
            if c in (sp.false, False):
                return False
            c2 = sp.simplify(c)
            if c2 in (sp.true, sp.false):
                return c2 == sp.true
            raise AnalysisBroken("try_conversion: condition `%s` is not decided for power %d" % (C.pretty(e), p))

        def run(ss, depth=0):
            for st in ss:
                k = st.get("k")
                if k == "Block":
                    if not st.get("mac"):
                        run(st["s"], depth)
                elif k == "Decl":
                    for d in st["d"]:
                        if d.get("init") is not None:
                            env.vals[("l", d["id"])] = conv.conv(d["init"], env)
                elif k == "Bin" and st["op"] in ("=", "*=", "/=", "+=", "-=") and C.strip_casts(st["a"]).get("k") == "Ref":
                    key = ("l", C.strip_casts(st["a"])["id"])
                    val = conv.conv(st["b"], env)
                    old = env.vals.get(key)
                    env.vals[key] = {"=": val, "*=": old * val if old is not None else None,
                                     "/=": old / val if old is not None else None,
                                     "+=": old + val if old is not None else None,
                                     "-=": old - val if old is not None else None}[st["op"]]
                elif k == "Un" and st["op"] in ("pre++", "post++", "pre--", "post--"):
                    key = ("l", C.strip_casts(st["x"])["id"])
                    env.vals[key] = env.vals[key] + (1 if "++" in st["op"] else -1)
                elif k == "If":
                    if truth(st["c"]):
                        run([st["th"]], depth)
                    elif st.get("el") is not None:
                        run([st["el"]], depth)
                elif k == "While":
                    it = 0
                    while truth(st["c"]):
                        it += 1
                        if it > 64:
                            raise AnalysisBroken("try_conversion: a power loop does not terminate within 64 iterations")
                        run([st["body"]], depth + 1)
                elif k == "Return":
                    raise Ret(conv.conv(st["x"], env))
                elif k == "Null":
                    pass
                else:
                    raise AnalysisBroken("try_conversion: statement kind %s in a conversion branch (line %s)" % (k, st.get("l")))
        try:
            run([branch["th"]])
        except Ret as r:
            return r.v
        raise AnalysisBroken("try_conversion: a conversion branch does not return")
    n = 0
    for p in sorted(set(pows)):
        F = execute(branches["forward"], p)
        R = execute(branches["reverse"], p)
        want_F = fac * (v * f) ** p / t
        n += 1
        chk.require(sp.simplify(F / want_F) == 1, "K6", "forward conversion with power %d is fac (value x unit_from)^%d / unit_to" % (p, p),
                    where(branches["forward"], fn), "forward branch computes %s" % sp.simplify(F), function=fn["full"],
                    construct="forward conversion power %d" % p)
        comp = R.subs({v: F, f: t, t: f}, simultaneous=True)
        n += 1
        chk.require(sp.simplify(comp / v) == 1, "K6", "converting with power %d and back returns the value for all unit factors" % p,
                    where(branches["reverse"], fn), "reverse(forward(v)) = %s: the reverse branch computes %s" %
                    (sp.simplify(comp), sp.simplify(R)), function=fn["full"], construct="conversion round trip power %d" % p)
    return n
