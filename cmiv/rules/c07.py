"""C07 - hydro task graph: every task once, in order, conflict-free, always finishes.

Model extraction: make_hydro_tasks / set_dependencies / reset_hydro_tasks are partially
evaluated over a finite abstract neighbour configuration (per axis: the +a neighbour is
outside / has a larger index / a smaller index / is the subgrid itself; the -a neighbour
is outside / exists; +a and -a neighbour may be the same subgrid).  The extracted graph
fragments are composed (assumption A1: neighbour tables are mutual) and the obligations
G1-G7 are checked for every configuration.  The worker loop protocol W1-W5 is checked on
the CFG of the driver.  See DESIGN.md C07 for the lifting argument.
"""
import itertools

from .. import cfg as C
from ..astdb import AnalysisBroken, where

AXES = "XYZ"
# phase of the scheme each sweep method belongs to (MUSCL-Hancock order: gradients ->
# limiter -> half-step prediction -> fluxes -> conserved update -> primitive update)
PHASE_OF_METHOD = {
    "inner_gradient_sweep": 0, "outer_gradient_sweep": 0, "outer_ghost_gradient_sweep": 0,
    "apply_slope_limiter": 1, "predict_primitive_variables": 2,
    "inner_flux_sweep": 3, "outer_flux_sweep": 3, "outer_ghost_flux_sweep": 3,
    "update_conserved_variables": 4, "update_primitive_variables": 5,
}


class Config:
    """P[a] in OUT/GT/LT/SELF, M[a] in OUT/NGB (SELF when P[a] is SELF), same[a]: +a and -a
    neighbour are one subgrid (periodic axis with two subgrids)."""

    def __init__(self, P, M, same):
        self.P, self.M, self.same = P, M, same

    def name(self):
        return " ".join("%s:+%s/-%s%s" % (AXES[a], self.P[a], self.M[a], "=" if self.same[a] else "")
                        for a in range(3))

    def sub(self, role, a):
        """Canonical subgrid name of the +a ('P') or -a ('M') neighbour, or 'OUT'."""
        if role == "P":
            if self.P[a] == "OUT":
                return "OUT"
            if self.P[a] == "SELF":
                return "G"
            return "P%s" % AXES[a]
        if self.M[a] == "OUT":
            return "OUT"
        if self.P[a] == "SELF":
            return "G"
        if self.same[a]:
            return "P%s" % AXES[a]
        return "M%s" % AXES[a]

    def less(self, a_sub, b_sub):
        """igrid-order between two subgrid names, when the configuration fixes it."""
        if a_sub == b_sub:
            return False
        for a in range(3):
            p = "P%s" % AXES[a]
            if {a_sub, b_sub} == {"G", p}:
                g_lt_p = self.P[a] == "GT"
                return g_lt_p if a_sub == "G" else not g_lt_p
        raise AnalysisBroken("order between %s and %s is not fixed by the abstract configuration"
                             % (a_sub, b_sub))


def all_configs():
    per_axis = []
    for P in ("OUT", "GT", "LT", "SELF"):
        for M in ("OUT", "NGB"):
            if P == "SELF" and M == "OUT":
                continue
            sames = (False, True) if (P in ("GT", "LT") and M == "NGB") else (False,)
            for s in sames:
                per_axis.append((P, M, s))
    out = []
    for combo in itertools.product(per_axis, repeat=3):
        out.append(Config([c[0] for c in combo], [c[1] for c in combo], [c[2] for c in combo]))
    return out


class ModelViolation(Exception):
    def __init__(self, rule, loc, detail, function, construct):
        Exception.__init__(self, detail)
        self.rule, self.loc, self.detail, self.function, self.construct = rule, loc, detail, function, construct


class Model:
    def __init__(self):
        self.tasks = {}      # own id -> dict(type, dep, extra, subgrid, buffer, direction)
        self.slots = {}      # k -> own id | 'NO_TASK'
        self.edges = []      # (src ref, dst ref, line)
        self.counters = {}   # ref -> n
        self.next = 0

    def ref_slot(self, ref):
        if isinstance(ref, tuple) and ref[0] == "own":
            for k, v in self.slots.items():
                if v == ref:
                    return ("G", k)
            raise AnalysisBroken("task created but never stored in a hydro slot")
        if isinstance(ref, tuple) and ref[0] == "slot":
            return (ref[1], ref[2])
        raise AnalysisBroken("bad task reference %r" % (ref,))


class _Return(Exception):
    def __init__(self, value):
        Exception.__init__(self)
        self.value = value


class Interp:
    """Partial evaluator for the three graph-building functions under one configuration."""

    def __init__(self, cfgn, model, dirmap, fn):
        self.c = cfgn
        self.m = model
        self.dirmap = dirmap
        self.fn = fn

    def broken(self, e, what):
        raise AnalysisBroken("%s: construct not understood by the task-graph extractor at %s: %s (%s)"
                             % (self.fn["name"], where(e, self.fn), C.pretty(e)[:120], what))

    # -- statements -----------------------------------------------------------
    def run(self, body, env):
        self.stmt(body, env)

    def stmt(self, s, env):
        k = s.get("k")
        if k == "Block":
            inner = dict(env)
            for x in s["s"]:
                self.stmt(x, inner)
            # assignments to outer variables must survive the scope
            for key in env:
                env[key] = inner[key]
            return
        if k == "If":
            c = self.expr(s["c"], env)
            if c is True:
                self.stmt(s["th"], env)
            elif c is False:
                if s.get("el"):
                    self.stmt(s["el"], env)
            else:
                self.broken(s["c"], "condition is not decided by the abstract configuration")
            return
        if k == "Decl":
            for d in s["d"]:
                t = d.get("t") or ""
                if not d.get("init") and t.endswith("]") and "[" in t:
                    try:
                        env[d["id"]] = ("arr", [None] * int(t[t.rindex("[") + 1:-1]))
                    except ValueError:
                        self.broken(s, "array of non-constant size")
                    continue
                env[d["id"]] = self.expr(d["init"], env) if d.get("init") else None
            return
        if k == "Null":
            return
        if k == "Return":
            raise _Return(self.expr(s["x"], env) if s.get("x") else None)
        if k == "For":
            # a counting loop over concrete integers (axes, slots): executed iteration by iteration
            inner = dict(env)
            if s.get("init") is not None:
                self.stmt(s["init"], inner)
            it = 0
            while True:
                c = self.expr(s["c"], inner) if s.get("c") is not None else True
                if c is False:
                    break
                if c is not True:
                    self.broken(s["c"], "loop condition is not decided")
                self.stmt(s["body"], inner)
                if s.get("inc") is not None:
                    self.expr(s["inc"], inner)
                it += 1
                if it > 64:
                    self.broken(s, "loop does not end within 64 iterations")
            for key in env:
                env[key] = inner[key]
            return
        if k in ("While", "Do", "Switch", "Break", "Continue", "Goto", "ForRange"):
            self.broken(s, "control statement %s" % k)
        v = self.expr(s, env)
        return v

    # -- expressions ----------------------------------------------------------
    def expr(self, e, env):
        e = C.strip_casts(e)
        k = e.get("k")
        if k == "Int":
            if e.get("mac") == "NEIGHBOUR_OUTSIDE":
                return ("sub", "OUT")
            if e.get("mac") == "NO_TASK":
                return "NO_TASK"
            return int(e["v"])
        if k == "Ref":
            if "id" in e:
                if e["id"] not in env:
                    self.broken(e, "unknown local")
                return env[e["id"]]
            if e.get("dk") == "EnumConstant":
                return ("enum", e["n"], int(e["v"]))
            self.broken(e, "global reference")
        if k == "Un" and e["op"] == "*":
            v = self.expr(e["x"], env)
            if isinstance(v, tuple) and v[0] == "subptr":
                return ("subobj", v[1])
            self.broken(e, "dereference")
        if k == "Un" and e["op"] in ("pre++", "post++", "pre--", "post--"):
            tgt = C.strip_casts(e["x"])
            if tgt.get("k") == "Ref" and "id" in tgt and isinstance(env.get(tgt["id"]), int):
                old = env[tgt["id"]]
                env[tgt["id"]] = old + (1 if "++" in e["op"] else -1)
                return old if e["op"].startswith("post") else env[tgt["id"]]
            self.broken(e, "increment of a non-integer")
        if k == "Un" and e["op"] == "-":
            v = self.expr(e["x"], env)
            if isinstance(v, int):
                return -v
            self.broken(e, "negation")
        if k == "Un" and e["op"] == "!":
            v = self.expr(e["x"], env)
            if isinstance(v, bool):
                return not v
            self.broken(e, "logical not of an undecided value")
        if k == "Cond":
            c = self.expr(e["c"], env)
            if c is True:
                return self.expr(e["a"], env)
            if c is False:
                return self.expr(e["b"], env)
            self.broken(e["c"], "condition is not decided by the abstract configuration")
        if k == "Bool":
            return bool(e["v"])
        if k == "InitList":
            return ("arr", [self.expr(x, env) for x in e["a"]])
        if k == "Idx":
            base = self.expr(e["a"], env)
            i = self.expr(e["i"], env)
            if isinstance(base, tuple) and base[0] == "arr" and isinstance(i, int) and 0 <= i < len(base[1]):
                return base[1][i]
            self.broken(e, "subscript")
        if k == "Bin":
            op = e["op"]
            if op == "=":
                tgt = C.strip_casts(e["a"])
                if tgt.get("k") == "Idx":
                    base = C.strip_casts(tgt["a"])
                    i = self.expr(tgt["i"], env)
                    if base.get("k") == "Ref" and "id" in base and isinstance(env.get(base["id"]), tuple) and \
                            env[base["id"]][0] == "arr" and isinstance(i, int) and 0 <= i < len(env[base["id"]][1]):
                        val = self.expr(e["b"], env)
                        arr = list(env[base["id"]][1])
                        arr[i] = val
                        env[base["id"]] = ("arr", arr)
                        return val
                    self.broken(e, "assignment to an array element")
                if tgt.get("k") != "Ref" or "id" not in tgt:
                    self.broken(e, "assignment to non-local")
                env[tgt["id"]] = self.expr(e["b"], env)
                return env[tgt["id"]]
            if op in ("==", "!=", "<", ">", "<=", ">="):
                a = self.expr(e["a"], env)
                b = self.expr(e["b"], env)
                return self.compare(op, a, b, e)
            if op in ("&&", "||"):
                a = self.expr(e["a"], env)
                if not isinstance(a, bool):
                    self.broken(e["a"], "operand of %s is not decided" % op)
                if (op == "&&" and not a) or (op == "||" and a):
                    return a
                b = self.expr(e["b"], env)
                if not isinstance(b, bool):
                    self.broken(e["b"], "operand of %s is not decided" % op)
                return b
            if op in ("+", "-", "*"):
                a = self.expr(e["a"], env)
                b = self.expr(e["b"], env)

                def asint(v):
                    if isinstance(v, bool):
                        return None
                    if isinstance(v, int):
                        return v
                    if isinstance(v, tuple) and v[0] == "enum":
                        return v[2]
                    return None
                if asint(a) is not None and asint(b) is not None:
                    x, y = asint(a), asint(b)
                    return x + y if op == "+" else (x - y if op == "-" else x * y)
                self.broken(e, "arithmetic on %r and %r" % (a, b))
            if op in ("+=", "-="):
                tgt = C.strip_casts(e["a"])
                if tgt.get("k") == "Ref" and "id" in tgt and isinstance(env.get(tgt["id"]), int):
                    b = self.expr(e["b"], env)
                    if isinstance(b, int):
                        env[tgt["id"]] = env[tgt["id"]] + (b if op == "+=" else -b)
                        return env[tgt["id"]]
                self.broken(e, "compound assignment")
            self.broken(e, "binary operator " + op)
        if k == "Call":
            return self.call(e, env)
        if k == "Lambda":
            return ("closure", e, env)
        if k == "Ctor" and len(e.get("a", [])) == 1 and C.strip_casts(e["a"][0]).get("k") == "Lambda":
            return ("closure", C.strip_casts(e["a"][0]), env)
        self.broken(e, "expression kind %s" % k)

    def compare(self, op, a, b, e):
        def is_sub(v):
            return isinstance(v, tuple) and v[0] == "sub"
        if is_sub(a) and is_sub(b):
            if "OUT" in (a[1], b[1]):
                if op in ("==", "!="):
                    r = a[1] == b[1]
                    return r if op == "==" else not r
                # NEIGHBOUR_OUTSIDE is the largest 32-bit value: every real subgrid index is smaller
                if a[1] == b[1]:
                    return op in ("<=", ">=")
                a_is_out = a[1] == "OUT"
                lt = not a_is_out          # a < b  iff  b is OUT
                return {"<": lt, "<=": lt, ">": not lt, ">=": not lt}[op]
            if op == "==":
                return a[1] == b[1]
            if op == "!=":
                return a[1] != b[1]
            if a[1] == b[1]:
                return op in ("<=", ">=")
            lt = self.c.less(a[1], b[1])
            return {"<": lt, "<=": lt, ">": not lt, ">=": not lt}[op]
        if op in ("==", "!="):
            if "NO_TASK" in (a, b) or (isinstance(a, tuple) and a[0] in ("own", "slot")):
                other = b if a == "NO_TASK" else a
                if other == "NO_TASK":
                    r = True
                elif isinstance(other, tuple) and other[0] == "own":
                    r = False
                elif isinstance(other, tuple) and other[0] == "slot":
                    r = False     # neighbour positive-side slots always exist (checked by G7)
                else:
                    self.broken(e, "comparison with NO_TASK")
                if a != "NO_TASK" and b != "NO_TASK":
                    r = a == b
                return r if op == "==" else not r
            if isinstance(a, tuple) and a[0] == "enum" and isinstance(b, tuple) and b[0] == "enum":
                r = a[2] == b[2]
                return r if op == "==" else not r
            if isinstance(a, int) and isinstance(b, int):
                return (a == b) if op == "==" else (a != b)
            if isinstance(a, bool) and isinstance(b, bool):
                return (a == b) if op == "==" else (a != b)

        def asint(v):
            if isinstance(v, bool):
                return None
            if isinstance(v, int):
                return v
            if isinstance(v, tuple) and v[0] == "enum":
                return v[2]
            return None
        if asint(a) is not None and asint(b) is not None:
            x, y = asint(a), asint(b)
            return {"==": x == y, "!=": x != y, "<": x < y, ">": x > y, "<=": x <= y, ">=": x >= y}[op]
        self.broken(e, "comparison %r %s %r" % (a, op, b))

    helpers = {}        # qname -> function decl (free functions of the driver unit)
    depth = 0

    def call(self, e, env):
        n = e.get("n")
        cls = e.get("cls", "")
        obj = self.expr(e["obj"], env) if e.get("obj") is not None else None
        args = e["a"]
        if obj is None and (e.get("fn") or "").split("::")[-1] in ("min", "max") and len(args) == 2 and not e.get("op"):
            # std::min / std::max of two values whose order the abstract configuration fixes (subgrid indices, integers)
            a_, b_ = self.expr(args[0], env), self.expr(args[1], env)
            a_le_b = self.compare("<=", a_, b_, e)
            if (e.get("fn") or "").endswith("min"):
                return a_ if a_le_b else b_
            return b_ if a_le_b else a_
        if obj is None and not cls and e.get("fn") in Interp.helpers and not e.get("op"):
            callee = Interp.helpers[e["fn"]]
            if len(callee["params"]) != len(args):
                self.broken(e, "helper arity")
            if Interp.depth > 6:
                self.broken(e, "helper recursion")
            inner = {}
            for p2, a2 in zip(callee["params"], args):
                inner[p2["id"]] = self.expr(a2, env)
                pt = p2["t"].rstrip()
                if pt.endswith("&") and not pt.startswith("const") and isinstance(inner[p2["id"]], (int, bool)):
                    self.broken(e, "integer passed by non-const reference to a helper")
            Interp.depth += 1
            saved_fn = self.fn
            try:
                self.fn = callee
                self.stmt(callee["body"], inner)
                ret = None
            except _Return as r:
                ret = r.value
            finally:
                self.fn = saved_fn
                Interp.depth -= 1
            return ret
        if isinstance(obj, tuple) and obj[0] == "closure" and e.get("op") == "()":
            lam, cenv = obj[1], obj[2]
            params = lam.get("params", [])
            if len(params) != len(args):
                self.broken(e, "lambda arity")
            inner = cenv            # captures by reference: the defining environment itself
            saved = {}
            for p, a in zip(params, args):
                saved[p["id"]] = inner.get(p["id"], None)
                inner[p["id"]] = self.expr(a, env)
            try:
                self.stmt(lam["body"], inner)
                ret = None
            except _Return as r:
                ret = r.value
            for pid, old in saved.items():
                if old is None:
                    inner.pop(pid, None)
                else:
                    inner[pid] = old
            return ret
        if e.get("op") == "*" and obj is not None:
            if isinstance(obj, tuple) and obj[0] == "subptr":
                return ("subobj", obj[1])
            self.broken(e, "operator*")
        if e.get("op") == "[]" and obj == "TASKS":
            ref = self.expr(args[0], env)
            if not (isinstance(ref, tuple) and ref[0] in ("own", "slot")):
                self.broken(e, "task index %r" % (ref,))
            return ("task", ref)
        if obj == "GC" and n == "get_subgrid":
            v = self.expr(args[0], env)
            if isinstance(v, tuple) and v[0] == "sub" and v[1] == "OUT":
                raise ModelViolation("G7", where(e, self.fn),
                                     "%s looks up the subgrid with index NEIGHBOUR_OUTSIDE (no such subgrid): "
                                     "%s" % (self.fn["name"], C.pretty(e)[:100]), self.fn["name"],
                                     "get_subgrid(NEIGHBOUR_OUTSIDE)")
            if not (isinstance(v, tuple) and v[0] == "sub"):
                self.broken(e, "get_subgrid of %r" % (v,))
            return ("subptr", v[1])
        if obj == "TASKS" and n == "get_free_element":
            ref = ("own", self.m.next)
            self.m.next += 1
            self.m.tasks[ref] = {"line": e.get("l")}
            return ref
        if isinstance(obj, tuple) and obj[0] == "subobj":
            sub = obj[1]
            if n == "get_neighbour":
                d = self.expr(args[0], env)
                if not (isinstance(d, tuple) and d[0] == "enum") or d[1] not in self.dirmap:
                    self.broken(e, "neighbour direction")
                if sub != "G":
                    self.broken(e, "neighbour of a neighbour")
                a, sign = self.dirmap[d[1]]
                return ("sub", self.c.sub("P" if sign > 0 else "M", a))
            if n == "get_dependency":
                return ("lock", sub)
            if n == "set_hydro_task":
                if sub != "G":
                    self.broken(e, "writes a neighbour's task table")
                kk = self.expr(args[0], env)
                self.m.slots[kk] = self.expr(args[1], env)
                return None
            if n == "get_hydro_task":
                kk = self.expr(args[0], env)
                if sub == "G":
                    if kk not in self.m.slots:
                        self.broken(e, "reads hydro slot %s before it was set" % kk)
                    return self.m.slots[kk]
                return ("slot", sub, kk)
        if isinstance(obj, tuple) and obj[0] == "task":
            ref = obj[1]
            if n in ("set_type", "set_dependency", "set_extra_dependency", "set_subgrid", "set_buffer",
                     "set_interaction_direction"):
                if ref not in self.m.tasks:
                    self.broken(e, "setter on a task this subgrid does not own")
                self.m.tasks[ref][n[4:]] = self.expr(args[0], env)
                return None
            if n == "add_child":
                child = self.expr(args[0], env)
                self.m.edges.append((ref, child, e.get("l")))
                return None
            if n == "set_number_of_unfinished_parents":
                self.m.counters[ref] = self.expr(args[0], env)
                return None
            if n == "get_type":
                if ref not in self.m.tasks:
                    self.broken(e, "type of a neighbour's task")
                return self.m.tasks[ref].get("type")
        self.broken(e, "call %s::%s" % (cls, n))


def extract_dispatch(fn, enum_consts=None):
    """execute_task: per task type -> (sweep method called on `subgrid`, uses get_buffer?), by partial evaluation of the
    body for every task type (a switch on Task::get_type(), an if / else-if chain, or a local holding the type)."""
    # enumerators that are compared with the type anywhere in the function
    type_alias = set()

    def is_type(e):
        e = C.strip_casts(e)
        if C.is_call(e, name="get_type", cls="Task"):
            return True
        return e.get("k") == "Ref" and e.get("id") in type_alias
    for st in C.walk_stmt(fn["body"]):
        if st.get("k") == "Decl":
            for d in st["d"]:
                if d.get("init") is not None and C.is_call(C.strip_casts(d["init"]), name="get_type", cls="Task"):
                    type_alias.add(d["id"])
    labels = {}
    for st in C.walk_stmt(fn["body"]):
        if st.get("k") == "Case":
            lhs = C.strip_casts(st["lhs"])
            if lhs.get("dk") == "EnumConstant":
                labels[lhs["n"]] = int(lhs["v"])
        if st.get("k") == "Bin" and st.get("op") in ("==", "!="):
            for p2, q2 in ((st["a"], st["b"]), (st["b"], st["a"])):
                q0 = C.strip_casts(q2)
                if is_type(p2) and q0.get("k") == "Ref" and q0.get("dk") == "EnumConstant":
                    labels[q0["n"]] = int(q0["v"])
    if not labels:
        raise AnalysisBroken("execute_task: expected one switch on the task type")

    def truth(e, val):
        e = C.strip_casts(e)
        k = e.get("k")
        if k == "Un" and e["op"] == "!":
            t = truth(e["x"], val)
            return None if t is None else (not t)
        if k == "Bin" and e["op"] in ("||", "&&"):
            a2, b2 = truth(e["a"], val), truth(e["b"], val)
            if e["op"] == "||":
                return True if (a2 is True or b2 is True) else (False if (a2 is False and b2 is False) else None)
            return False if (a2 is False or b2 is False) else (True if (a2 is True and b2 is True) else None)
        if k == "Bin" and e["op"] in ("==", "!="):
            for p2, q2 in ((e["a"], e["b"]), (e["b"], e["a"])):
                cv = C.const_int(q2)
                if is_type(p2) and cv is not None:
                    return (val == cv) == (e["op"] == "==")
        return None

    def collect(st, val, out):
        k = st.get("k")
        if k == "Block":
            if st.get("mac") in C.ABORT_MACROS:
                out.append(("abort", st))
                return
            for c2 in st.get("s", []):
                collect(c2, val, out)
        elif k == "If":
            t = truth(st["c"], val)
            if t is None:
                out.append(("stmt", st["c"]))
                collect(st["th"], val, out)
                if st.get("el") is not None:
                    collect(st["el"], val, out)
            elif t:
                collect(st["th"], val, out)
            elif st.get("el") is not None:
                collect(st["el"], val, out)
        elif k == "Switch" and is_type(st["c"]):
            from ..tables import switch_arms
            _, arms, default = switch_arms(fn, st)
            arm = arms.get(val, default)
            if arm is not None:
                for s3 in arm["stmts"]:
                    collect(s3, val, out)
        elif k in ("For", "While", "Do"):
            collect(st["body"], val, out)
        else:
            out.append(("stmt", st))
    res = {}
    for lab, val in sorted(labels.items()):
        out = []
        collect(fn["body"], val, out)
        calls = []
        uses_buffer = False
        aborts = any(kind == "abort" for kind, _ in out)
        for kind, st in out:
            if kind != "stmt":
                continue
            exprs = [d["init"] for d in st["d"] if d.get("init") is not None] if st.get("k") == "Decl" else [st]
            for ex in exprs:
                for x in C.walk(ex):
                    if C.is_call(x) and x.get("obj") is not None and x.get("cls", "").endswith("DensitySubGrid") \
                            and x.get("n") in PHASE_OF_METHOD:
                        if not any(x is y for y in calls):
                            calls.append(x)
                    if C.is_call(x, name="get_buffer", cls="Task"):
                        uses_buffer = True
        if not calls and aborts:
            continue
        if len(calls) != 1:
            raise AnalysisBroken("execute_task: arm %s does not dispatch to exactly one sweep" % lab)
        res[lab] = {"method": calls[0]["n"], "buffer": uses_buffer, "call": calls[0]}
    return res


def run(chk, prog):
    chk.explanation = (
        "The three functions that build the per-subgrid hydro task graph are partially evaluated over "
        "all abstract neighbour configurations (every layout 1..n per axis, every periodicity, including "
        "single- and two-subgrid periodic axes); the extracted fragments are composed under the mutual-"
        "neighbour assumption and G1 counter=in-degree, G2 phase ranking, G3 child capacity, G4 lock coverage, "
        "G5 lock distinctness, G6 source tasks, G7 face ownership are checked exhaustively; W1-W5 check the "
        "worker-loop protocol on the driver's CFG. With C08's container guarantees these imply exactly-once, "
        "ordering, mutual exclusion and termination for every schedule (argument in DESIGN.md).")
    chk.assumptions += [
        "A1: neighbour tables are mutual (H is G's +a neighbour iff G is H's -a neighbour)",
        "C08: atomic counters and try-locks behave as specified (decided separately)",
        "the OpenMP runtime eventually schedules every worker thread"]
    unit = prog.unit("TaskBasedRadiationHydrodynamicsSimulation.cpp")
    chk.analysed(unit=unit.name)
    mk = unit.func("make_hydro_tasks")
    sd = unit.func("set_dependencies")
    rs = unit.func("reset_hydro_tasks")
    ex = unit.func("execute_task")
    for f in (mk, sd, rs, ex):
        chk.analysed(function=f["full"])
    # free helper functions defined in the driver unit (a refactoring may have extracted some)
    Interp.helpers = {}
    for d in unit.decls:
        if d["kind"] == "function" and d.get("body") and not d.get("clsq") and not d.get("dependent") and \
                (d.get("file") or "").endswith("TaskBasedRadiationHydrodynamicsSimulation.cpp") and \
                d["qname"] not in ("make_hydro_tasks", "set_dependencies", "reset_hydro_tasks", "execute_task"):
            Interp.helpers[d["qname"]] = d
    # direction enum -> (axis, sign): from the enumerator names of the six face directions; the
    # C02 table rule T1 separately proves that these names carry the geometric signature
    dirmap = {}
    for a in range(3):
        dirmap["TRAVELDIRECTION_FACE_%s_P" % AXES[a]] = (a, +1)
        dirmap["TRAVELDIRECTION_FACE_%s_N" % AXES[a]] = (a, -1)
    dispatch = extract_dispatch(ex)

    def param(fn, name):
        for p in fn["params"]:
            if p["n"] == name:
                return p["id"]
        raise AnalysisBroken("%s: parameter %s vanished" % (fn["name"], name))

    configs = all_configs()
    models = {}
    model_viol = {}
    for c in configs:
      try:
        m = Model()
        it = Interp(c, m, dirmap, mk)
        it.run(mk["body"], {param(mk, "tasks"): "TASKS", param(mk, "igrid"): ("sub", "G"),
                            param(mk, "grid_creator"): "GC"})
        it = Interp(c, m, dirmap, sd)
        it.run(sd["body"], {param(sd, "tasks"): "TASKS", param(sd, "igrid"): ("sub", "G"),
                            param(sd, "grid_creator"): "GC"})
        it = Interp(c, m, dirmap, rs)
        it.run(rs["body"], {param(rs, "tasks"): "TASKS", param(rs, "this_grid"): ("subobj", "G")})
        models[c.name()] = (c, m)
      except ModelViolation as v:
        model_viol.setdefault((v.rule, v.function, v.construct), []).append((c.name(), v.construct, v.loc, v.detail))
    chk.extra["configurations"] = len(configs)

    # type class per slot must not depend on the configuration (needed to type neighbour slots)
    slot_phase = {}
    for c, m in models.values():
        for k, ref in m.slots.items():
            if ref == "NO_TASK":
                continue
            t = m.tasks[ref].get("type")
            if not t or t[1] not in dispatch:
                raise AnalysisBroken("slot %s has task type %r without a dispatch arm" % (k, t))
            ph = PHASE_OF_METHOD[dispatch[t[1]]["method"]]
            if slot_phase.setdefault(k, ph) != ph:
                raise AnalysisBroken("slot %s changes phase between configurations" % k)

    # edges a neighbour contributes to the slots of the subgrid on its -a side
    nb_in = {}   # axis -> set of (src_slot_of_H, dst_slot_of_G)   edges H.own -> G.slot
    nb_out = {}  # axis -> set of (src_slot_of_G, dst_slot_of_H)
    for a in range(3):
        seen_in = seen_out = None
        for c, m in models.values():
            if c.M[a] != "NGB" or c.P[a] == "SELF":
                continue
            mname = c.sub("M", a)
            i_set, o_set = [], []
            for s, d, l in m.edges:
                ss, ds = m.ref_slot(s), m.ref_slot(d)
                # when +a and -a neighbour coincide the roles cannot be told apart by name;
                # those configurations contribute the same edges as the generic ones
                if c.same[a]:
                    continue
                if ss[0] == "G" and ds[0] == mname:
                    i_set.append((ss[1], ds[1]))
                if ss[0] == mname and ds[0] == "G":
                    o_set.append((ss[1], ds[1]))
            if c.same[a]:
                continue
            i_set, o_set = sorted(i_set), sorted(o_set)
            if seen_in is None:
                seen_in, seen_out = i_set, o_set
            elif (seen_in, seen_out) != (i_set, o_set):
                raise AnalysisBroken("cross-subgrid edges along axis %s depend on the rest of the "
                                     "configuration; composition rule not applicable" % AXES[a])
        if seen_in is None:
            raise AnalysisBroken("no configuration with a -%s neighbour was extracted" % AXES[a])
        nb_in[a], nb_out[a] = seen_in, seen_out
    chk.extra["cross_subgrid_edges"] = {AXES[a]: {"into_lower_neighbour": nb_in[a],
                                                  "out_of_lower_neighbour": nb_out[a]} for a in range(3)}

    # ---- G8: data-dependency coverage -------------------------------------------------------
    # a task that touches subgrid X in the gradient phase must be a parent of X's slope limiter; X's
    # prediction must be a parent of every flux task touching X; every flux task touching X must be a
    # parent of X's conserved-variable update. Roles (limiter, predict, update, pair slots) are read from
    # the extracted model, not from slot numbers.
    def role_slots(c, m):
        by_phase = {}
        pair = {}
        for k, ref in m.slots.items():
            if ref == "NO_TASK":
                continue
            t = m.tasks[ref]
            ph = PHASE_OF_METHOD[dispatch[t["type"][1]]["method"]]
            by_phase.setdefault(ph, []).append(k)
            if dispatch[t["type"][1]]["buffer"] and t.get("buffer"):
                d = t.get("interaction_direction")
                if d and d[1] in dirmap:
                    pair[(ph, dirmap[d[1]][0])] = k
        return by_phase, pair
    g8 = {}
    for cname, (c, m) in sorted(models.items()):
        by_phase, pair = role_slots(c, m)
        if not all(len(by_phase.get(p, [])) == 1 for p in (1, 2, 4, 5)):
            raise AnalysisBroken("limiter / predict / update tasks are not unique per subgrid")
        lim, pred, upd, prim = (by_phase[p][0] for p in (1, 2, 4, 5))
        own_edges = set()
        for s_, d_, l_ in m.edges:
            ss, ds = m.ref_slot(s_), m.ref_slot(d_)
            own_edges.add((ss, ds))
        need = []
        for k in by_phase.get(0, []):
            need.append((("G", k), ("G", lim), "gradient task in slot %d -> own slope limiter" % k))
        need.append((("G", lim), ("G", pred), "slope limiter -> prediction"))
        for k in by_phase.get(3, []):
            need.append((("G", pred), ("G", k), "prediction -> flux task in slot %d" % k))
            need.append((("G", k), ("G", upd), "flux task in slot %d -> conserved update" % k))
        need.append((("G", upd), ("G", prim), "conserved update -> primitive update"))
        for src, dst, what in need:
            n_ob_g8 = g8.setdefault("n", 0)
            g8["n"] = n_ob_g8 + 1
            if (src, dst) not in own_edges:
                agg_g8 = g8.setdefault("fail", {})
                agg_g8.setdefault(("G8", "set_dependencies", what), []).append(
                    (cname, what, where(sd), "the task graph has no edge %s although the later task reads what the "
                     "earlier one writes on this subgrid: it can start too early" % what))
        # pair tasks also touch the +a neighbour: the neighbour's set_dependencies must add the edges
        for a in range(3):
            if c.P[a] in ("GT", "LT") and not c.same[a]:
                gk, fk = pair.get((0, a)), pair.get((3, a))
                want_out = sorted([(gk, lim), (fk, upd)])
                want_in = sorted([(pred, fk)])
                g8["n"] = g8.get("n", 0) + 2
                if sorted(nb_out[a]) != want_out:
                    g8.setdefault("fail", {}).setdefault(("G8", "set_dependencies", "cross edges out of -%s neighbour" % AXES[a]), []).append(
                        (cname, "pair tasks across the %s interface -> the upper subgrid's limiter / update" % AXES[a],
                         where(sd), "the upper subgrid hooks its slope limiter / conserved update to slots %s of its -%s "
                         "neighbour, but the pair tasks that touch it are in slots %s: it can run before the "
                         "cross-interface sweep" % (sorted(nb_out[a]), AXES[a], want_out)))
                if sorted(nb_in[a]) != want_in:
                    g8.setdefault("fail", {}).setdefault(("G8", "set_dependencies", "cross edges into -%s neighbour" % AXES[a]), []).append(
                        (cname, "the upper subgrid's prediction -> pair flux task across the %s interface" % AXES[a],
                         where(sd), "prediction of the upper subgrid is hooked to slots %s of its -%s neighbour, the "
                         "pair flux task is in slot %s" % (sorted(nb_in[a]), AXES[a], want_in)))
    n_ob = {"G1": 0, "G2": 0, "G3": 0, "G4": 0, "G5": 0, "G6": 0, "G7": 0}
    agg = dict(model_viol)
    for kk, vv in g8.get("fail", {}).items():
        agg[kk] = vv

    class _Agg:
        def fail(self, rule, instance, loc, detail, function="", construct=""):
            cname, _, what = instance.partition(" | ")
            agg.setdefault((rule, function, construct), []).append((cname, what, loc, detail))
    real_chk = chk
    chk = _Agg()
    for cname, (c, m) in sorted(models.items()):
        fnq = "make_hydro_tasks"
        own_in = {}
        own_out = {}
        for s, d, l in m.edges:
            ss, ds = m.ref_slot(s), m.ref_slot(d)
            if ds[0] == "G":
                own_in[ds[1]] = own_in.get(ds[1], 0) + 1
            if ss[0] == "G":
                own_out[ss[1]] = own_out.get(ss[1], 0) + 1
            # G2: ranking
            n_ob["G2"] += 1
            ps, pd = slot_phase.get(ss[1]), slot_phase.get(ds[1])
            if ps is None or pd is None or not ps < pd:
                chk.fail("G2", "%s | edge slot %s(%s) -> slot %s(%s)" % (cname, ss[1], ss[0], ds[1], ds[0]),
                         "src/TaskBasedRadiationHydrodynamicsSimulation.cpp:%s" % l,
                         "dependency edge does not go from an earlier to a later phase of the scheme "
                         "(phase %s -> %s): the graph may be cyclic or mis-ordered" % (ps, pd),
                         function="set_dependencies", construct="edge %s->%s" % (ss[1], ds[1]))
        # contributions of the +a neighbours (they see G as their -a neighbour)
        for a in range(3):
            if c.P[a] in ("GT", "LT"):
                for sslot, dslot in nb_in[a]:
                    own_in[dslot] = own_in.get(dslot, 0) + 1
                for sslot, dslot in nb_out[a]:
                    own_out[sslot] = own_out.get(sslot, 0) + 1
        for k in sorted(m.slots):
            ref = m.slots[k]
            inst = "%s | slot %d" % (cname, k)
            if ref == "NO_TASK":
                # G7: only negative-side slots may be absent, and only when the -a neighbour exists
                continue
            t = m.tasks[ref]
            loc = "src/TaskBasedRadiationHydrodynamicsSimulation.cpp:%s" % t["line"]
            # G1
            n_ob["G1"] += 1
            cnt = m.counters.get(ref)
            indeg = own_in.get(k, 0)
            if cnt != indeg:
                chk.fail("G1", inst, loc,
                         "reset_hydro_tasks stores %s unfinished parents but the graph has %d edges into "
                         "this task: it would %s" % (cnt, indeg, "never become runnable" if (cnt or 0) > indeg
                                                     else "run before all its parents finished / twice"),
                         function="reset_hydro_tasks", construct="slot %d counter" % k)
            # G3
            n_ob["G3"] += 1
            if own_out.get(k, 0) > 7:
                chk.fail("G3", inst, loc, "task receives %d children but Task::_children has 7 entries"
                         % own_out.get(k, 0), function="set_dependencies", construct="slot %d children" % k)
            # G4 / G5
            typ = t.get("type")
            arm = dispatch[typ[1]]
            dep, extra = t.get("dependency"), t.get("extra_dependency")
            locks = {x[1] for x in (dep, extra) if x}
            touched = set()
            sg = t.get("subgrid")
            if not sg or sg[0] != "sub":
                chk.fail("G4", inst, loc, "task has no subgrid", function=fnq, construct="slot %d subgrid" % k)
                continue
            touched.add(sg[1])
            if arm["buffer"]:
                bf = t.get("buffer")
                if not bf or bf[0] != "sub":
                    chk.fail("G4", inst, loc, "pair task of type %s has no neighbour stored in its buffer field"
                             % typ[1], function=fnq, construct="slot %d buffer" % k)
                    continue
                touched.add(bf[1])
            n_ob["G4"] += 1
            if not touched <= locks:
                chk.fail("G4", inst, loc,
                         "task of type %s touches subgrids %s but only holds the locks of %s: two tasks can "
                         "work on the same subgrid at once" % (typ[1], sorted(touched), sorted(locks)),
                         function=fnq, construct="slot %d locks" % k)
            n_ob["G5"] += 1
            if dep and extra and dep == extra:
                chk.fail("G5", inst, loc,
                         "both dependencies of the task are the lock of subgrid %s: lock_dependency() "
                         "try-locks the second while holding the first, so the task can never be taken and "
                         "the hydro step never ends" % dep[1],
                         function=fnq, construct="slot %d same lock twice" % k)
            if not dep:
                chk.fail("G5", inst, loc, "task has no primary dependency", function=fnq,
                         construct="slot %d no lock" % k)
            # direction of pair/boundary tasks matches the slot's face
            n_ob["G7"] += 1
        # G7 face ownership
        for a in range(3):
            for base in (1, 10):
                kp, kn = base + 2 * a, base + 2 * a + 1
                n_ob["G7"] += 1
                pref, nref = m.slots.get(kp), m.slots.get(kn)
                okp = pref not in (None, "NO_TASK")
                okn = (nref not in (None, "NO_TASK")) == (c.M[a] == "OUT")
                pair = okp and dispatch[m.tasks[pref]["type"][1]]["buffer"]
                okpair = pair == (c.P[a] != "OUT") if okp else False
                dirs_ok = True
                if okp:
                    d = m.tasks[pref].get("interaction_direction")
                    dirs_ok = bool(d) and dirmap.get(d[1]) == (a, +1)
                    if pair:
                        bf = m.tasks[pref].get("buffer")
                        dirs_ok = dirs_ok and bool(bf) and bf[1] == c.sub("P", a)
                if nref not in (None, "NO_TASK"):
                    d = m.tasks[nref].get("interaction_direction")
                    dirs_ok = dirs_ok and bool(d) and dirmap.get(d[1]) == (a, -1)
                if not (okp and okn and okpair and dirs_ok):
                    chk.fail("G7", "%s | face slots %d/%d" % (cname, kp, kn),
                             where(mk), "interface ownership broken on axis %s: +side present=%s pair=%s, "
                             "-side present=%s (must be present iff the -%s neighbour is outside), directions ok=%s"
                             % (AXES[a], okp, pair, nref not in (None, "NO_TASK"), AXES[a], dirs_ok),
                             function=fnq, construct="face slots %d/%d" % (kp, kn))
        # G6: source tasks = counter 0; every task reachable from them
        n_ob["G6"] += 1
        zero = {k for k, ref in m.slots.items() if ref != "NO_TASK" and m.counters.get(ref) == 0}
        succ = {}
        for s, d, l in m.edges:
            ss, ds = m.ref_slot(s), m.ref_slot(d)
            if ss[0] == "G" and ds[0] == "G":
                succ.setdefault(ss[1], set()).add(ds[1])
        reach = set(zero)
        todo = list(zero)
        while todo:
            x = todo.pop()
            for y in succ.get(x, ()):
                if y not in reach:
                    reach.add(y)
                    todo.append(y)
        present = {k for k, ref in m.slots.items() if ref != "NO_TASK"}
        if not zero or present - reach:
            chk.fail("G6", "%s | source tasks" % cname, where(rs),
                     "tasks in slots %s are not reachable from the initially runnable tasks %s"
                     % (sorted(present - reach), sorted(zero)), function="reset_hydro_tasks",
                     construct="unreachable slots")
        if len(m.slots) != 18:
            chk.fail("G7", "%s | 18 slots" % cname, where(mk), "%d hydro slots set, the driver enqueues 18"
                     % len(m.slots), function=fnq, construct="slot count")
    chk = real_chk
    failed = set()
    for (rule, function, construct), lst in sorted(agg.items()):
        cname, what, loc, detail = lst[0]
        for cn, w, _, _ in lst:
            failed.add((rule, cn + " | " + w))
        chk.fail(rule, "%s in %d of %d configurations, e.g. [%s]" % (what, len(lst), len(configs), cname),
                 loc, detail, function=function, construct=construct)
    for rule, n in n_ob.items():
        nf = sum(1 for r, _ in failed if r == rule)
        for i in range(max(0, min(3, n - nf))):
            pass
        chk.extra.setdefault("enumerated", {})[rule] = {"obligations": n, "violated": nf}
    # represent the discharged obligations compactly: one per (rule, configuration)
    for cname in sorted(models):
        for rule in ("G1", "G2", "G3", "G4", "G5", "G6", "G7", "G8"):
            if not any(r == rule and inst.startswith(cname + " |") for r, inst in failed):
                chk.ok(rule, "%s | all slots/edges" % cname, where(mk if rule not in ("G1", "G6") else rs))
    chk.floor("G-configs", len(models) + sum(len(v) for v in model_viol.values()), 300)
    if not model_viol:
        chk.floor("G1", n_ob["G1"], 4000)
        chk.floor("G8", g8.get("n", 0), 10000)
        chk.floor("G2", n_ob["G2"], 5000)

    check_worker_loop(chk, unit)
    # W6: "decrement and test for zero" is one atomic step (Task::decrement_number_of_unfinished_parents)
    from .c08 import check_atomic_wrappers
    chk.floor("W6", check_atomic_wrappers(chk, prog.library(), rule="W6"), 5)


# --------------------------------------------------------------------------------------
def check_worker_loop(chk, unit):
    drv = unit.func("TaskBasedRadiationHydrodynamicsSimulation::do_simulation")
    chk.analysed(function=drv["full"])
    # the hydro worker loop: the innermost loop containing the call to execute_task
    loops = []

    def find(s, stack):
        k = s.get("k")
        if k in ("While", "For", "Do"):
            stack = stack + [s]
        if C.is_call(s, fn="execute_task"):
            loops.append(stack[-1] if stack else None)
        for key in ("s",):
            if k == "Block":
                for x in s["s"]:
                    find(x, stack)
                return
        if k == "If":
            for key in ("init", "c", "th", "el"):
                if s.get(key):
                    find(s[key], stack)
        elif k in ("While", "Do"):
            find(s["c"], stack)
            find(s["body"], stack)
        elif k == "For":
            for key in ("init", "c", "inc", "body"):
                if s.get(key):
                    find(s[key], stack)
        elif k in ("OMP", "Captured", "Attributed"):
            if s.get("body"):
                find(s["body"], stack)
        elif k == "Switch":
            find(s["body"], stack)
        elif k in ("Case", "Default"):
            if s.get("sub"):
                find(s["sub"], stack)
        else:
            for x in C.children_of(s):
                find(x, stack)

    find(drv["body"], [])
    if len(loops) != 1 or loops[0] is None or loops[0]["k"] != "While":
        raise AnalysisBroken("hydro worker loop (loop around execute_task) not found exactly once")
    loop = loops[0]
    # W4 loop condition: number_of_tasks.value() > 0
    cnd = C.strip_casts(loop["c"])
    counter_key = None
    if cnd.get("k") == "Bin" and cnd["op"] in (">", "!=") and C.const_int(cnd["b"]) == 0:
        v = C.strip_casts(cnd["a"])
        if C.is_call(v, name="value", cls="AtomicValue"):
            counter_key = C.ref_key(v["obj"])
    chk.require(counter_key is not None, "W4", "worker loop runs while the task counter is positive",
                where(loop, drv), "loop condition is %s" % C.pretty(loop["c"]),
                function=drv["qname"], construct="worker loop condition")
    if counter_key is None:
        return
    # void helper functions of the driver unit that the loop body calls as statements are part of the protocol
    loop = dict(loop)
    loop["body"] = C.inline_void_helpers(loop["body"], Interp.helpers)
    g = C.CFG(drv, body=loop["body"], name="hydro worker loop body", loop_body=True)

    def calls_in(node, pred):
        if node.ast is None or node.kind == "marker" or node.ast.get("k") in ("Abort", "RangeHasNext"):
            return []
        return [x for x in C.walk(node.ast) if pred(x)]

    def on_counter(x, name):
        return C.is_call(x, name=name, cls="AtomicValue") and C.ref_key(x["obj"]) == counter_key

    EVENTS = [
        ("exec", lambda x: C.is_call(x, fn="execute_task")),
        ("stop", lambda x: C.is_call(x, name="stop", cls="Task")),
        ("unlock", lambda x: C.is_call(x, name="unlock_dependency", cls="Task")),
        ("dec_parent", lambda x: C.is_call(x, name="decrement_number_of_unfinished_parents", cls="Task")),
        ("add", lambda x: C.is_call(x, name="add_task", cls="TaskQueue")),
        ("inc", lambda x: on_counter(x, "pre_increment") or on_counter(x, "post_increment")),
        ("dec", lambda x: on_counter(x, "pre_decrement") or on_counter(x, "post_decrement")),
        ("get", lambda x: C.is_call(x, name="get_task", cls="TaskQueue") or C.is_call(x, fn="steal_task")),
    ]

    def node_events(node):
        out = []
        if node.ast is None or node.kind == "marker" or node.ast.get("k") in ("Abort", "RangeHasNext"):
            return out
        for x in C.walk(node.ast if node.kind != "decl" else {"k": "Decl", "d": node.ast["d"]}):
            for name, pred in EVENTS:
                if pred(x):
                    out.append((name, x))
        return out

    # the variable holding the current task and the "task obtained" test
    ORDER = ["exec", "stop", "unlock", "childloop", "dec"]

    # state: (stage index reached, in child iteration flags)
    # stage: 0 nothing, 1 exec done, 2 stop done, 3 unlock done, 4 self-decrement done
    # child-iteration state: (decremented_parent_result: None/'zero'/'nonzero', added, inced)
    def transfer(node, st):
        stage, child, bad = st
        evs = node_events(node)
        outs = None
        for name, x in evs:
            if name == "exec":
                if stage != 0:
                    bad = bad or "execute_task twice in one iteration"
                stage = max(stage, 1)
            elif name == "stop":
                if stage != 1:
                    bad = bad or "Task::stop not directly after execute_task"
                stage = 2
            elif name == "unlock":
                if stage != 2:
                    bad = bad or ("unlock_dependency without a preceding execute_task/stop"
                                  if stage < 2 else "unlock_dependency twice")
                stage = 3
            elif name == "dec_parent":
                if stage != 3:
                    bad = bad or "child released before the task's locks were released / after self-decrement"
                child = ("pending", False, False)
            elif name == "add":
                if child is None or child[0] != "zero":
                    bad = bad or "add_task not guarded by decrement_number_of_unfinished_parents() == 0"
                else:
                    if child[1]:
                        bad = bad or "child enqueued twice"
                    child = (child[0], True, child[2])
            elif name == "inc":
                if child is None or child[0] != "zero":
                    bad = bad or "task counter incremented outside the child-release guard"
                else:
                    if child[2]:
                        bad = bad or "task counter incremented twice for one child"
                    child = (child[0], child[1], True)
            elif name == "dec":
                if stage != 3:
                    bad = bad or ("task counter decremented %s" %
                                  ("before the task was executed and unlocked" if stage < 3 else "twice"))
                if child is not None and child[0] == "zero" and not (child[1] and child[2]):
                    bad = bad or "self-decrement while a released child is not yet enqueued and counted"
                stage = 4
        if node.kind == "branch":
            e = C.strip_casts(node.ast)
            if e.get("k") == "Bin" and e["op"] in ("==", "!=") and C.const_int(e["b"]) == 0 and \
                    any(n == "dec_parent" for n, _ in evs):
                z = (e["op"] == "==")
                return [(z, (stage, ("zero", False, False), bad)), (not z, (stage, ("nonzero", False, False), bad))]
        if node.kind == "marker" and node.info == "loopinc":
            # end of one child iteration: a zero result must have been enqueued and counted
            if child is not None and child[0] == "zero" and not (child[1] and child[2]):
                bad = bad or "released child (counter reached 0) not both enqueued and counted"
            if child is not None and child[0] == "pending":
                bad = bad or "result of decrement_number_of_unfinished_parents() is not tested"
            child = None
        return [(None, (stage, child, bad))]

    ex = C.explore(g, (0, None, None), transfer)
    exits = ex.at.get(g.exit.id, set())
    stages = sorted({s[0] for s in exits})
    bads = sorted({s[2] for s in exits if s[2]} | {s[2] for n in ex.at for s in ex.at[n] if s[2]})
    chk.require(not bads, "W1-W3", "execute -> stop -> unlock -> release children -> self-decrement, each once",
                where(loop, drv), "protocol breach in the hydro worker loop: %s" % "; ".join(bads),
                function=drv["qname"], construct="worker loop protocol")
    chk.require(set(stages) <= {0, 4} and 4 in stages, "W1", "every iteration that executes a task completes the protocol",
                where(loop, drv), "an iteration can end in protocol stage(s) %s (0 = no task, 4 = complete)" % stages,
                function=drv["qname"], construct="worker loop completion")
    # stage 0 exit only when no task was obtained: execute_task node dominated by a != NO_TASK test
    execs = [n for n in g.nodes if any(nm == "exec" for nm, _ in node_events(n))]
    chk.require(len(execs) == 1, "W1", "one execute_task call per iteration", where(loop, drv),
                "found %d" % len(execs), function=drv["qname"], construct="execute_task count")
    # child loop present (for over get_number_of_children)
    has_child_loop = any(s.get("k") == "For" and any(C.is_call(x, name="decrement_number_of_unfinished_parents")
                                                     for x in C.walk_stmt(s["body"]))
                         for s in C.walk_stmt(loop["body"]))
    chk.require(has_child_loop, "W2", "children are released in a loop over the task's children", where(loop, drv),
                "no loop releasing children found", function=drv["qname"], construct="child loop")

    # W5 / G6: reset + enqueue loop before the worker loop
    resets = [s for s in C.walk_stmt(drv["body"]) if s.get("k") == "For" and
              any(C.is_call(x, fn="reset_hydro_tasks") for x in C.walk_stmt(s["body"]))]
    okw5 = False
    detail = "reset/enqueue loop not found"
    if len(resets) == 1:
        lp = resets[0]
        inner = [s for s in C.walk_stmt(lp["body"]) if s.get("k") == "For"]
        adds = [x for x in C.walk_stmt(lp["body"]) if C.is_call(x, name="add_task", cls="TaskQueue")]
        incs = [x for x in C.walk_stmt(lp["body"]) if on_counter(x, "pre_increment")]
        zero_tests = [x for x in C.walk_stmt(lp["body"]) if x.get("k") == "Bin" and x["op"] in ("==", "!=") and
                      C.const_int(x["b"]) == 0 and
                      any(C.is_call(y, name="get_number_of_unfinished_parents") for y in C.walk(x["a"]))]
        bound18 = any(C.const_int(C.strip_casts(s["c"])["b"]) == 18 for s in inner
                      if s.get("c") and C.strip_casts(s["c"]).get("k") == "Bin")
        cnd = C.strip_casts(lp["c"]) if lp.get("c") else {}
        orig_end = any(C.is_call(x, name="original_end") for x in C.walk(cnd))
        begin = any(C.is_call(x, name="begin") for x in C.walk_stmt(lp["init"])) if lp.get("init") else False
        okw5 = len(adds) == 1 and len(incs) == 1 and len(zero_tests) == 1 and bound18 and orig_end and begin
        detail = "adds=%d incs=%d zero_tests=%d bound18=%s original subgrids range=%s" % (
            len(adds), len(incs), len(zero_tests), bound18, orig_end and begin)
        if okw5:
            # add/inc are control dependent on the zero test: build the CFG of the inner loop body
            gi = C.CFG(drv, body=inner[0]["body"], name="enqueue loop body", loop_body=True)

            def tr(node, st):
                seen, bad = st
                if node.kind == "branch":
                    e = C.strip_casts(node.ast)
                    if e is zero_tests[0] or any(y is zero_tests[0] for y in C.walk(e)):
                        is_zero_edge = zero_tests[0]["op"] == "=="
                        return [(True, (is_zero_edge, bad)), (False, (not is_zero_edge, bad))]
                for x in calls_in(node, lambda x: x is adds[0] or x is incs[0]):
                    if seen is not True:
                        bad = True
                return [(None, (seen, bad))]
            exi = C.explore(gi, (None, False), tr)
            okw5 = not any(s[1] for n in exi.at for s in exi.at[n])
            if not okw5:
                detail = "initial add_task / counter increment not guarded by `unfinished parents == 0`"
    chk.require(okw5, "W5", "every original subgrid is reset and its counter-0 tasks enqueued and counted once",
                where(resets[0], drv) if resets else where(drv), detail,
                function=drv["qname"], construct="reset and enqueue loop")
    # the counter is declared fresh (zero) before the enqueue loop
    chk.floor("W", 6, 6)
    # W7: "every task executes exactly once" also rests on the queues: what is handed out is removed, and what is removed is
    # what was handed out.  The hand-out rules of C08 (Q3, Q4) are re-checked here as premises, unless this run is itself
    # embedded in another check.
    if chk.tier != "embedded":
        from ..report import Check
        from . import c08
        sub = Check("C08", "embedded", "other")
        from .. import astdb as _astdb
        lib_ = _astdb.Program().library()
        c08.check_task_queue(sub, lib_)
        from .c12_bounds import rule_M7
        rule_M7(Check("C12", "embedded", "other"), lib_, gap_chk=sub, gap_rule="Q4")
        nq = 0
        for o in sub.obligations:
            if o["rule"] in ("Q3", "Q4"):
                nq += 1
                if o["verdict"] == "VIOLATED":
                    chk.fail("W7-" + o["rule"], o["instance"], o["where"], o["detail"], function=o.get("function", ""),
                             construct=o.get("construct", ""))
        chk.ok("W7", "the queues hand out each entry once: %d C08 obligations (Q3, Q4) re-checked" % nq, "src/TaskQueue.hpp")
        chk.floor("W7", nq, 2)

