"""C18-Q6: the photoionization fit evaluated by get_cross_section_verner is the published one.

The constructor stores derived quantities (1/E_0, y_w^2, 0.5 P - 5.5 - l, ...) per (Z, N, shell); the evaluation routine
combines them.  Both are extracted symbolically: stored entry -> expression in the columns read from the data file, and
returned value -> expression in the stored entries, per regime.  Their composition must equal

   inner shells (Verner & Yakovlev 1995):  sigma_0 ((y-1)^2 + y_w^2) y^(0.5 P - 5.5 - l) (1 + sqrt(y / y_a))^(-P),   y = E / E_0
   outer shell  (Verner et al. 1996):      sigma_0 ((x-1)^2 + y_w^2) y^(0.5 P - 5.5) (1 + sqrt(y / y_a))^(-P),
                                           x = E / E_0 - y_0,  y = sqrt(x^2 + y_1^2)

in the units the constructor converts to (Hz, m^2).  The meaning of the file's columns (their order in the `>>` chain)
is taken from the variable names of the constructor and is not decided.
"""
import sympy as sp

from .. import cfg as C
from ..astdb import AnalysisBroken, where
from ..sym import Converter, Env

POS = dict(positive=True)


def chain_root(e, aliases, depth=0):
    """(member root name, last index expr) of a nested subscript chain, following reference locals."""
    e = C.strip_casts(e)
    last = None
    while e is not None and depth < 12:
        depth += 1
        k = e.get("k")
        if k == "Idx":
            if last is None:
                last = e["i"]
            e = C.strip_casts(e["a"])
            continue
        if k == "Call" and e.get("op") == "[]" and e.get("obj") is not None and e["a"]:
            if last is None:
                last = e["a"][0]
            e = C.strip_casts(e["obj"])
            continue
        if k == "Ref" and e.get("id") in aliases:
            e = C.strip_casts(aliases[e["id"]])
            continue
        break
    m = C.member_name(e) if e is not None else None
    return m, last


def enum_name(e):
    e = C.strip_casts(e)
    return e.get("n") if e is not None and e.get("k") == "Ref" and e.get("dk") == "EnumConstant" else None


def local_aliases(fn):
    """local id -> expression it stands for: reference locals, and plain vector locals that are swapped / moved / assigned
    into a place rooted at a data member (`shells[k].swap(fit)`)."""
    aliases = {}
    for st in C.walk_stmt(fn["body"]):
        if st.get("k") == "Decl":
            for d in st["d"]:
                if d.get("init") is not None and (d.get("t") or "").rstrip().endswith("&"):
                    aliases[d["id"]] = d["init"]
    for st in C.walk_stmt(fn["body"]):
        if st.get("k") == "Call" and st.get("n") == "swap" and st.get("obj") is not None and len(st["a"]) == 1:
            a, o = C.strip_casts(st["a"][0]), C.strip_casts(st["obj"])
            if a.get("k") == "Ref" and "id" in a and a["id"] not in aliases:
                aliases[a["id"]] = st["obj"]
            elif o.get("k") == "Ref" and "id" in o and o["id"] not in aliases:
                aliases[o["id"]] = st["a"][0]
        elif st.get("k") == "Call" and st.get("op") == "=" and st.get("obj") is not None and len(st["a"]) == 1:
            a = C.strip_casts(st["a"][0])
            while a is not None and a.get("k") in ("Ctor",) and len(a["a"]) == 1:
                a = C.strip_casts(a["a"][0])
            if a is not None and a.get("k") == "Call" and a.get("n") == "move" and a["a"]:
                a = C.strip_casts(a["a"][0])
            if a is not None and a.get("k") == "Ref" and "id" in a and a["id"] not in aliases and \
                    "vector" in (a.get("t") or ""):
                aliases[a["id"]] = st["obj"]
    return aliases


def stored_definitions(ctor):
    """{(member, enumerator): sympy expr in the raw column symbols} from `_data_X[..][ENUM] = expr;` in the constructor."""
    out = {}
    conv = Converter(positive_atoms=True)
    aliases = local_aliases(ctor)
    for st in C.walk_stmt(ctor["body"]):
        lhs = rhs = None
        if st.get("k") == "Bin" and st["op"] == "=":
            lhs, rhs = st["a"], st["b"]
        elif st.get("k") == "Call" and st.get("op") == "=" and st.get("obj") is not None and len(st["a"]) == 1:
            lhs, rhs = st["obj"], st["a"][0]
        if lhs is None:
            continue
        m, last = chain_root(lhs, aliases)
        en = enum_name(last) if last is not None else None
        if m in ("_data_A", "_data_B") and en:
            env = Env()
            try:
                val = conv.conv(rhs, env)
            except AnalysisBroken:
                continue
            out[(m, en)] = val
    return out


def rule_Q6(chk, prog):
    xu = prog.unit("VernerCrossSections.cpp")
    fn = xu.func("VernerCrossSections::get_cross_section_verner")
    ctors = [d for d in xu.decls if d["kind"] == "function" and d.get("ctor") and d.get("body") and
             d["full"].startswith("VernerCrossSections::")]
    if len(ctors) != 1:
        raise AnalysisBroken("VernerCrossSections constructor not found")
    stored = stored_definitions(ctors[0])
    if len(stored) < 12:
        raise AnalysisBroken("VernerCrossSections constructor: only %d stored table entries recognised" % len(stored))
    epar = [p for p in fn["params"] if p["t"].replace("const ", "").strip() == "double"][0]
    E = sp.Symbol("E", **POS)
    # reference locals (const std::vector<double> &fit = _data_A[..]) and plain locals
    aliases = local_aliases(fn)
    helpers = {d["full"].split("(")[0]: d for d in xu.decls if d["kind"] == "function" and d.get("body") is not None and
               not d.get("cls")}
    used = set()

    def atoms(key, e):
        m, last = chain_root(e, aliases)
        en = enum_name(last) if last is not None else None
        if m in ("_data_A", "_data_B") and en:
            used.add((m, en))
            return sp.Symbol("%s:%s" % (m, en), **POS)
        return None
    conv = Converter(atoms=atoms, positive_atoms=True)
    leaves = []      # (conditions text, returned expr)
    depth = [0]

    def run(stmts, env, conds):
        """Straight-line evaluation with forking at every `if`; returns True when every path returned."""
        for i, st in enumerate(stmts):
            k = st.get("k")
            if k == "Block":
                if st.get("mac"):
                    continue
                if run(st["s"], env, conds):
                    return True
            elif k == "Decl":
                for d in st["d"]:
                    if d.get("init") is None or (d.get("t") or "").rstrip().endswith("&"):
                        continue
                    try:
                        env.vals[("l", d["id"])] = conv.conv(d["init"], env)
                    except AnalysisBroken:
                        env.vals.pop(("l", d["id"]), None)
            elif k == "Bin" and st["op"] == "=" and C.strip_casts(st["a"]).get("k") == "Ref":
                try:
                    env.vals[("l", C.strip_casts(st["a"])["id"])] = conv.conv(st["b"], env)
                except AnalysisBroken:
                    env.vals.pop(("l", C.strip_casts(st["a"])["id"]), None)
            elif k == "If":
                e_t, e_f = env.copy(), env.copy()
                ct = C.pretty(st["c"])[:60]
                rt = run([st["th"]] + stmts[i + 1:], e_t, conds + [ct])
                rf = run(([st["el"]] if st.get("el") is not None else []) + stmts[i + 1:], e_f, conds + ["not " + ct])
                return True
            elif k == "Return":
                rx = C.strip_casts(st["x"])
                callee = helpers.get((rx.get("fn") or "")) if rx is not None and rx.get("k") == "Call" and not rx.get("obj") else None
                if callee is not None and len(callee["params"]) == len(rx["a"]) and depth[0] < 3:
                    # a file-local helper evaluating the fit: inline it
                    e2 = Env()
                    for p_, a_ in zip(callee["params"], rx["a"]):
                        if (p_.get("t") or "").rstrip().endswith("&") and "vector" in (p_.get("t") or ""):
                            aliases[p_["id"]] = a_
                        else:
                            try:
                                e2.vals[("l", p_["id"])] = conv.conv(a_, env)
                            except AnalysisBroken:
                                pass
                    aliases.update(local_aliases(callee))
                    depth[0] += 1
                    run(callee["body"]["s"], e2, conds + ["in %s" % callee["name"]])
                    depth[0] -= 1
                    return True
                try:
                    leaves.append((list(conds), conv.conv(st["x"], env), st))
                except AnalysisBroken:
                    leaves.append((list(conds), None, st))
                return True
        return False
    env0 = Env()
    env0.vals[("l", epar["id"])] = E
    run(fn["body"]["s"], env0, [])
    n = 0
    eV = sp.Symbol("eV_to_Hz", **POS)
    seen_sets = set()
    done = set()
    for conds, val, st in leaves:
        if (st.get("l"), val) in done:
            continue
        done.add((st.get("l"), val))
        if val is None or val == 0 or not getattr(val, "free_symbols", None):
            continue
        sets = {str(s).split(":")[0] for s in val.free_symbols if ":" in str(s)}
        if len(sets) != 1:
            n += 1
            chk.fail("Q6", "the fit returned at line %s uses one parameter set" % st.get("l"), where(st, fn),
                     "the returned expression mixes %s" % sorted(sets), function=fn["full"], construct="parameter set")
            continue
        m = sets.pop()
        seen_sets.add(m)
        # substitute the stored definitions
        sub = {}
        for s2 in val.free_symbols:
            if ":" in str(s2):
                mm, en = str(s2).split(":")
                if (mm, en) not in stored:
                    raise AnalysisBroken("table entry %s is read but never stored by the constructor" % s2)
                sub[s2] = stored[(mm, en)]
        composed = val.xreplace(sub)
        raw = {str(s2): s2 for s2 in composed.free_symbols}
        need = ["E_0", "sigma_0", "y_a", "P", "y_w"] + (["l"] if m == "_data_A" else ["y_0", "y_1"])
        if any(r not in raw for r in need):
            n += 1
            chk.fail("Q6", "the %s fit (line %s) depends on all its published parameters" % (m, st.get("l")), where(st, fn),
                     "parameters missing from the evaluated formula: %s" % [r for r in need if r not in raw],
                     function=fn["full"], construct="fit parameters %s" % m)
            continue
        E0, s0, ya, P, yw = (raw[r] for r in ("E_0", "sigma_0", "y_a", "P", "y_w"))
        conv_sym = [s2 for s2 in composed.free_symbols if str(s2) not in need and s2 != E]
        # unit conversion symbols (eV -> Hz) whatever they are called: E and E_0 must appear as E / (E_0 * unit)
        unit = sp.Integer(1)
        for s2 in conv_sym:
            unit *= s2
        if m == "_data_A":
            l = raw["l"]
            y = E / (E0 * unit)
            ref = s0 * ((y - 1) ** 2 + yw ** 2) * y ** (P / 2 - sp.Rational(11, 2) - l) * (1 + sp.sqrt(y / ya)) ** (-P)
        else:
            y0, y1 = raw["y_0"], raw["y_1"]
            x = E / (E0 * unit) - y0
            y = sp.sqrt(x ** 2 + y1 ** 2)
            ref = s0 * ((x - 1) ** 2 + yw ** 2) * y ** (P / 2 - sp.Rational(11, 2)) * (1 + sp.sqrt(y / ya)) ** (-P)
        ratio = sp.simplify(sp.powsimp(sp.powdenest(composed / ref, force=True), force=True))
        n += 1
        chk.require(ratio == sp.Rational(1, 10 ** 22), "Q6",
                    "the %s fit returned at line %s is the published formula (in m^2: 1 Mb = 1e-22 m^2)" %
                    ("inner-shell" if m == "_data_A" else "outer-shell", st.get("l")),
                    where(st, fn), "evaluated formula / (published formula in Mb) = %s instead of the constant 1e-22: the code "
                    "does not evaluate the published fit" % ratio, function=fn["full"], construct="published fit %s" % m)
    n += 1
    chk.require(seen_sets == {"_data_A", "_data_B"}, "Q6", "both the inner-shell and the outer-shell fit are evaluated", where(fn),
                "parameter sets reaching a return: %s" % sorted(seen_sets), function=fn["full"], construct="both fits")
    return n
