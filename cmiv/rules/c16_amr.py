"""C16, AMR part: the octant algebra of AMRGridCell and the neighbour table of its children.

 N7  every site that descends into, creates or enumerates the eight children of a cell agrees on one encoding:
     child = 4 i_x + 2 i_y + i_z; the position-driven sites compute i_a as floor(2 (p_a - anchor_a) / side_a) (or as
     p_a > anchor_a + side_a / 2), i.e. 0 in the lower and 1 in the upper half of axis a; the index-driven sites decode the
     same bits; and the child's box is (anchor_a + i_a side_a / 2, side / 2) - so the eight child boxes tile the parent and
     the descent selects the child whose box contains the position (structural induction over the tree gives "every
     position lies in exactly one leaf" for every refinement history);
 N8  keys: one radix everywhere - three bits per level (mask 7 = 2^3 - 1, shifts by 3 or by 3 x level), leaf marker
     1 << 3 level, test `key == 1`; eight = the size of the child array;
 N9  set_ngbs hands each child, in each of the six directions, the sibling that differs in that axis' bit when the step stays
     inside the parent, and the mirrored child of the parent's neighbour in that direction when it leaves it - for all
     8 x 6 entries; the direction of a neighbour slot is taken from the slot AMRDensityGrid::get_wall_intersection asks for when
     it crosses the lower / upper wall of an axis.  Hence child-level neighbour relations are mutual.

NOT decided: key enumeration order (get_first_key / get_next_key), refinement driven by runtime criteria, the top-level block
grid of AMRGrid, round-off in the descent.
"""
import itertools

import sympy as sp

from .. import cfg as C
from ..astdb import AnalysisBroken, where
from ..sym import Converter, Env
from .c16_cart import axis_of, base_name, flat

AX = "xyz"
CLS = "AMRGridCell<unsigned long>"


def methods(lib):
    """One definition per method of AMRGridCell: the instantiation for the density grid's cell type when there is one, else
    another instantiation, else the template pattern (the octant and key arithmetic does not depend on the cell contents)."""
    best = {}
    for d in lib.decls:
        if d["kind"] != "function" or not (d.get("cls") or "").startswith("AMRGridCell") or d.get("body") is None:
            continue
        if (d.get("cls") or "").startswith("AMRGridCellTest"):
            continue
        key = (d["name"], d.get("line"))
        rank = 0 if d.get("cls") == CLS else (1 if not d.get("dependent") else 2)
        if key not in best or rank < best[key][0]:
            best[key] = (rank, d)
    return [v[1] for k, v in sorted(best.items(), key=lambda kv: (kv[0][0], kv[0][1] or 0))]


def is_position(t):
    t = (t or "").replace("const ", "").strip()
    return t.startswith("CoordinateVector<") and "int" not in t and "char" not in t and "long" not in t and "bool" not in t


def ieval(e, env):
    """Integer value of an expression over locals bound in env (id -> int); None when not evaluable."""
    e = C.strip_casts(e)
    if e is None:
        return None
    k = e.get("k")
    if k == "Int":
        return int(e["v"])
    if k == "Bool":
        return int(bool(e["v"]))
    if k == "Ref":
        if e.get("id") in env:
            return env[e["id"]]
        if "v" in e:
            return int(e["v"])
        return None
    if k == "Bin" and e["op"] in ("+", "-", "*", "<<", ">>", "&", "|", "^"):
        a, b = ieval(e["a"], env), ieval(e["b"], env)
        if a is None or b is None:
            return None
        return {"+": a + b, "-": a - b, "*": a * b, "<<": a << b, ">>": a >> b, "&": a & b, "|": a | b, "^": a ^ b}[e["op"]]
    if k == "Ctor" and len(e["a"]) == 1:
        return ieval(e["a"][0], env)
    return None


def child_indices(fn):
    """Index expressions of `_children[...]` in fn (the ones that are not literal / loop-free enumerations)."""
    out = []
    for x in C.walk_stmt(fn["body"]):
        base = idx = None
        if x.get("k") == "Idx":
            base, idx = x["a"], x["i"]
        elif x.get("k") == "Call" and x.get("op") == "[]" and x.get("obj") is not None and x["a"]:
            base, idx = x["obj"], x["a"][0]
        if base is not None and C.member_name(base) == "_children":
            out.append((x, idx))
    return out


def local_defs(fn):
    """local id -> (decl, defining expression): initialiser or the single plain assignment."""
    defs = {}
    for st in C.walk_stmt(fn["body"]):
        if st.get("k") == "Decl":
            for d in st["d"]:
                if d.get("init") is not None:
                    defs[d["id"]] = (d, d["init"])
                else:
                    defs.setdefault(d["id"], (d, None))
        elif st.get("k") == "Bin" and st.get("op") == "=":
            a = C.strip_casts(st["a"])
            if a.get("k") == "Ref" and "id" in a and defs.get(a["id"], (None, None))[1] is None:
                defs[a["id"]] = (defs.get(a["id"], ({"n": a["n"], "id": a["id"]}, None))[0], st["b"])
    return defs


def box_updates(fn):
    """Per box variable: (halving statement?, {axis: (multiplier local id, side axis)}) from
       B.get_sides() *= 0.5;  B.get_anchor()[a] += L * B.get_sides().a();"""
    out = {}
    order = []
    for st in C.walk_stmt(fn["body"]):
        k = st.get("k")
        lhs = rhs = op = None
        if k == "Bin" and st.get("op") in ("*=", "+="):
            lhs, rhs, op = st["a"], st["b"], st["op"]
        elif k == "Call" and st.get("op") in ("*=", "+=") and st.get("obj") is not None and st["a"]:
            lhs, rhs, op = st["obj"], st["a"][0], st["op"]
        if lhs is None:
            continue
        l0 = C.strip_casts(lhs)
        if op == "*=" and l0.get("k") == "Call" and l0.get("n") == "get_sides" and l0.get("obj") is not None:
            b = C.strip_casts(l0["obj"])
            f = C.strip_casts(rhs)
            if b.get("k") == "Ref" and f.get("k") == "Float":
                rec = out.setdefault(b["id"], {"name": b["n"], "half": None, "axes": {}, "order": []})
                rec["half"] = (float(f["v"]), st)
                rec["order"].append("half")
        elif op == "+=":
            base, a = axis_of(l0)
            b0 = C.strip_casts(base) if base is not None else None
            if b0 is not None and b0.get("k") == "Call" and b0.get("n") == "get_anchor" and b0.get("obj") is not None:
                b = C.strip_casts(b0["obj"])
                r = C.strip_casts(rhs)
                if b.get("k") == "Ref" and r.get("k") == "Bin" and r["op"] == "*":
                    mul = side = None
                    for x, y in ((r["a"], r["b"]), (r["b"], r["a"])):
                        x0 = C.strip_casts(x)
                        sb, sa = axis_of(y)
                        sb0 = C.strip_casts(sb) if sb is not None else None
                        if x0.get("k") == "Ref" and "id" in x0 and sb0 is not None and sb0.get("k") == "Call" and \
                                sb0.get("n") == "get_sides" and C.strip_casts(sb0["obj"]).get("id") == b["id"]:
                            mul, side = x0, sa
                    if mul is not None:
                        rec = out.setdefault(b["id"], {"name": b["n"], "half": None, "axes": {}, "order": []})
                        rec["axes"][a] = (mul["id"], mul["n"], side, st)
                        rec["order"].append(a)
    return out


BOX_HELPERS = {}      # qualified name -> function: returns the child box for three bits given as parameters, in axis order


def find_box_helpers(chk, fns):
    """Helpers `Box child_box(ix, iy, iz)`: halve the sides, offset anchor component a by parameter a times the halved side."""
    BOX_HELPERS.clear()
    n = 0
    for name, lst in fns.items():
        for fn in lst:
            ints = [p for p in fn["params"] if "id" in p and any(t in (p.get("t") or "") for t in ("unsigned", "int", "char", "long", "bool"))
                    and "Coordinate" not in (p.get("t") or "")]
            if len(ints) != 3 or len(fn["params"]) != 3 or "Box" not in (fn.get("ret") or ""):
                continue
            boxes = box_updates(fn)
            if len(boxes) != 1:
                continue
            rec = list(boxes.values())[0]
            pidx = {p["id"]: i for i, p in enumerate(fn["params"])}
            detail = []
            if rec["half"] is None or rec["half"][0] != 0.5:
                detail.append("the sides are not halved")
            if rec["order"][:1] != ["half"]:
                detail.append("the anchor is offset before the sides are halved")
            for a in range(3):
                if a not in rec["axes"]:
                    detail.append("anchor component %s is not offset" % AX[a])
                    continue
                lid, lname, side, st = rec["axes"][a]
                if side != a:
                    detail.append("anchor %s is offset by the side along %s" % (AX[a], AX[side]))
                if pidx.get(lid) != a:
                    detail.append("anchor %s is offset with parameter `%s` (parameter %s), expected parameter %d" %
                                  (AX[a], lname, pidx.get(lid), a))
            n += 1
            chk.require(not detail, "N7", "%s: builds the child box (anchor + i_a side_a / 2, side / 2) from its three bit parameters "
                        "in axis order" % fn["full"].split("(")[0], where(fn), "; ".join(detail), function=fn["full"],
                        construct="child box helper")
            BOX_HELPERS[fn["full"].split("(")[0]] = fn
            chk.analysed(function=fn["full"])
    return n


def position_site(chk, fn):
    """A site that picks / creates the child containing a position: evaluated statement by statement (three-axis loops
    unrolled, reference aliases of the box corners resolved, bits kept as symbols).  Returns the number of obligations, or
    None when fn does not compute child bits from a position."""
    from . import c16_cart as CC
    pos_params = [p for p in fn["params"] if is_position(p.get("t"))]
    if not pos_params:
        return None
    pid = pos_params[0]["id"]
    if not any(axis_of(x)[0] is not None and C.strip_casts(axis_of(x)[0]).get("id") == pid for x in C.walk_stmt(fn["body"])):
        return None
    CC.load_aliases(fn)
    label = "%s (line %s)" % (fn["full"].split("(")[0], fn.get("line"))
    bits = {a: sp.Symbol("b_%s" % AX[a], integer=True, nonnegative=True) for a in range(3)}
    env = {}            # ("l", id) / ("l", id, k) -> sympy value
    bit_checked = {}
    n = [0]
    halved = set()      # names of boxes whose sides were halved
    box_off = {}        # box name -> {axis: (expr, stmt)}
    box_order_bad = set()
    t = sp.Symbol("t", real=True)

    def box_part(e):
        """('anchor'|'sides', box name, axis) of <box>.get_anchor()[a] / alias.x() ..."""
        b, a = axis_of(e)
        if b is None:
            return None
        b0 = C.strip_casts(b)
        if b0.get("k") == "Ref" and b0.get("id") in CC._ALIASES:
            b0 = C.strip_casts(CC._ALIASES[b0["id"]])
        if b0.get("k") == "Call" and b0.get("n") in ("get_anchor", "get_sides") and b0.get("obj") is not None:
            return ("anchor" if b0["n"] == "get_anchor" else "sides", CC.base_name(b0["obj"]), a)
        return None

    def atoms(key, e):
        bp = box_part(e)
        if bp is not None:
            return sp.Symbol("%s_%s_%s" % (bp[0][0].upper(), bp[1], AX[bp[2]]), positive=(bp[0] == "sides"), real=True)
        b, a = axis_of(e)
        if b is not None:
            b0 = C.strip_casts(b)
            if b0.get("k") == "Ref" and b0.get("id") == pid:
                return sp.Symbol("p_%s" % AX[a], real=True)
            if b0.get("k") == "Ref" and ("l", b0.get("id"), a) in env:
                return env[("l", b0["id"], a)]
        e0 = C.strip_casts(e)
        if e0.get("k") == "Ref" and ("l", e0.get("id")) in env:
            return env[("l", e0["id"])]
        return None
    conv = Converter(atoms=atoms)

    def axis_symbols(v):
        axes = set()
        for s_ in getattr(v, "free_symbols", set()):
            nm = str(s_)
            if nm.startswith("p_") or nm.startswith("A_") or nm.startswith("S_"):
                axes.add(AX.index(nm[-1]))
        return axes

    def classify(v, node, what):
        """v is an expression of position / corner components: must be 2 (p_a - A_a) / S_a, or the test p_a > A_a + S_a / 2;
        returns the bit symbol of its axis"""
        axes = axis_symbols(v)
        if len(axes) != 1:
            return None
        a = axes.pop()
        P = sp.Symbol("p_%s" % AX[a], real=True)
        As = [s_ for s_ in v.free_symbols if str(s_).startswith("A_")]
        Ss = [s_ for s_ in v.free_symbols if str(s_).startswith("S_")]
        ok = len(As) == 1 and len(Ss) == 1 and str(As[0])[2:] == str(Ss[0])[2:]
        if ok:
            w = v.subs(P, As[0] + t * Ss[0])
            if isinstance(w, sp.core.relational.Relational):
                ok = sp.simplify((w.lhs - w.rhs) / Ss[0] - (t - sp.Rational(1, 2))) == 0 and w.rel_op in (">", ">=")
            else:
                ok = sp.simplify(w - 2 * t) == 0
        n[0] += 1
        chk.require(ok, "N7", "%s: the %s bit of the child is 0 in the lower and 1 in the upper half of the cell along %s" %
                    (label, AX[a], AX[a]), where(node, fn), "`%s` is %s, not floor(2 (p - anchor) / side) (or p > anchor + side / 2) "
                    "of axis %s" % (what, v, AX[a]), function=fn["full"], construct="octant bit %s" % AX[a])
        return bits[a]

    def value(e, node, what):
        v = conv.conv(e, Env())
        if axis_symbols(v) and not (getattr(v, "free_symbols", set()) & set(bits.values())):
            b = classify(v, node, what)
            if b is not None:
                return b
            return sp.Symbol("unclassified_%s" % (node.get("l") if isinstance(node, dict) else "x"), integer=True)
        return v

    def assign(lhs, op, rhs, node):
        l0 = C.strip_casts(lhs)
        bp = box_part(l0)
        if bp is not None and bp[0] == "anchor" and op == "+=":
            v = conv.conv(rhs, Env())
            box_off.setdefault(bp[1], {})[bp[2]] = (v, node)
            if bp[1] not in halved:
                box_order_bad.add(bp[1])
            return
        key = None
        if l0.get("k") == "Ref" and "id" in l0:
            key = ("l", l0["id"])
        else:
            b, a = axis_of(l0)
            if b is not None and C.strip_casts(b).get("k") == "Ref" and "id" in C.strip_casts(b):
                key = ("l", C.strip_casts(b)["id"], a)
        if key is None:
            return
        if "double" in (l0.get("t") or "") or "Coordinate" in (l0.get("t") or "") or "Box" in (l0.get("t") or ""):
            return
        try:
            v = value(rhs, node, C.pretty(lhs))
        except AnalysisBroken:
            return
        old = env.get(key, sp.Integer(0))
        env[key] = {"=": v, "+=": old + v, "|=": old + v, "-=": old - v}.get(op, v)

    def run(stmts):
        for st in CC.flat(stmts):
            k = st.get("k")
            if k == "Decl":
                for d in st["d"]:
                    if d.get("init") is None or "Coordinate" in (d.get("t") or "") or "Box" in (d.get("t") or "") or \
                            "*" in (d.get("t") or ""):
                        continue
                    try:
                        env[("l", d["id"])] = value(d["init"], st, d["n"])
                    except AnalysisBroken:
                        pass
            elif k == "Bin" and st.get("op") in ("=", "+=", "|=", "-=", "*="):
                l0 = C.strip_casts(st["a"])
                if st["op"] == "*=" and l0.get("k") == "Call" and l0.get("n") == "get_sides":
                    f = C.strip_casts(st["b"])
                    if f.get("k") == "Float" and float(f["v"]) == 0.5:
                        halved.add(CC.base_name(l0["obj"]))
                    continue
                assign(st["a"], st["op"], st["b"], st)
            elif k == "Call" and st.get("op") in ("=", "+=", "|=", "-=", "*=") and st.get("obj") is not None and st["a"]:
                l0 = C.strip_casts(st["obj"])
                if st["op"] == "*=" and l0.get("k") == "Call" and l0.get("n") == "get_sides":
                    f = C.strip_casts(st["a"][0])
                    if f.get("k") == "Float" and float(f["v"]) == 0.5:
                        halved.add(CC.base_name(l0["obj"]))
                    continue
                if st["op"] == "*=" and l0.get("k") == "Ref" and l0.get("id") in CC._ALIASES:
                    al = C.strip_casts(CC._ALIASES[l0["id"]])
                    f = C.strip_casts(st["a"][0])
                    if al.get("k") == "Call" and al.get("n") == "get_sides" and f.get("k") == "Float" and float(f["v"]) == 0.5:
                        halved.add(CC.base_name(al["obj"]))
                    continue
                assign(st["obj"], st["op"], st["a"][0], st)
            elif k == "If":
                # `if (p_a > mid_a) child |= w;`: the bit of axis a times w
                c = None
                try:
                    c = conv.conv(st["c"], Env())
                except AnalysisBroken:
                    pass
                if c is not None and axis_symbols(c) and not (getattr(c, "free_symbols", set()) & set(bits.values())):
                    b = classify(c, st, C.pretty(st["c"])[:50])
                    inner = CC.flat([st["th"]])
                    if b is not None and st.get("el") is None and len(inner) == 1 and inner[0].get("k") == "Bin" and \
                            inner[0]["op"] in ("|=", "+=") and C.const_int(inner[0]["b"]) is not None:
                        l0 = C.strip_casts(inner[0]["a"])
                        if l0.get("k") == "Ref" and "id" in l0:
                            key = ("l", l0["id"])
                            env[key] = env.get(key, sp.Integer(0)) + C.const_int(inner[0]["b"]) * b
                            continue
                run([st["th"]])
                if st.get("el") is not None:
                    run([st["el"]])
            elif k in ("For", "While", "Do"):
                run([st.get("body")])
    run(fn["body"]["s"])
    # child indices
    want = 4 * bits[0] + 2 * bits[1] + bits[2]
    seen_idx = 0
    for x, idx in child_indices(fn):
        try:
            v = sp.expand(conv.conv(idx, Env()))
        except AnalysisBroken:
            continue
        if not (getattr(v, "free_symbols", set()) & set(bits.values())):
            continue
        seen_idx += 1
        n[0] += 1
        chk.require(sp.expand(v - want) == 0, "N7", "%s: `%s` is child 4 i_x + 2 i_y + i_z" % (label, C.pretty(x)[:60]), where(x, fn),
                    "the index is %s" % v, function=fn["full"], construct="child index")
    if not seen_idx:
        return None
    for x in C.walk_stmt(fn["body"]):
        if x.get("k") == "Call" and x.get("fn") in BOX_HELPERS and len(x["a"]) == 3:
            try:
                vals = [sp.expand(conv.conv(a_, Env())) for a_ in x["a"]]
            except AnalysisBroken:
                continue
            n[0] += 1
            chk.require(all(sp.expand(vals[a] - bits[a]) == 0 for a in range(3)), "N7", "%s: the child box helper is given the bits "
                        "of x, y, z in that order" % label, where(x, fn), "arguments: %s" % vals, function=fn["full"],
                        construct="child box arguments")
    # child boxes
    for bname, offs in sorted(box_off.items()):
        detail = []
        if bname not in halved:
            detail.append("the sides of %s are not halved" % bname)
        if bname in box_order_bad:
            detail.append("the anchor of %s is offset before its sides are halved (offset = a full side)" % bname)
        for a in range(3):
            if a not in offs:
                detail.append("anchor component %s of %s is not offset" % (AX[a], bname))
                continue
            v, node = offs[a]
            S = sp.Symbol("S_%s_%s" % (bname, AX[a]), positive=True, real=True)
            if sp.expand(v - bits[a] * S) != 0:
                detail.append("anchor %s is offset by %s, expected (bit of %s) x (side along %s)" % (AX[a], v, AX[a], AX[a]))
        n[0] += 1
        chk.require(not detail, "N7", "%s: the child box `%s` is (anchor + i_a side_a / 2, side / 2) on every axis" % (label, bname),
                    where(fn), "; ".join(detail), function=fn["full"], construct="child box %s" % bname)
    return n[0]


def rule_octants(chk, lib):
    fns = {}
    for d in methods(lib):
        fns.setdefault(d["name"], []).append(d)
    if not fns:
        raise AnalysisBroken("AMRGridCell has no methods in the library")
    n = find_box_helpers(chk, fns)
    sites = len(BOX_HELPERS)
    for name in sorted(fns):
        for fn in fns[name]:
            if fn["full"].split("(")[0] in BOX_HELPERS:
                continue
            idxs = child_indices(fn)
            if not idxs:
                continue
            k_pos = position_site(chk, fn)
            if k_pos is not None:
                n += k_pos
                sites += 1
                chk.analysed(function=fn["full"])
                continue
            defs = local_defs(fn)
            boxes = box_updates(fn)
            pos_params = [p for p in fn["params"] if is_position(p.get("t"))]
            # axis locals: locals whose definition mentions a component of the position parameter, or bit operations on an index
            axis_local = {}      # axis -> local id
            kind = None
            for lid, (d, init) in defs.items():
                if init is None:
                    continue
                comps = set()
                for x in C.walk(init):
                    b, a = axis_of(x)
                    if b is not None and pos_params and C.strip_casts(b).get("id") == pos_params[0]["id"]:
                        comps.add(a)
                if len(comps) == 1:
                    axis_local[comps.pop()] = lid
                    kind = "position"
            if kind is None and boxes:
                # index-driven: the axis of a local is the axis of the anchor it offsets
                for bid, rec in boxes.items():
                    for a, (lid, lname, side, st) in rec["axes"].items():
                        axis_local[a] = lid
                kind = "index"
            if kind is None:
                # index-driven through a box helper: the axis of a local is the position at which it is handed to the helper
                for x in C.walk_stmt(fn["body"]):
                    if x.get("k") == "Call" and x.get("fn") in BOX_HELPERS and len(x["a"]) == 3:
                        for a, arg in enumerate(x["a"]):
                            a0 = C.strip_casts(arg)
                            if a0.get("k") == "Ref" and "id" in a0:
                                axis_local[a] = a0["id"]
                        kind = "index"
            if set(axis_local) != {0, 1, 2}:
                continue        # a site that only passes a key digit on (operator[], refine's descent, get_next_key)
            sites += 1
            chk.analysed(function=fn["full"])
            label = "%s (line %s)" % (fn["full"].split("(")[0], fn.get("line"))
            if kind == "position":
                # (d) i_a = floor(2 (p_a - A_a) / S_a), or p_a > A_a + S_a / 2
                conv = Converter(atoms=lambda key, e: comp_atom(e), positive_atoms=False)
                for a in range(3):
                    d, init = defs[axis_local[a]]
                    t = sp.Symbol("t", real=True)
                    try:
                        v = conv.conv(init, Env())
                    except AnalysisBroken as ex:
                        raise AnalysisBroken("%s: cannot read the definition of %s: %s" % (label, d["n"], ex))
                    P, A, S = sp.Symbol("p_%s" % AX[a], real=True), sp.Symbol("A_%s" % AX[a], real=True), \
                        sp.Symbol("S_%s" % AX[a], positive=True)
                    others = {s_ for s_ in getattr(v, "free_symbols", set())} - {P, A, S}
                    ok = not others
                    if ok:
                        w = v.subs(P, A + t * S)
                        if isinstance(w, sp.core.relational.Relational):
                            ok = sp.simplify((w.lhs - w.rhs) / S - (t - sp.Rational(1, 2))) == 0 and w.rel_op in (">", ">=")
                        else:
                            ok = sp.simplify(w - 2 * t) == 0
                    n += 1
                    chk.require(ok, "N7", "%s: the %s bit of the child is 0 in the lower and 1 in the upper half of the cell along %s" %
                                (label, AX[a], AX[a]), where(d if "l" in d else fn, fn),
                                "`%s` is defined as %s, not as floor(2 (p - anchor) / side) of axis %s" % (d["n"], v, AX[a]),
                                function=fn["full"], construct="octant bit %s" % AX[a])
                # (a) child = 4 ix + 2 iy + iz at every _children[...] site
                for x, idx in idxs:
                    bad = None
                    for bits in itertools.product((0, 1), repeat=3):
                        env = {axis_local[a]: bits[a] for a in range(3)}
                        # the index may go through a local (`cell`, `child`)
                        i0 = C.strip_casts(idx)
                        if i0.get("k") == "Ref" and i0.get("id") in defs and defs[i0["id"]][1] is not None and \
                                i0["id"] not in env:
                            i0 = defs[i0["id"]][1]
                        got = ieval(i0, env)
                        if got is None:
                            bad = "not evaluable"
                            break
                        if got != 4 * bits[0] + 2 * bits[1] + bits[2]:
                            bad = "bits (x,y,z) = %s give child %d, expected %d" % (bits, got, 4 * bits[0] + 2 * bits[1] + bits[2])
                            break
                    if bad == "not evaluable":
                        continue
                    n += 1
                    chk.require(bad is None, "N7", "%s: `%s` is child 4 i_x + 2 i_y + i_z" % (label, C.pretty(x)[:60]), where(x, fn),
                                bad or "", function=fn["full"], construct="child index")
            else:
                # (b) decode: the bits of the index
                src = None
                for a in range(3):
                    d, init = defs[axis_local[a]]
                    refs = [r for r in C.walk(init) if r.get("k") == "Ref" and "id" in r]
                    if len(refs) != 1:
                        raise AnalysisBroken("%s: `%s` is not a function of the child index alone" % (label, d["n"]))
                    src = refs[0]["id"] if src is None else src
                    if refs[0]["id"] != src:
                        raise AnalysisBroken("%s: the three bits are taken from different variables" % label)
                bad = None
                for c in range(8):
                    bits = [ieval(defs[axis_local[a]][1], {src: c}) for a in range(3)]
                    if None in bits or 4 * bits[0] + 2 * bits[1] + bits[2] != c or any(b not in (0, 1) for b in bits):
                        bad = "child %d decodes to bits (x,y,z) = %s" % (c, bits)
                        break
                n += 1
                chk.require(bad is None, "N7", "%s: the child index decodes to (i_x, i_y, i_z) with index = 4 i_x + 2 i_y + i_z" % label,
                            where(fn), bad or "", function=fn["full"], construct="octant decode")
            # (c) the child's box
            for bid, rec in boxes.items():
                detail = []
                if rec["half"] is None or rec["half"][0] != 0.5:
                    detail.append("the sides of %s are not halved" % rec["name"])
                if rec["order"][:1] != ["half"]:
                    detail.append("the anchor of %s is offset before its sides are halved (offset = a full side)" % rec["name"])
                for a in range(3):
                    if a not in rec["axes"]:
                        detail.append("anchor component %s of %s is not offset" % (AX[a], rec["name"]))
                        continue
                    lid, lname, side, st = rec["axes"][a]
                    if side != a:
                        detail.append("anchor %s is offset by the side along %s" % (AX[a], AX[side]))
                    if lid != axis_local[a]:
                        detail.append("anchor %s is offset with `%s`, which is the bit of another axis" % (AX[a], lname))
                n += 1
                chk.require(not detail, "N7", "%s: the child box `%s` is (anchor + i_a side_a / 2, side / 2) on every axis" %
                            (label, rec["name"]), where(rec["half"][1] if rec["half"] else fn, fn), "; ".join(detail),
                            function=fn["full"], construct="child box %s" % rec["name"])
    chk.note("N7: %d sites with octant arithmetic in %s" % (sites, CLS))
    if sites < 4:
        raise AnalysisBroken("N7: only %d octant sites found in %s (7 confirmed by hand)" % (sites, CLS))
    return n


def comp_atom(e):
    """p_a for position components, A_a / S_a for <box>.get_anchor() / get_sides() components."""
    b, a = axis_of(e)
    if b is None:
        return None
    b0 = C.strip_casts(b)
    if b0.get("k") == "Ref" and is_position(b0.get("t")):
        return sp.Symbol("p_%s" % AX[a], real=True)
    if b0.get("k") == "Call" and b0.get("n") == "get_anchor":
        return sp.Symbol("A_%s" % AX[a], real=True)
    if b0.get("k") == "Call" and b0.get("n") == "get_sides":
        return sp.Symbol("S_%s" % AX[a], positive=True)
    return None


# ------------------------------------------------------------------------------------------------ N8
def rule_keys(chk, lib):
    n = 0
    fns = methods(lib)
    masks, shifts, level_shifts = [], [], []
    for fn in fns:
        pids = {p_["id"] for p_ in fn["params"] if "id" in p_}
        defs = local_defs(fn)

        def mentions_param(e):
            return any(r.get("k") == "Ref" and r.get("id") in pids for r in C.walk(e))

        def from_call(e):
            e0 = C.strip_casts(e)
            return e0.get("k") == "Ref" and e0.get("id") in defs and defs[e0["id"]][1] is not None and \
                C.strip_casts(defs[e0["id"]][1]).get("k") == "Call"
        # a key digit is what indexes the child array: `cell = key & M; _children[cell]` (or `(key >> 3 L) & M`)
        index_exprs = [C.strip_casts(idx) for _, idx in child_indices(fn)]
        index_ids = {i_.get("id") for i_ in index_exprs if i_.get("k") == "Ref"}
        key_ids = set()
        seen = set()
        cand_masks = []
        for x in C.walk_stmt(fn["body"]):
            if id(x) in seen:
                continue
            seen.add(id(x))
            if x.get("k") == "Bin" and x["op"] == "&" and C.const_int(x["b"]) is not None:
                used_as_index = any(x is i_ for i_ in index_exprs)
                for lid, (d_, init_) in defs.items():
                    if init_ is not None and C.strip_casts(init_) is x and lid in index_ids:
                        used_as_index = True
                if used_as_index:
                    cand_masks.append(x)
                    for r in C.walk(x["a"]):
                        if r.get("k") == "Ref" and "id" in r and r.get("id") in pids:
                            key_ids.add(r["id"])
        for x in cand_masks:
            masks.append((fn, x, C.const_int(x["b"])))
        seen = set()
        for x in C.walk_stmt(fn["body"]):
            if id(x) in seen:
                continue
            seen.add(id(x))
            if x.get("k") == "Bin" and x["op"] in (">>=", ">>", "<<"):
                rhs = C.strip_casts(x["b"])
                c = C.const_int(rhs)
                lroot = C.strip_casts(x["a"])
                if c is not None:
                    if (x["op"] in (">>=", ">>") and lroot.get("k") == "Ref" and lroot.get("id") in key_ids) or \
                            (x["op"] == "<<" and from_call(x["a"])):
                        shifts.append((fn, x, c))
                elif rhs.get("k") == "Bin" and rhs["op"] == "*" and mentions_param(rhs):
                    f = C.const_int(rhs["a"]) if C.const_int(rhs["a"]) is not None else C.const_int(rhs["b"])
                    if f is not None:
                        level_shifts.append((fn, x, f))
    if len(masks) < 3 or len(shifts) < 3 or len(level_shifts) < 3:
        raise AnalysisBroken("N8: key arithmetic sites not found (masks %d, shifts %d, per-level shifts %d)" %
                             (len(masks), len(shifts), len(level_shifts)))
    rec = [d for d in lib.decls if d["kind"] == "record" and d.get("qname", d.get("name", "")).startswith("AMRGridCell")]
    for fn, x, m in masks:
        n += 1
        chk.require(m == 7, "N8", "%s line %s: a key digit is extracted with mask 7 (one of eight children)" %
                    (fn["name"], x.get("l")), where(x, fn), "mask %d" % m, function=fn["full"], construct="key mask")
    for fn, x, c in shifts:
        n += 1
        chk.require(c == 3, "N8", "%s line %s: a key moves by one level = 3 bits" % (fn["name"], x.get("l")), where(x, fn),
                    "shift by %d" % c, function=fn["full"], construct="key shift")
    for fn, x, f in level_shifts:
        n += 1
        chk.require(f == 3, "N8", "%s line %s: the digit of level L sits at bit 3 L" % (fn["name"], x.get("l")), where(x, fn),
                    "shift by %d x level" % f, function=fn["full"], construct="key level shift")
    return n


# ------------------------------------------------------------------------------------------------ N9
def rule_set_ngbs(chk, lib):
    fn = [d for d in methods(lib) if d["name"] == "set_ngbs"]
    if not fn:
        raise AnalysisBroken("%s::set_ngbs not found" % CLS)
    fn = fn[0]
    chk.analysed(function=fn["full"])
    params = fn["params"]
    if len(params) != 6:
        raise AnalysisBroken("set_ngbs: expected six neighbour parameters")
    # slot of each parameter: _ngbs[SLOT] = param
    slot_of_param = {}
    for st in C.walk_stmt(fn["body"]):
        if st.get("k") == "Bin" and st.get("op") == "=":
            l0, r0 = C.strip_casts(st["a"]), C.strip_casts(st["b"])
            if l0.get("k") == "Idx" and C.member_name(l0["a"]) == "_ngbs" and r0.get("k") == "Ref" and \
                    r0.get("id") in [p["id"] for p in params]:
                s = C.const_int(l0["i"])
                if s is not None:
                    slot_of_param[r0["id"]] = s
    if len(slot_of_param) != 6 or sorted(slot_of_param.values()) != list(range(6)):
        raise AnalysisBroken("set_ngbs: the six parameters are not stored in six distinct slots")
    # direction of each slot: from the traversal that asks for a slot when it crosses a wall
    slot_dir = slot_directions(lib)
    if sorted(slot_dir) != list(range(6)) or sorted(slot_dir.values()) != sorted((a, s) for a in range(3) for s in (-1, 1)):
        raise AnalysisBroken("AMRDensityGrid::get_wall_intersection does not assign the six neighbour slots to the six directions")
    dir_of_param = {pid: slot_dir[s] for pid, s in slot_of_param.items()}
    mask = {0: 4, 1: 2, 2: 1}
    n = 0
    seen = set()
    for st in C.walk_stmt(fn["body"]):
        if not (st.get("k") == "Call" and st.get("n") == "set_ngbs" and st.get("obj") is not None and len(st["a"]) == 6):
            continue
        o = C.strip_casts(st["obj"])
        while o.get("k") in ("Un",) and o.get("op") == "*":
            o = C.strip_casts(o["x"])
        child = None
        for x in C.walk(o):
            if x.get("k") == "Idx" and C.member_name(x["a"]) == "_children":
                child = C.const_int(x["i"])
        if child is None:
            raise AnalysisBroken("set_ngbs: recursive call on something that is not _children[<constant>] (line %s)" % st.get("l"))
        seen.add(child)
        for j, arg in enumerate(st["a"]):
            axis, sign = dir_of_param[params[j]["id"]]      # the j-th argument fills the callee's j-th parameter
            a0 = C.strip_casts(arg)
            bit = 1 if (child & mask[axis]) else 0
            inside = (bit == 1 and sign < 0) or (bit == 0 and sign > 0)
            want_child = child ^ mask[axis]
            got = None
            if a0.get("k") == "Idx" and C.member_name(a0["a"]) == "_children":
                got = ("sibling", C.const_int(a0["i"]), None)
            elif a0.get("k") == "Call" and a0.get("n") == "get_child_safe" and len(a0["a"]) == 2:
                p0 = C.strip_casts(a0["a"][0])
                got = ("outside", C.const_int(a0["a"][1]), dir_of_param.get(p0.get("id")) if p0.get("k") == "Ref" else None)
            dname = "%s%s" % ("-" if sign < 0 else "+", AX[axis])
            n += 1
            if inside:
                ok = got is not None and got[0] == "sibling" and got[1] == want_child
                want = "the sibling _children[%d]" % want_child
            else:
                ok = got is not None and got[0] == "outside" and got[1] == want_child and got[2] == (axis, sign)
                want = "child %d of the parent's %s neighbour" % (want_child, dname)
            chk.require(ok, "N9", "set_ngbs: the %s neighbour of child %d is %s" % (dname, child, want), where(arg, fn),
                        "the argument is `%s`" % C.pretty(arg)[:80], function=fn["full"], construct="child neighbour")
    n += 1
    chk.require(seen == set(range(8)), "N9", "set_ngbs recurses into all eight children", where(fn),
                "children handled: %s" % sorted(seen), function=fn["full"], construct="all children")
    return n


def slot_directions(lib):
    """slot value -> (axis, sign), from AMRDensityGrid::get_wall_intersection: the slot requested under a test of the sign of
    next_direction[axis] (or of the direction component of that axis)."""
    fns = [d for d in lib.decls if d["kind"] == "function" and d["full"].split("(")[0] == "AMRDensityGrid::get_wall_intersection"
           and d.get("body")]
    if not fns:
        raise AnalysisBroken("AMRDensityGrid::get_wall_intersection not found")
    fn = fns[0]
    out = {}

    def visit(st, ctx):
        k = st.get("k")
        if k == "Block":
            for s in st["s"]:
                visit(s, ctx)
        elif k == "If":
            c = C.strip_casts(st["c"])
            facts = None
            if c.get("k") == "Bin" and c["op"] in ("<", ">"):
                b, a = axis_of(c["a"])
                zero = C.strip_casts(c["b"])
                if b is not None and zero.get("k") in ("Float", "Int") and float(zero["v"]) == 0.0 and \
                        "direction" in base_name(b):
                    facts = (a, -1 if c["op"] == "<" else 1)
            visit(st["th"], facts if facts else ctx)
            if st.get("el") is not None:
                visit(st["el"], (facts[0], -facts[1]) if facts else ctx)
        elif k == "Bin" and st.get("op") == "=" and ctx is not None:
            r = C.strip_casts(st["b"])
            l = C.strip_casts(st["a"])
            if r.get("k") == "Ref" and r.get("dk") == "EnumConstant" and "Position" in (l.get("t") or "") + (r.get("t") or ""):
                v = int(r["v"]) if "v" in r else None
                if v is not None:
                    if v in out and out[v] != ctx:
                        raise AnalysisBroken("get_wall_intersection requests neighbour slot %d for two different directions" % v)
                    out[v] = ctx
    visit(fn["body"], None)
    return out


def run(chk, lib):
    n7 = rule_octants(chk, lib)
    chk.floor("N7", n7, 20)
    n8 = rule_keys(chk, lib)
    chk.floor("N8", n8, 9)
    n9 = rule_set_ngbs(chk, lib)
    chk.floor("N9", n9, 49)
    n10 = rule_pure_lookup(chk, lib)
    chk.floor("N10", n10, 3)


# ------------------------------------------------------------------------------------------------ N10
def rule_pure_lookup(chk, lib):
    """Locating a position is a function of the position and of the grid as it is now: the implementations of
    get_cell_index and everything they call keep no memory between calls (no static / thread_local locals) and write
    neither members nor globals."""
    by_name = {}
    for d in lib.decls:
        if d["kind"] == "function" and d.get("body") is not None:
            by_name.setdefault(d["full"].split("(")[0], []).append(d)
    roots = [d for d in lib.decls if d["kind"] == "function" and d.get("body") is not None and d["name"] == "get_cell_index" and
             (d.get("cls") or "").endswith("DensityGrid") and not d.get("dependent")]
    if len(roots) < 3:
        raise AnalysisBroken("N10: get_cell_index implementations of the grids not found (%d)" % len(roots))
    n = 0
    for root in sorted(roots, key=lambda d: d["full"]):
        seen = set()
        work = [(root, 0)]
        bad = []
        nfn = 0
        while work:
            fn, depth = work.pop()
            if id(fn) in seen or depth > 5:
                continue
            seen.add(id(fn))
            nfn += 1
            chk.analysed(function=fn["full"])
            local_ids = {p["id"] for p in fn["params"] if "id" in p}
            for x in C.walk_stmt(fn["body"]):
                if x.get("mac"):
                    continue
                k = x.get("k")
                if k == "Decl":
                    for d in x["d"]:
                        local_ids.add(d["id"])
                        if d.get("static"):
                            bad.append((x, fn, "`%s` in %s is a static / thread_local local: it remembers something from an earlier "
                                        "call, and nothing invalidates it when the grid changes" % (d["n"], fn["full"].split("(")[0])))
                lhs = None
                if k == "Bin" and x.get("op", "").endswith("=") and x["op"] not in ("==", "!=", "<=", ">="):
                    lhs = x["a"]
                elif k == "Call" and (x.get("op") or "").endswith("=") and x.get("op") not in ("==", "!=", "<=", ">=") and \
                        x.get("obj") is not None:
                    lhs = x["obj"]
                elif k == "Un" and x.get("op") in ("pre++", "post++", "pre--", "post--"):
                    lhs = x["x"]
                if lhs is not None:
                    r = C.strip_casts(lhs)
                    while r is not None and r.get("k") in ("Idx", "Mem", "Call", "Un"):
                        if r.get("k") == "Mem":
                            b = C.strip_casts(r["b"])
                            if b.get("k") == "This":
                                bad.append((x, fn, "%s writes the member `%s`" % (fn["full"].split("(")[0], r["n"])))
                                break
                            r = b
                        elif r.get("k") == "Idx":
                            r = C.strip_casts(r["a"])
                        elif r.get("k") == "Un":
                            r = C.strip_casts(r["x"])
                        else:
                            r = C.strip_casts(r["obj"]) if r.get("obj") is not None else None
                    if r is not None and r.get("k") == "Ref" and "id" not in r and r.get("dk") == "Var":
                        bad.append((x, fn, "%s writes the global `%s`" % (fn["full"].split("(")[0], r.get("n"))))
                if k == "Call" and x.get("fn"):
                    for c in by_name.get(x["fn"], [])[:3]:
                        if (c.get("cls") or "").startswith("std::") or c["full"].startswith("std::"):
                            continue
                        work.append((c, depth + 1))
        n += 1
        chk.require(not bad, "N10", "%s and the %d functions it calls keep no state between look-ups" %
                    (root["full"].split("(")[0], nfn - 1), where(bad[0][0], bad[0][1]) if bad else where(root),
                    "; ".join(b[2] for b in bad[:3]) + ": after a refinement the remembered answer names a cell that no longer "
                    "contains the position", function=root["full"], construct="pure look-up")
    return n
