"""C09-R6: a container that is dumped element by element is dumped in full.

"The restarted state equals the dumped state" needs the writer to dump every element the run uses.  Where the writer loops
`for (i = 0; i < B; ++i) write(M[i])` over a vector member M with a computed bound B (not M.size()), B is compared with
the size S the *primary* constructor gives M (`M.resize(S)` / `M(S)`): both are converted to formulas over the members of
the class - constructor parameters are mapped to the members they initialise, const locals and loop-free helper methods
are inlined, vector-valued helpers component by component - and B / S must not depend on any member: a factor such as
`_number_of_cells.y()` in B where S has `.z()` is a table that is dumped (and restored) shorter or longer than it is.
Factors that are opaque locals of the two functions (a mode count computed in the constructor, read back from a size in
the writer) cannot be identified with each other and are not compared.
"""
import sympy as sp

from .. import cfg as C
from ..astdb import AnalysisBroken, where
from ..sym import Converter, Env

AX = "xyz"


def comp(e):
    """(base expr, axis) of b.x() / b[c]"""
    e = C.strip_casts(e)
    if e.get("k") == "Call" and e.get("obj") is not None and not e["a"] and e.get("n") in ("x", "y", "z"):
        return e["obj"], AX.index(e["n"])
    if e.get("k") == "Call" and e.get("op") == "[]" and e.get("obj") is not None and e["a"]:
        i = C.const_int(e["a"][0])
        if i in (0, 1, 2):
            return e["obj"], i
    return None, None


class SizeConv:
    def __init__(self, lib, fn, param_to_member):
        self.lib, self.fn, self.p2m = lib, fn, param_to_member
        self.defs = {}
        for st in C.walk_stmt(fn["body"]):
            if st.get("k") == "Decl":
                for d in st["d"]:
                    if d.get("init") is not None and "const" in (d.get("t") or ""):
                        self.defs[d["id"]] = d["init"]
        self.conv = Converter(atoms=self.atoms, positive_atoms=True, call_hook=self.call)
        self.member_syms = set()

    def msym(self, name, a=None):
        s = sp.Symbol("%s%s" % (name, ("." + AX[a]) if a is not None else ""), positive=True)
        self.member_syms.add(s)
        return s

    def vec_components(self, e, depth=0):
        """three component expressions of a vector-valued expression, or None"""
        e = C.strip_casts(e)
        if e is None or depth > 5:
            return None
        while e.get("k") == "Ctor" and len(e["a"]) == 1:
            e = C.strip_casts(e["a"][0])
        if e.get("k") == "Ctor" and len(e["a"]) == 3:
            return list(e["a"])
        if e.get("k") == "Ref" and e.get("id") in self.defs:
            return self.vec_components(self.defs[e["id"]], depth + 1)
        if e.get("k") == "Call" and not e.get("op") and e.get("fn"):
            callee = [d for d in self.lib.decls if d["kind"] == "function" and d.get("body") is not None and
                      d["full"].split("(")[0] == e["fn"] and len(d["params"]) == len(e["a"])]
            if callee:
                rets = [s for s in C.walk_stmt(callee[0]["body"]) if s.get("k") == "Return" and s.get("x") is not None]
                if len(rets) == 1:
                    comps = SizeConv(self.lib, callee[0], {}).vec_components(rets[0]["x"], depth + 1)
                    if comps is not None:
                        m = {p["id"]: a for p, a in zip(callee[0]["params"], e["a"]) if "id" in p}
                        return [_subst(c, m) for c in comps]
        return None

    def atoms(self, key, e):
        b, a = comp(e)
        if b is not None:
            b0 = C.strip_casts(b)
            m = C.member_name(b0)
            if m:
                return self.msym(m, a)
            if b0.get("k") == "Ref" and b0.get("id") in self.p2m:
                return self.msym(self.p2m[b0["id"]], a)
            comps = self.vec_components(b0)
            if comps is not None:
                return self.conv.conv(comps[a], Env())
            return None
        e0 = C.strip_casts(e)
        m = C.member_name(e0)
        if m:
            return self.msym(m)
        if e0.get("k") == "Ref" and e0.get("id") in self.p2m:
            return self.msym(self.p2m[e0["id"]])
        if e0.get("k") == "Ref" and e0.get("id") in self.defs:
            try:
                return self.conv.conv(self.defs[e0["id"]], Env())
            except AnalysisBroken:
                return None
        return None

    def call(self, e, env, conv):
        # x.size() of a member: an opaque positive symbol of its own (not a member-valued factor that can be compared)
        return None

    def value(self, e):
        return self.conv.conv(e, Env())


def _subst(e, m):
    if isinstance(e, dict):
        if e.get("k") == "Ref" and e.get("id") in m:
            return m[e["id"]]
        return {k: _subst(v, m) for k, v in e.items()}
    if isinstance(e, list):
        return [_subst(v, m) for v in e]
    return e


def callees_of(lib, fn):
    """(call node, callee body-holder, parameter list) for calls in fn to library functions with a body and to local lambdas."""
    lambdas = {}
    for st in C.walk_stmt(fn["body"]):
        if st.get("k") == "Decl":
            for d in st["d"]:
                i0 = C.strip_casts(d["init"]) if d.get("init") is not None else None
                while i0 is not None and i0.get("k") == "Ctor" and len(i0["a"]) == 1:
                    i0 = C.strip_casts(i0["a"][0])
                if i0 is not None and i0.get("k") == "Lambda":
                    lambdas[d["id"]] = i0
    out = []
    seen = set()
    for x in C.walk_stmt(fn["body"]):
        if x.get("k") != "Call" or id(x) in seen:
            continue
        seen.add(id(x))
        lam = None
        for key in ("obj", "callee"):
            o = C.strip_casts(x.get(key)) if x.get(key) is not None else None
            if o is not None and o.get("k") == "Ref" and o.get("id") in lambdas:
                lam = lambdas[o["id"]]
        if lam is not None and len(lam["params"]) == len(x["a"]):
            out.append((x, lam["body"], lam["params"]))
        elif x.get("fn") and not x.get("op"):
            cands = [d for d in lib.decls if d["kind"] == "function" and d.get("body") is not None and
                     d["full"].split("(")[0] == x["fn"] and len(d["params"]) == len(x["a"]) and not d["full"].startswith("std::")]
            if cands:
                out.append((x, cands[0]["body"], cands[0]["params"]))
    return out


def dump_loops(body):
    """[(loop, bound expr, container expr)] for `for (i = 0; i < B; ++i) ... write(M[i])` in a statement tree"""
    out = []
    for st in C.walk_stmt(body):
        if st.get("k") != "For" or st.get("c") is None:
            continue
        c = C.strip_casts(st["c"])
        if not (c.get("k") == "Bin" and c["op"] == "<"):
            continue
        lv = C.strip_casts(c["a"])
        if lv.get("k") != "Ref":
            continue
        for x in C.walk_stmt(st["body"]):
            if x.get("k") == "Call" and x.get("n") == "write" and x["a"]:
                a0 = C.strip_casts(x["a"][0])
                base = idx = None
                if a0.get("k") == "Call" and a0.get("op") == "[]" and a0.get("obj") is not None and a0["a"]:
                    base, idx = a0["obj"], a0["a"][0]
                elif a0.get("k") == "Idx":
                    base, idx = a0["a"], a0["i"]
                if base is not None and C.strip_casts(idx).get("id") == lv.get("id"):
                    out.append((st, c["b"], base))
    return out


def resizes(body):
    out = []
    for x in C.walk_stmt(body):
        if x.get("k") == "Call" and x.get("n") == "resize" and x.get("obj") is not None and x["a"]:
            out.append((x, x["obj"], x["a"][0]))
    return out


def rule_R6(chk, lib, W, cls_records):
    n = 0
    for cls, wfns in sorted(W.items()):
        wfn = wfns[0]
        # loops of the writer (and of helpers it hands the tables to) that dump elements of a vector member
        dumped = {}
        for loop, bound, base in dump_loops(wfn["body"]):
            if C.member_name(base):
                dumped.setdefault(C.member_name(base), (loop, bound))
        for call, cbody, cparams in callees_of(lib, wfn):
            m = {p["id"]: a for p, a in zip(cparams, call["a"]) if "id" in p}
            for loop, bound, base in dump_loops(cbody):
                b0 = C.strip_casts(base)
                if b0.get("k") == "Ref" and b0.get("id") in m and C.member_name(m[b0["id"]]):
                    dumped.setdefault(C.member_name(m[b0["id"]]), (call, _subst(bound, m)))
        if not dumped:
            continue
        # primary constructors of the class
        ctors = [d for d in lib.decls if d["kind"] == "function" and d.get("cls") == cls and d.get("ctor") and
                 d.get("body") is not None and not d.get("copyctor") and not d.get("delegating") and
                 not any("RestartReader" in (p.get("t") or "") for p in d["params"])]
        for member, (loop, bound) in sorted(dumped.items()):
            b0 = C.strip_casts(bound)
            if b0.get("k") == "Call" and b0.get("n") == "size" and b0.get("obj") is not None and \
                    C.member_name(b0["obj"]) == member:
                continue        # dumped up to its own size: in full by construction
            sizes = []
            for ct in ctors:
                p2m = {}
                for ini in ct.get("inits") or []:
                    x0 = C.strip_casts(ini["x"]) if ini.get("x") is not None else None
                    while x0 is not None and x0.get("k") == "Ctor" and len(x0["a"]) == 1:
                        x0 = C.strip_casts(x0["a"][0])
                    if x0 is not None and x0.get("k") == "Ref" and "id" in x0 and ini.get("member"):
                        p2m[x0["id"]] = ini["member"]
                for x, obj, sz in resizes(ct["body"]):
                    if C.member_name(obj) == member:
                        sizes.append((ct, p2m, sz, x))
                for call, cbody, cparams in callees_of(lib, ct):
                    m = {p["id"]: a for p, a in zip(cparams, call["a"]) if "id" in p}
                    for x, obj, sz in resizes(cbody):
                        o0 = C.strip_casts(obj)
                        if o0.get("k") == "Ref" and o0.get("id") in m and C.member_name(m[o0["id"]]) == member:
                            # locals of the callee that the size depends on
                            cdefs = {}
                            for st_ in C.walk_stmt(cbody):
                                if st_.get("k") == "Decl":
                                    for d_ in st_["d"]:
                                        if d_.get("init") is not None:
                                            cdefs[d_["id"]] = d_["init"]
                            sz2 = _subst(_subst(sz, cdefs), m)
                            sz2 = _subst(sz2, m)
                            sizes.append((ct, p2m, sz2, call))
                for ini in ct.get("inits") or []:
                    if ini.get("member") == member and ini.get("x") is not None:
                        x0 = C.strip_casts(ini["x"])
                        if x0.get("k") == "Ctor" and len(x0["a"]) in (1, 2) and "vector" in (x0.get("cls") or x0.get("t") or ""):
                            sizes.append((ct, p2m, x0["a"][0], x0))
            if not sizes:
                continue
            wc = SizeConv(lib, wfn, {})
            try:
                B = wc.value(bound)
            except AnalysisBroken:
                continue
            for ct, p2m, sexpr, node in sizes:
                sc = SizeConv(lib, ct, p2m)
                try:
                    S = sc.value(sexpr)
                except AnalysisBroken:
                    continue
                ratio = sp.simplify(B / S)
                msyms = {s for s in ratio.free_symbols if s in wc.member_syms or s in sc.member_syms}
                n += 1
                chk.require(not msyms, "R6", "%s::%s is dumped in full: the writer's bound and the size given by the constructor agree "
                            "in every member they depend on" % (cls, member), where(loop, wfn),
                            "the writer dumps %s elements, the constructor allocates %s: their quotient %s depends on %s, so the "
                            "dump (and what is restored from it) is shorter or longer than the table the run uses" %
                            (B, S, ratio, sorted(str(s) for s in msyms)), function=wfn["full"], construct="dumped in full %s" % member)
    return n
