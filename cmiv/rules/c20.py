"""C20 - parameter files, units and snapshots round-trip without changing values.

Decides the self-consistency of the built-in tables and of their users across the whole library
(DESIGN.md C20):
 K1 unit table: SI-prefixed entries differ from their base unit by exactly the prefix power, with equal exponents;
 K2 every SI unit name returned for a quantity consists of table units with factor exactly 1 (every quantity covered);
 K3 every default unit literal passed to get_physical_value / get_physical_vector in any unit of the library parses,
    and has the dimension of its quantity or one reachable by a registered quantity conversion;
 K4 every group, attribute and dataset name (with element type and per-ion suffix function) the snapshot reader asks
    for is one GadgetDensityGridWriter produces; unit attributes stored x conversion applied = 1; parameter keys read back
    from a snapshot are keys the components read from the parameter file;
 K5 the parameter-file parser keeps its group stack and its indentation stack in lock step and, on a dedent, closes
    EVERY group that is deeper than the new line (a loop, not a single pop); a top-level line clears both.
Not decided: the parse/print round trip for arbitrary trees as such, numeric precision of printed values, HDF5 I/O.
"""
import re

import sympy as sp

from .. import cfg as C
from ..astdb import AnalysisBroken, where
from ..sym import Converter, Env
from ..tables import switch_arms, arm_return, enum_values

PREFIX = {"c": sp.Rational(1, 100), "k": sp.Integer(1000), "M": sp.Integer(10) ** 6, "G": sp.Integer(10) ** 9,
          "m": sp.Rational(1, 1000), "d": sp.Rational(1, 10), "h": sp.Integer(100), "T": sp.Integer(10) ** 12}


def unit_table(u):
    fn = u.func("UnitConverter::get_single_unit")
    pid = fn["params"][0]["id"]
    table = {}
    top = [s for s in fn["body"]["s"] if s.get("k") == "If"]
    if len(top) != 1:
        raise AnalysisBroken("get_single_unit: expected one if/else-if chain")
    s = top[0]
    conv = Converter()

    def physconst(key, e):
        return None
    while s is not None and s.get("k") == "If":
        c = C.strip_casts(s["c"])
        lit = None
        if C.is_call(c) and c.get("op") == "==":
            args = ([c["obj"]] if c.get("obj") is not None else []) + c["a"]
            for a in args:
                aa = C.strip_casts(a)
                if aa.get("k") == "Str":
                    lit = aa["v"]
        if lit is None:
            raise AnalysisBroken("get_single_unit: condition %s is not `name == \"literal\"`" % C.pretty(c))
        rets = [x for x in C.walk_stmt(s["th"]) if x.get("k") == "Return"]
        if len(rets) != 1:
            raise AnalysisBroken("get_single_unit: arm for %s has no single return" % lit)
        r = C.strip_casts(rets[0]["x"])
        while r.get("k") == "Ctor" and len(r["a"]) == 1:
            r = C.strip_casts(r["a"][0])
        if r.get("k") != "Ctor" or len(r["a"]) != 7:
            raise AnalysisBroken("get_single_unit: arm for %s does not construct Unit(factor, 6 exponents)" % lit)
        try:
            fac = conv.conv(r["a"][0], Env())
        except AnalysisBroken:
            fac = sp.Symbol("factor(%s)" % lit, positive=True)
        exps = tuple(C.const_int(a) for a in r["a"][1:])
        if any(e is None for e in exps):
            raise AnalysisBroken("get_single_unit: non-constant exponent for %s" % lit)
        if lit in table:
            raise AnalysisBroken("get_single_unit: unit %s listed twice" % lit)
        table[lit] = (fac, exps, rets[0])
        s = s.get("el")
    return fn, table


def parse_unit_string(us, table):
    """Dimension vector and factor of a compound unit string as UnitConverter::get_unit reads it."""
    dims = [0] * 6
    fac = sp.Integer(1)
    toks = [t for t in us.strip().split(" ") if t]
    if not toks:
        return None, None, "empty unit"
    for t in toks:
        m = re.fullmatch(r"([A-Za-z]+)(?:\^([+-]?\d+))?", t)
        if not m:
            return None, None, "token '%s' is not name or name^integer" % t
        name, p = m.group(1), int(m.group(2) or 1)
        if name not in table:
            return None, None, "unknown unit '%s'" % name
        f, e, _ = table[name]
        fac = fac * f ** p
        dims = [d + p * x for d, x in zip(dims, e)]
    return tuple(dims), fac, None


def run(chk, prog):
    chk.explanation = (
        "The unit table, the SI-name table, the quantity-conversion list and every default unit literal in the library "
        "are extracted and checked for mutual consistency with exact rational arithmetic; the parameter-file parser's "
        "group-stack discipline (lock-step stacks, close every deeper group on a dedent, clear on a top-level line) is "
        "checked structurally. These are necessary conditions for the round-trip claims; the round trip for arbitrary "
        "trees and the HDF5 snapshot path are not decided.")
    u = prog.umbrella
    lib = prog.library()
    for name in prog.all_unit_names():
        chk.analysed(unit=name)
    fn, table = unit_table(u)
    chk.analysed(function=fn["full"])
    chk.extra["unit_table"] = {k: [str(v[0]), list(v[1])] for k, v in sorted(table.items())}
    # ---- K1 -----------------------------------------------------------------------------------
    n1 = 0
    for name, (fac, exps, ret) in sorted(table.items()):
        for p, power in PREFIX.items():
            if name.startswith(p) and name[len(p):] in table and len(name) > len(p):
                base = name[len(p):]
                if name in ("m", "h", "d") or (p == "m" and base in ("in",)):
                    continue
                bf, be, _ = table[base]
                if p == "h" and base == "r":
                    continue
                n1 += 1
                okk = be == exps and sp.simplify(fac / bf - power) == 0
                chk.require(okk, "K1", "1 %s = %s %s" % (name, power, base), where(ret, fn),
                            "table says 1 %s = %s %s with exponents %s vs %s" % (name, sp.nsimplify(fac / bf), base,
                                                                                exps, be), function=fn["full"],
                            construct="prefix %s/%s" % (name, base))
    chk.floor("K1", n1, 6)
    # ---- K2 -----------------------------------------------------------------------------------
    sfn = u.func("UnitConverter::get_SI_unit_name")
    chk.analysed(function=sfn["full"])
    sw, arms, default = switch_arms(sfn)
    quantities = enum_values(u, "Quantity")
    si_dim = {}
    n2 = 0
    for qn, qv in sorted(quantities.items(), key=lambda kv: kv[1]):
        if qn.startswith("NUMBER_OF"):
            continue
        arm = arms.get(qv)
        r = arm_return(arm) if arm is not None else None
        lit = None
        if r is not None:
            lits = [x["v"] for x in C.walk(r) if x.get("k") == "Str"]
            lit = lits[0] if len(lits) == 1 else None
        n2 += 1
        if lit is None:
            chk.fail("K2", "%s has an SI unit name" % qn, where(sfn), "no case returning a string literal for this "
                     "quantity: converting any value of it aborts", function=sfn["full"], construct="SI name %s" % qn)
            continue
        dims, fac, err = parse_unit_string(lit, table)
        okk = err is None and sp.simplify(fac - 1) == 0
        chk.require(okk, "K2", "SI unit of %s (\"%s\") consists of table units with factor 1" % (qn, lit),
                    where(r, sfn), err or "the 'SI' unit has factor %s: converting to SI and back is not the identity"
                    % fac, function=sfn["full"], construct="SI name %s" % qn)
        if err is None:
            si_dim[qn] = dims
    chk.floor("K2", n2, 26)
    # registered quantity conversions
    tfn = u.func("UnitConverter::try_conversion")
    pairs = []
    cur = {}
    for x in C.walk_stmt(tfn["body"]):
        if C.is_call(x, name="push_back") and x.get("obj") is not None and x["a"]:
            vec = C.strip_casts(x["obj"]).get("n")
            a = C.strip_casts(x["a"][0])
            while a.get("k") in ("Ctor",) and len(a.get("a", [])) == 1:
                a = C.strip_casts(a["a"][0])
            if vec in ("Aunits", "Bunits") and a.get("k") == "Ref" and a.get("dk") == "EnumConstant":
                cur[vec] = a["n"]
                if "Aunits" in cur and "Bunits" in cur:
                    pairs.append((cur["Aunits"], cur["Bunits"]))
                    cur = {}
    chk.extra["quantity_conversions"] = pairs
    convertible = {}
    for a, b in pairs:
        convertible.setdefault(a, set()).add(b)
        convertible.setdefault(b, set()).add(a)
    # ---- K6: the two directions of a registered conversion are inverse --------------------------
    from . import c20_conv
    n6 = c20_conv.rule_K6(chk, u)
    chk.floor("K6", n6, 4)
    # ---- K7: provenance of the values the snapshot readers hand on ----------------------------------
    from . import c20_flow
    n7, f7 = c20_flow.rule_K7(chk, lib)
    chk.floor("K7 functions", f7, 2)
    chk.floor("K7", n7, 2)
    # ---- K8: the writer's block buffers hold exactly the cells gathered for the block that is written ----
    from . import c20_blocks
    n8, f8 = c20_blocks.rule_K8(chk, lib)
    chk.floor("K8 functions", f8, 3)
    chk.floor("K8", n8, 9)
    # ---- K3 -----------------------------------------------------------------------------------
    n3 = 0
    seen = set()
    for d in lib.decls:
        if d["kind"] != "function" or d.get("dependent"):
            continue
        nodes = list(C.walk_stmt(d["body"]))
        for ini in d.get("inits", []):
            if ini.get("x") is not None:
                nodes += list(C.walk(ini["x"]))
        for x in nodes:
            if not (C.is_call(x) and x.get("n") in ("get_physical_value", "get_physical_vector") and
                    "ParameterFile" in x.get("cls", "")):
                continue
            q = (x.get("targs") or "").strip()
            if len(x["a"]) < 2:
                continue
            lits = [y["v"] for y in C.walk(x["a"][1]) if y.get("k") == "Str"]
            keyl = [y["v"] for y in C.walk(x["a"][0]) if y.get("k") == "Str"]
            if len(lits) != 1:
                continue
            site = (d["file"], x.get("l"), x.get("c"))
            if site in seen:
                continue
            seen.add(site)
            lit = lits[0]
            n3 += 1
            inst = "default \"%s\" of %s<%s>(%s)" % (lit, x["n"], q, keyl[0] if keyl else "?")
            loc = where(x, d)
            body = lit.strip()
            units = []
            if x["n"] == "get_physical_vector":
                m = re.match(r"^\[(.*)\]$", body)
                comps = [c.strip() for c in m.group(1).split(",")] if m else []
                for c in comps:
                    parts = c.split(" ", 1)
                    units.append(parts[1] if len(parts) == 2 else None)
                if len(comps) != 3:
                    units = [None]
            else:
                parts = body.split(" ", 1)
                units = [parts[1] if len(parts) == 2 else None]
            unit = units[0] if units and all(uu == units[0] for uu in units) else None
            if units and unit is None and all(uu is not None for uu in units):
                # components with different units: check each
                unit = None
                bad = None
                for uu in units:
                    dd, ff, ee = parse_unit_string(uu, table)
                    if ee or (q in si_dim and dd != si_dim[q] and not any(dd == si_dim.get(o) for o in convertible.get(q, ()))):
                        bad = uu
                chk.require(bad is None, "K3", inst, loc, "component unit \"%s\" does not fit %s" % (bad, q),
                            function=d["full"], construct="default unit %s" % (keyl[0] if keyl else lit))
                continue
            if unit is None:
                chk.fail("K3", inst, loc, "default value has no unit part", function=d["full"],
                         construct="default unit %s" % (keyl[0] if keyl else lit))
                continue
            dims, fac, err = parse_unit_string(unit, table)
            if err:
                chk.fail("K3", inst, loc, "default unit \"%s\": %s (aborts when the option is first read)" % (unit, err),
                         function=d["full"], construct="default unit %s" % (keyl[0] if keyl else lit))
                continue
            if q not in si_dim:
                chk.fail("K3", inst, loc, "quantity %s has no SI unit" % q, function=d["full"],
                         construct="default unit %s" % (keyl[0] if keyl else lit))
                continue
            okk = dims == si_dim[q] or any(dims == si_dim.get(o) for o in convertible.get(q, ()))
            chk.require(okk, "K3", inst, loc,
                        "unit \"%s\" has dimension %s but %s needs %s and no registered conversion links them: reading "
                        "this option aborts" % (unit, dims, q, si_dim[q]), function=d["full"],
                        construct="default unit %s" % (keyl[0] if keyl else lit))
    chk.floor("K3", n3, 200)
    # ---- K5 -----------------------------------------------------------------------------------
    yfn = [m for m in u.methods_of("YAMLDictionary") if m.get("ctor") and
           any("istream" in p["t"] for p in m["params"])]
    if len(yfn) != 1:
        raise AnalysisBroken("YAMLDictionary(std::istream&) not found")
    yfn = yfn[0]
    chk.analysed(function=yfn["full"])
    stacks = {}
    for s in C.walk_stmt(yfn["body"]):
        if s.get("k") == "Decl":
            for d in s["d"]:
                if d.get("t", "").startswith("std::vector<"):
                    stacks[d["n"]] = d
    ints = [n for n, d in stacks.items() if "unsigned" in d["t"] or "int" in d["t"].split(",")[0]]
    strs = [n for n, d in stacks.items() if "basic_string" in d["t"]]
    if len(ints) != 1 or len(strs) != 1:
        raise AnalysisBroken("parser: indentation stack / group stack not identified (%s)" % sorted(stacks))
    lev, grp = ints[0], strs[0]

    def removals(stmt, name):
        return [x for x in C.walk_stmt(stmt) if C.is_call(x) and x.get("n") in ("erase", "pop_back", "clear") and
                x.get("obj") is not None and C.strip_casts(x["obj"]).get("n") == name]
    n5 = 0
    # (a) lock step: every block that removes from one stack removes from the other
    blocks = [s for s in C.walk_stmt(yfn["body"]) if s.get("k") == "Block"]
    for b in blocks:
        direct = [st for st in b["s"] if st.get("k") not in ("If", "While", "For", "Block", "Do")]
        rl = [x for st in direct for x in removals(st, lev)]
        rg = [x for st in direct for x in removals(st, grp)]
        if rl or rg:
            n5 += 1
            chk.require(len(rl) == len(rg) and {x["n"] for x in rl} == {x["n"] for x in rg}, "K5",
                        "parser (line %s): indentation level and group name are removed together" % b.get("l"),
                        where(b, yfn), "the block removes %d level(s) but %d group name(s): keys are filed under the "
                        "wrong group" % (len(rl), len(rg)), function=yfn["full"], construct="lock step")
    # (b) dedent closes every deeper group: removals guarded by `indentation < levels.back()` sit in a loop on it
    def is_dedent_test(e):
        e = C.strip_casts(e)
        if e.get("k") == "Bin" and e["op"] in ("<", ">"):
            txt = C.pretty(e)
            return ("%s.back()" % lev) in txt
        return False
    found = 0
    for s in C.walk_stmt(yfn["body"]):
        if s.get("k") in ("If", "While") and s.get("c") is not None:
            conj = []

            def cj(e):
                e = C.strip_casts(e)
                if e.get("k") == "Bin" and e["op"] == "&&":
                    cj(e["a"])
                    cj(e["b"])
                else:
                    conj.append(e)
            cj(s["c"])
            tests = [c for c in conj if is_dedent_test(c) and C.strip_casts(c)["op"] == "<"]
            body = s["th"] if s["k"] == "If" else s["body"]
            if tests and removals(body, lev):
                direct_loop = s["k"] == "While"
                inner_loop = any(w.get("k") == "While" and any(is_dedent_test(c) for c in [w["c"]]) and removals(w["body"], lev)
                                 for w in C.walk_stmt(body))
                found += 1
                n5 += 1
                chk.require(direct_loop or inner_loop, "K5",
                            "parser: a less indented line closes every group that is deeper than it", where(s, yfn),
                            "groups are popped under `%s` without a loop: a line that goes back two or more levels closes "
                            "only one group and its key is stored under a group that is too deep" % C.pretty(s["c"]),
                            function=yfn["full"], construct="dedent closes all deeper groups")
    n5 += 1
    chk.require(found >= 1, "K5", "parser handles a dedent by comparing with the top of the indentation stack", where(yfn),
                "no `indentation < %s.back()` guarded removal found" % lev, function=yfn["full"],
                construct="dedent handling present")
    # (c) a top-level line clears both stacks
    clears = [s for s in C.walk_stmt(yfn["body"]) if (s.get("k") == "While" and (lev + ".size()") in C.pretty(s["c"])
                                                       and removals(s["body"], lev)) or
              (C.is_call(s, name="clear") and s.get("obj") is not None and C.strip_casts(s["obj"]).get("n") == lev)]
    n5 += 1
    chk.require(len(clears) >= 1, "K5", "parser: a top-level line closes all open groups", where(yfn),
                "no statement empties the indentation stack", function=yfn["full"], construct="top level clears")
    chk.floor("K5", n5, 5)
    # ---- K4 -----------------------------------------------------------------------------------
    from .c20_k4 import rule_K4, rule_K4_units, rule_K4_parameter_keys
    n4 = rule_K4(chk, prog) + rule_K4_units(chk, prog, table) + rule_K4_parameter_keys(chk, prog)
    chk.floor("K4", n4, 25)
