"""C08-V5: every slot index the pool computes itself is inside the pool.

ThreadSafeVector owns `_vector` and `_locks`, both of length `_size`; "each free slot is given to one requester" presumes
that the index a requester locks names a slot that exists.  For every subscript of the two arrays in every method of the
class, with private helpers read in place:

  * an index that is a parameter of a public method is the caller's business (not an instance);
  * every other index variable must be *in range* at the subscript on every path, in a flag dataflow over the CFG in which
    a variable is in range after `v = E % _size`, after a copy of an in-range variable, on the true edge of `v < _size` /
    the false edge of `v >= _size`, and stops being in range after any other write (`v -= _size`, `++v`, `v = E`).

`index = counter.post_increment(); if (index >= _size) index -= _size;` is not in range: another thread can have advanced
the shared counter past 2 * _size in between.
"""
from .. import cfg as C
from ..astdb import AnalysisBroken, where
from .c12_m3 import node_exprs

ARRAYS = ("_vector", "_locks")


def rule_V5(chk, all_methods, cls="ThreadSafeVector"):
    by_cls = {}
    for m in all_methods:
        if m.get("body") is not None and not m.get("dependent"):
            by_cls.setdefault(m.get("cls"), []).append(m)
    if not by_cls:
        raise AnalysisBroken("%s has no methods" % cls)
    n = 0
    for c_, ms_ in sorted(by_cls.items(), key=lambda kv: str(kv[0])):
        n += _one_class(chk, ms_, c_)
    return n


def _one_class(chk, ms, cls):
    names = {}
    for m in ms:
        names.setdefault(m["name"], []).append(m)
    called = set()
    for m in ms:
        for x in C.walk_stmt(m["body"]):
            if x.get("k") == "Call" and (x.get("fn") or "").startswith(cls) and x.get("n") in names and x["n"] != m["name"]:
                called.add(x["n"])
    n = 0
    seen = set()
    for m0 in ms:
        if m0.get("ctor") or m0.get("dtor"):
            continue
        if m0["name"] in called and m0.get("access") == "private":
            continue                          # read where it is called
        if m0["full"] in seen:
            continue
        seen.add(m0["full"])
        m = C.with_inlined_helpers(m0, [h for h in ms if h.get("access") == "private"])
        g = C.CFG(m)
        params = {p["id"] for p in m0["params"] if "id" in p}

        def is_size(e):
            e = C.strip_casts(e)
            return C.member_name(e) == "_size"

        def in_range_value(e, st):
            e = C.strip_casts(e)
            if e.get("k") == "Bin" and e.get("op") == "%" and is_size(e["b"]):
                return True
            if e.get("k") == "Ref" and e.get("id") in st:
                return True
            return False

        def writes(e, st):
            st = set(st)
            for x in C.walk(e):
                k = x.get("k")
                if k == "Bin" and x.get("op") == "=" and C.strip_casts(x["a"]).get("k") == "Ref":
                    vid = C.strip_casts(x["a"]).get("id")
                    if in_range_value(x["b"], st):
                        st.add(vid)
                    else:
                        st.discard(vid)
                elif k == "Bin" and x.get("op") in ("+=", "-=", "*=", "/=", "%=") and C.strip_casts(x["a"]).get("k") == "Ref":
                    vid = C.strip_casts(x["a"]).get("id")
                    if x["op"] == "%=" and is_size(x["b"]):
                        st.add(vid)
                    else:
                        st.discard(vid)
                elif k == "Un" and x.get("op") in ("pre++", "post++", "pre--", "post--") and \
                        C.strip_casts(x["x"]).get("k") == "Ref":
                    st.discard(C.strip_casts(x["x"]).get("id"))
            return frozenset(st)

        def tr(node, st):
            if node.kind == "decl":
                s2 = set(st)
                for d in node.ast["d"]:
                    if d.get("init") is not None:
                        s2 = set(writes(d["init"], s2))
                        if in_range_value(d["init"], s2):
                            s2.add(d["id"])
                        else:
                            s2.discard(d["id"])
                return [(None, frozenset(s2))]
            if node.kind == "branch" and node.ast is not None:
                c = C.strip_casts(node.ast)
                s2 = writes(node.ast, st)
                if c.get("k") == "Bin" and c.get("op") in ("<", ">=", ">", "<="):
                    a, b = C.strip_casts(c["a"]), C.strip_casts(c["b"])
                    v = None
                    below_on = None
                    if a.get("k") == "Ref" and is_size(b) and c["op"] in ("<", ">="):
                        v, below_on = a.get("id"), (c["op"] == "<")
                    elif b.get("k") == "Ref" and is_size(a) and c["op"] in (">", "<="):
                        v, below_on = b.get("id"), (c["op"] == ">")
                    if v is not None:
                        return [(below_on, frozenset(set(s2) | {v})), (not below_on, s2)]
                return [(None, s2)]
            if node.ast is not None and node.kind in ("stmt", "return") and node.ast.get("k") not in ("Abort", "RangeHasNext"):
                s2 = st
                for a in node_exprs(node):
                    s2 = writes(a, s2)
                return [(None, s2)]
            return [(None, st)]
        ex = C.explore(g, frozenset(), tr)
        for node in g.nodes:
            if node.ast is None or node.kind == "marker" or node.ast.get("k") in ("Abort", "RangeHasNext"):
                continue
            for a in node_exprs(node):
                for x in C.walk(a):
                    base = idx = None
                    if x.get("k") == "Idx":
                        base, idx = x["a"], x["i"]
                    elif x.get("k") == "Call" and x.get("op") == "[]" and x.get("obj") is not None and x.get("a"):
                        base, idx = x["obj"], x["a"][0]
                    if base is None or C.member_name(base) not in ARRAYS:
                        continue
                    i0 = C.strip_casts(idx)
                    if i0.get("k") == "Ref" and i0.get("id") in params:
                        continue
                    n += 1
                    if i0.get("k") == "Bin" and i0.get("op") == "%" and is_size(i0["b"]):
                        chk.ok("V5", "%s line %s: the subscript `%s` is reduced modulo the pool size" %
                               (m0["name"], x.get("l"), C.pretty(idx)[:40]), where(x, m0))
                        continue
                    if i0.get("k") != "Ref" or "id" not in i0:
                        raise AnalysisBroken("%s: subscript `%s` of %s is not a variable" % (m0["full"], C.pretty(idx)[:40],
                                                                                         C.member_name(base)))
                    # the state *before* the node: a condition such as `!_locks[index].lock()` reads index on entry
                    sts = ex.at.get(node.id, ())
                    bad = [s_ for s_ in sts if i0["id"] not in s_]
                    chk.require(bool(sts) and not bad, "V5", "%s line %s: the slot index `%s` used on %s is inside the pool" %
                                (m0["name"], x.get("l"), i0.get("n"), C.member_name(base)), where(x, m0),
                                "on the path through lines %s `%s` is neither reduced modulo _size nor compared with it before it "
                                "subscripts %s: a requester can lock and be handed a slot that does not exist (another thread can "
                                "have advanced the shared cursor in between)" %
                                (ex.path_lines(node.id, bad[0]) if bad else "?", i0.get("n"), C.member_name(base)),
                                function=m0["full"], construct="slot index range %s" % i0.get("n"))
    return n
