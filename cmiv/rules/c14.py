"""C14 - restart dumps are rotated safely (DESIGN.md section 3, C14).

Decides the clauses visible in the shape of RestartManager::get_restart_writer and of
its caller: U1 no unsigned wrap of a rotation quantity, U2 the previous dump is renamed
to backup 0 before the truncating open (exactly when a previous dump exists and backups
are configured), U3 the backups are shifted i-1 -> i in decreasing i, starting at
min(max-1, number of backups), before U2's rename, U4 a failed rename is never ignored,
U5 the dump site closes the writer before the step loop continues and a requested stop
is preceded by a dump, U6 (c14_abs.py) rename-before-truncate in every reachable counter state,
U7 (c14_remove.py) an explicit deletion in the rotation never removes a slot that is to be kept.
"""
import sympy as sp

from .. import cfg as C
from ..astdb import AnalysisBroken, where
from ..sym import Converter, Env, S

UNSIGNED = ("unsigned long", "unsigned int", "unsigned char", "unsigned short",
            "unsigned long long")


def _is_unsigned(t):
    t = (t or "").replace("const ", "").strip()
    return t in UNSIGNED


def _facts_from_cond(e, polarity):
    """Facts (('ge1', key) | ('ge', a, b)) established by leaf condition e being `polarity`."""
    e = C.strip_casts(e)
    out = []
    if e.get("k") == "Bin" and e["op"] in ("<", ">", "<=", ">=", "==", "!="):
        op = e["op"]
        a, b = e["a"], e["b"]
        if not polarity:
            op = {"<": ">=", ">": "<=", "<=": ">", ">=": "<", "==": "!=", "!=": "=="}[op]
        ka, kb = C.ref_key(a), C.ref_key(b)
        ca, cb = C.const_int(a), C.const_int(b)
        # key >= constant
        if ka is not None and cb is not None and cb >= 0:
            if op == ">":
                out.append(("gec", ka, cb + 1))
            elif op == ">=":
                out.append(("gec", ka, cb))
            elif op == "==":
                out.append(("gec", ka, cb))
        if kb is not None and ca is not None and ca >= 0:
            if op == "<":
                out.append(("gec", kb, ca + 1))
            elif op == "<=":
                out.append(("gec", kb, ca))
            elif op == "==":
                out.append(("gec", kb, ca))
        if op == ">" and ka is not None and cb is not None and cb >= 0:
            out.append(("ge1", ka))
        if op == ">=" and ka is not None and cb is not None and cb >= 1:
            out.append(("ge1", ka))
        if op == "!=" and ka is not None and cb == 0:
            out.append(("ge1", ka))
        if op == "<" and kb is not None and ca is not None and ca >= 0:
            out.append(("ge1", kb))
        if op == "<=" and kb is not None and ca is not None and ca >= 1:
            out.append(("ge1", kb))
        if op == "!=" and kb is not None and ca == 0:
            out.append(("ge1", kb))
        if ka is not None and kb is not None:
            if op in (">", ">="):
                out.append(("ge", ka, kb))
            if op in ("<", "<="):
                out.append(("ge", kb, ka))
            if op == ">":
                out.append(("ge1", ka))      # unsigned a > b >= 0
            if op == "<":
                out.append(("ge1", kb))
    elif e.get("k") in ("Ref", "Mem") and polarity:
        k = C.ref_key(e)
        if k is not None:
            out.append(("ge1", k))
    return out


def _writes(ast):
    """Keys written by a statement/expression (assignments, ++, --), with the kind."""
    out = []
    for x in C.walk(ast):
        k = x.get("k")
        if k == "Bin" and x["op"] in ("=", "+=", "-=", "*=", "/=", "%=", ">>=", "<<=", "&=", "|=", "^="):
            out.append((C.ref_key(x["a"]), x["op"], x))
        elif k == "Un" and x["op"] in ("pre++", "post++", "pre--", "post--"):
            out.append((C.ref_key(x["x"]), x["op"], x))
    if ast.get("k") == "Decl":
        for d in ast["d"]:
            out.append((("local", d["id"], d["n"]), "decl", d))
    return out


def unsigned_subtractions(ast):
    """(node, minuend expr, subtrahend expr or literal 1, local facts) for unsigned -, -=, --; the local facts are those
    established by the conditions of the conditional expressions the subtraction sits in."""
    out = []

    def rec(x, facts):
        if x is None:
            return
        k = x.get("k")
        if k == "Cond":
            rec(x["c"], facts)
            rec(x["a"], facts | frozenset(_facts_from_cond(x["c"], True)))
            rec(x["b"], facts | frozenset(_facts_from_cond(x["c"], False)))
            return
        if k == "Bin" and x["op"] in ("&&", "||"):
            rec(x["a"], facts)
            rec(x["b"], facts | frozenset(_facts_from_cond(x["a"], x["op"] == "&&")))
            return
        for c in C.children_of(x):
            rec(c, facts)
        if k == "Bin" and x["op"] == "-" and _is_unsigned(x.get("t")):
            out.append((x, x["a"], x["b"], facts))
        elif k == "Bin" and x["op"] == "-=" and _is_unsigned(x.get("t")):
            out.append((x, x["a"], x["b"], facts))
        elif k == "Un" and x["op"] in ("pre--", "post--") and _is_unsigned(x.get("t")):
            out.append((x, x["x"], None, facts))
    rec(ast, frozenset())
    return out


def check_U1(chk, fn, g):
    """Every unsigned subtraction is dominated by a guard establishing minuend >= subtrahend."""
    sites = {}

    def transfer(node, st):
        ast = node.ast
        if node.kind == "branch" and ast.get("k") != "RangeHasNext":
            t = set(st)
            f = set(st)
            t.update(_facts_from_cond(ast, True))
            f.update(_facts_from_cond(ast, False))
            return [(True, frozenset(t)), (False, frozenset(f))]
        if node.kind in ("stmt", "decl", "return", "init") and ast is not None:
            body = ast.get("x") if node.kind == "init" else ast
            if body is None:
                return [(None, st)]
            new = set(st)
            for key, op, x in _writes(body):
                if key is None:
                    continue
                if op in ("pre++", "post++", "+="):
                    # growing keeps x >= 1, loses relations where it is the smaller side
                    new = {f for f in new if not (f[0] == "ge" and f[2] == key)}
                else:
                    new = {f for f in new if key not in f[1:]}
            return [(None, frozenset(new))]
        return [(None, st)]

    ex = C.explore(g, frozenset(), transfer)
    n = 0
    for node in g.nodes:
        if node.ast is None or node.kind == "marker":
            continue
        body = node.ast.get("x") if node.kind == "init" else node.ast
        if body is None or body.get("k") in ("RangeHasNext", "Abort"):
            continue
        if node.kind == "decl":
            subs = []
            for d in body["d"]:
                if d.get("init"):
                    subs += unsigned_subtractions(d["init"])
        else:
            subs = unsigned_subtractions(body)
        for x, a, b, local in subs:
            if node.id not in ex.at:
                continue  # unreachable
            n += 1
            ka = C.ref_key(a)
            cb = 1 if b is None else C.const_int(b)
            kb = None if b is None else C.ref_key(b)
            inst = "%s: %s" % (fn["qname"], C.pretty(x))
            bad = None
            for st0 in ex.at[node.id]:
                st = set(st0) | set(local)
                okk = False
                if ka is not None and cb is not None and cb <= 1 and (cb == 0 or ("ge1", ka) in st):
                    okk = True
                if ka is not None and cb is not None and any(f[0] == "gec" and f[1] == ka and f[2] >= cb for f in st):
                    okk = True
                if ka is not None and kb is not None and ("ge", ka, kb) in st:
                    okk = True
                if not okk:
                    bad = st0
                    break
            chk.require(bad is None, "U1", inst, where(x, fn),
                        "unsigned subtraction %s is not dominated by a guard establishing "
                        "%s >= %s on the path through lines %s; it wraps to 2^64-1 when the minuend is 0"
                        % (C.pretty(x), C.pretty(a), "1" if b is None else C.pretty(b),
                           ex.path_lines(node.id, bad) if bad is not None else ""),
                        function=fn["qname"], construct=C.pretty(x))
    return n


RENAME_WRAPPERS = {}     # qualified name -> (function, index of the source parameter, index of the target parameter)


def find_rename_wrappers(unit, cls):
    """Helpers that do nothing but rename(p_i, p_j) (and abort on failure): a call of one is a rename of its arguments."""
    RENAME_WRAPPERS.clear()
    for m in unit.methods_of(cls):
        if not m.get("body") or len(m["params"]) < 2 or m["name"] == "get_restart_writer":
            continue
        calls = [x for x in C.walk_stmt(m["body"]) if C.is_call(x) and x.get("fn") in ("rename", "std::rename")]
        if len({id(x) for x in calls}) != 1:
            continue
        x = calls[0]
        pid = {p["id"]: i for i, p in enumerate(m["params"]) if "id" in p}
        a, b = _root_local(x["a"][0]), _root_local(x["a"][1])
        if a is not None and b is not None and a.get("id") in pid and b.get("id") in pid:
            RENAME_WRAPPERS[m["full"].split("(")[0]] = (m, pid[a["id"]], pid[b["id"]])


def _rename_calls(g):
    out = []
    for node in g.nodes:
        if node.ast is None or node.kind == "marker":
            continue
        if node.ast.get("k") in ("RangeHasNext", "Abort"):
            continue
        for x in C.walk(node.ast if node.kind != "init" else (node.ast.get("x") or {})):
            if C.is_call(x) and (x.get("fn") in ("rename", "std::rename")):
                out.append((node, x))
            elif C.is_call(x) and x.get("fn") in RENAME_WRAPPERS and len(x["a"]) == len(RENAME_WRAPPERS[x["fn"]][0]["params"]):
                w, i, j = RENAME_WRAPPERS[x["fn"]]
                out.append((node, {"k": "Call", "fn": "rename", "n": "rename", "a": [x["a"][i], x["a"][j]], "l": x.get("l"),
                                   "c": x.get("c"), "wrapper": x["fn"]}))
    return out


def _root_local(e):
    """The local variable an expression like v.c_str() / v.str().c_str() is rooted in."""
    e = C.strip_casts(e)
    while e is not None:
        k = e.get("k")
        if k == "Ref" and "id" in e:
            return e
        if k == "Mem" and C.member_name(e):
            # a name kept in a member of the manager: a pseudo local keyed by the member
            return {"k": "Ref", "id": ("member", C.member_name(e)), "n": C.member_name(e), "member": True, "l": e.get("l")}
        if k == "Call" and e.get("obj") is not None:
            e = C.strip_casts(e["obj"])
        elif k == "Mem":
            e = C.strip_casts(e["b"])
        elif k == "Ctor" and len(e["a"]) == 1:
            e = C.strip_casts(e["a"][0])
        else:
            return None
    return None


def name_text(u, fn, e, env=None, depth=0):
    """The text of a file-name expression, as far as literals, constant integers, locals, members initialised in the
    constructors and helper functions of the manager determine it (unknown pieces are dropped); None if nothing is known."""
    env = env or {}
    if e is None or depth > 8:
        return None
    e = C.strip_casts(e)
    k = e.get("k")
    if k == "Str":
        return e.get("v") or ""
    if k == "Int":
        return str(int(e["v"]))
    if k == "Ctor" and len(e.get("a", [])) == 1:
        return name_text(u, fn, e["a"][0], env, depth + 1)
    if k == "Ref" and e.get("id") in env:
        return env[e["id"]]
    if k == "Ref" and "id" in e:
        for s_ in C.walk_stmt(fn["body"]):
            if s_.get("k") == "Decl":
                for d_ in s_["d"]:
                    if d_["id"] == e["id"] and d_.get("init") is not None:
                        return name_text(u, fn, d_["init"], env, depth + 1)
        return ""
    m = C.member_name(e)
    if m:
        for c_ in u.methods_of("RestartManager"):
            if c_.get("ctor"):
                for ini in c_.get("inits") or []:
                    if ini.get("member") == m and ini.get("x") is not None:
                        t = name_text(u, c_, ini["x"], {}, depth + 1)
                        if t:
                            return t
        return ""
    if k == "Call" and e.get("obj") is not None and e.get("n") in ("c_str", "str"):
        return name_text(u, fn, e["obj"], env, depth + 1)
    if (k == "Bin" and e.get("op") == "+") or (k == "Call" and e.get("op") == "+"):
        args = [e["a"], e["b"]] if k == "Bin" else (([e["obj"]] if e.get("obj") is not None else []) + list(e["a"]))
        parts = [name_text(u, fn, a_, env, depth + 1) or "" for a_ in args]
        return "".join(parts)
    if k == "Call" and e.get("fn") and not e.get("op"):
        for hm in u.methods_of("RestartManager"):
            if hm["full"].split("(")[0] == e["fn"] and hm.get("body") and len(hm["params"]) == len(e["a"]):
                sub = {}
                for p_, a_ in zip(hm["params"], e["a"]):
                    if "id" in p_:
                        sub[p_["id"]] = name_text(u, fn, a_, env, depth + 1) or ""
                # `return a + b;` or a stream filled with << and returned through .str()
                streams = {}
                for s_ in C.walk_stmt(hm["body"]):
                    for y in (C.walk(s_) if s_.get("k") not in ("Block", "If", "For", "While", "Do", "Decl", "Return") else ()):
                        if C.is_call(y) and y.get("op") == "<<":
                            root, ops = y, []
                            while C.is_call(root) and root.get("op") == "<<":
                                a2 = ([root["obj"]] if root.get("obj") is not None else []) + root["a"]
                                ops.append(a2[1])
                                root = C.strip_casts(a2[0])
                            if root.get("k") == "Ref" and "id" in root and len(ops) > len(streams.get(root["id"], [])):
                                streams[root["id"]] = list(reversed(ops))
                for s_ in C.walk_stmt(hm["body"]):
                    if s_.get("k") == "Return" and s_.get("x") is not None:
                        r0 = C.strip_casts(s_["x"])
                        while r0.get("k") == "Ctor" and len(r0.get("a", [])) == 1:
                            r0 = C.strip_casts(r0["a"][0])
                        if r0.get("k") == "Call" and r0.get("n") == "str" and r0.get("obj") is not None and \
                                C.strip_casts(r0["obj"]).get("id") in streams:
                            return "".join(name_text(u, hm, o_, sub, depth + 1) or "" for o_ in streams[C.strip_casts(r0["obj"])["id"]])
                        return name_text(u, hm, s_["x"], sub, depth + 1)
    return None


def run(chk, prog):
    chk.explanation = (
        "Structural clauses of the rotation protocol decided on the CFG of "
        "RestartManager::get_restart_writer and of the dump site in the task-based RHD driver: "
        "guard-dominance of every unsigned subtraction (no wrap), rename-before-truncate under exactly "
        "(backups configured and a previous dump exists), shift direction and start index "
        "(computer-algebra comparison with min(max-1, nbackups)), rename results checked, writer "
        "closed before the loop continues, stop request preceded by a dump. The history claim "
        "follows by the argument in DESIGN.md C14; crash timing itself is not explored.")
    chk.assumptions += ["std::rename is atomic with respect to a crash (POSIX)",
                        "nothing outside RestartManager touches the dump files during a run"]
    u = prog.umbrella
    chk.analysed(unit="umbrella")
    rec = u.record("RestartManager")
    fields = {f["n"]: f for f in rec["fields"]}
    for need in ("_maximum_number_of_backups", "_number_of_backups", "_number_of_restarts"):
        if need not in fields:
            raise AnalysisBroken("RestartManager::%s vanished" % need)
    fn = u.func("RestartManager::get_restart_writer")
    chk.analysed(function=fn["full"])
    g = C.CFG(fn)

    # ---- U1 over every method of the class ---------------------------------
    n_u1 = 0
    for m in u.methods_of("RestartManager"):
        chk.analysed(function=m["full"])
        gm = g if m is fn else C.CFG(m)
        n_u1 += check_U1(chk, m, gm)
    chk.floor("U1", n_u1, 2)

    # ---- locate the open, the renames, the conditions -----------------------
    opens = []
    for node in g.nodes:
        if node.ast is None or node.kind == "marker" or node.ast.get("k") in ("RangeHasNext", "Abort"):
            continue
        for x in C.walk(node.ast):
            if x.get("k") == "New" and x["ty"] == "RestartWriter":
                opens.append((node, x))
    if len(opens) != 1:
        raise AnalysisBroken("expected exactly one `new RestartWriter` in get_restart_writer, found %d"
                             % len(opens))
    open_node, open_x = opens[0]
    init = open_x.get("init")
    dump_local = _root_local(init["a"][0]) if init and init.get("a") else None
    if dump_local is None:
        raise AnalysisBroken("cannot identify the dump file name passed to RestartWriter")
    find_rename_wrappers(u, "RestartManager")
    renames = _rename_calls(g)
    dump_renames = [(n, x) for n, x in renames
                    if (_root_local(x["a"][0]) or {}).get("id") == dump_local["id"]]
    shift_renames = [(n, x) for n, x in renames if (n, x) not in dump_renames]
    # a rename whose source is the dump name on some condition only (`i > 1 ? backup(i - 2) : filename`): whether the dump is
    # renamed before the truncating open then depends on the values a loop counter takes; U2's path rule cannot decide that
    # (it would blame a correct folded loop as well), U6 below does
    conditional_dump_rename = False
    for n_, x_ in shift_renames:
        src = _root_local(x_["a"][0])
        if src is None:
            continue
        for node_ in g.nodes:
            if node_.kind == "decl":
                for d_ in node_.ast["d"]:
                    if d_["id"] == src["id"] and d_.get("init") is not None:
                        for y_ in C.walk(d_["init"]):
                            if y_.get("k") == "Cond" and any(
                                    z_.get("k") == "Ref" and z_.get("id") == dump_local["id"]
                                    for arm in (y_["a"], y_["b"]) for z_ in C.walk(arm)):
                                conditional_dump_rename = True
    # ---- U6: rename-before-truncate under the class invariant of the counters --------------------
    from . import c14_abs
    n_u6 = c14_abs.rule_U6(chk, u, fn, g, dump_local, _root_local, renames, open_node, open_x)
    chk.floor("U6", n_u6, 4)

    # ---- U4: every rename result is compared and failure aborts -------------
    u4_targets = []
    for n, x in renames:
        if x.get("wrapper"):
            w_ = RENAME_WRAPPERS[x["wrapper"]][0]
            gw = C.CFG(w_)
            for n2, x2 in _rename_calls(gw):
                if not x2.get("wrapper") and not any(x2 is t[1] for t in u4_targets):
                    u4_targets.append((n2, x2, gw, w_))
        else:
            u4_targets.append((n, x, g, fn))
    for n, x, g4, fn4 in u4_targets:
        inst = "rename(%s, %s)" % (C.pretty(x["a"][0]), C.pretty(x["a"][1]))
        okk = False
        if n.kind == "branch":
            e = C.strip_casts(n.ast)
            if e.get("k") == "Bin" and e["op"] in ("!=", "==") and \
                    (C.const_int(e["b"]) == 0 or C.const_int(e["a"]) == 0):
                fail_label = (e["op"] == "!=")
                fail_succ = [s for lab, s in n.succs if lab == fail_label]
                okk = bool(fail_succ) and g4.exit.id not in g4.reachable(fail_succ[0])
        chk.require(okk, "U4", inst, where(x, fn4),
                    "result of rename is not tested with every failure path ending in abort",
                    function=fn4["qname"], construct=inst)
    chk.floor("U4", len(renames), 1)

    # ---- U2: rename(dump -> backup 0) iff (max>0 and restarts>0), before the open
    def cond_on(e, field):
        """(op, constant) when e compares this->field with an integer constant (either order), else None."""
        e = C.strip_casts(e)
        if e.get("k") == "Bin" and e["op"] in (">", ">=", "<", "<=", "!=", "=="):
            if C.member_name(e["a"]) == field and C.const_int(e["b"]) is not None:
                return e["op"], C.const_int(e["b"])
            if C.member_name(e["b"]) == field and C.const_int(e["a"]) is not None:
                flip = {">": "<", ">=": "<=", "<": ">", "<=": ">=", "!=": "!=", "==": "=="}
                return flip[e["op"]], C.const_int(e["a"])
        if C.member_name(e) == field:
            return "!=", 0
        return None

    def holds(v, op, c):
        if not (0 <= c <= 2):
            raise AnalysisBroken("get_restart_writer compares a counter with %d: outside the classes 0 / 1 / >=2" % c)
        if v == 2 and c == 2 and op in ("==", "!=", "<=", ">"):
            raise AnalysisBroken("get_restart_writer distinguishes counter values above 2")
        return {">": v > c, ">=": v >= c, "<": v < c, "<=": v <= c, "!=": v != c, "==": v == c}[op]

    found = {"max": 0, "rst": 0}

    def transfer(node, st):
        mx, rs, ren, opened, rs_live = st
        if node.kind == "branch":
            c1 = cond_on(node.ast, "_maximum_number_of_backups")
            if c1:
                found["max"] += 1
                return [(holds(mx, *c1), st)]
            c2 = cond_on(node.ast, "_number_of_restarts")
            if c2 and rs_live:
                found["rst"] += 1
                return [(holds(rs, *c2), st)]
        if any(node is n for n, _ in dump_renames):
            st = (mx, rs, ren + 1 if ren < 2 else 2, opened, rs_live)
            return [(None, st)]
        if node.kind in ("stmt", "decl", "return") and node.ast.get("k") != "Abort":
            for key, op, x in _writes(node.ast):
                if key == ("mem", ("this",), "_number_of_restarts") and not opened:
                    rs_live = False       # the counter no longer holds the entry value
                    st = (mx, rs, ren, opened, rs_live)
        if node is open_node:
            return [(None, (mx, rs, ren, True, rs_live))]
        return [(None, st)]

    n_u2 = 0
    ex = None
    for mx0 in ((0, 1, 2) if not conditional_dump_rename else ()):
        for rs0 in (0, 1, 2):
            ex = C.explore(g, (mx0, rs0, 0, False, True), transfer)
            for st in ex.at.get(open_node.id, ()):
                mx, rs, ren, opened, rs_live = st
                n_u2 += 1
                want = 1 if (mx > 0 and rs > 0) else 0
                names = {0: "0", 1: "1", 2: ">= 2"}
                inst = "open with maximum number of backups %s and %s earlier dump(s)" % (names[mx], names[rs])
                chk.require(ren == want and not opened, "U2", inst, where(open_x, fn),
                            "on the path through lines %s the dump name is %s before the truncating open, "
                            "expected %d rename(s) to backup 0" %
                            (ex.path_lines(open_node.id, st), "renamed %d time(s)" % ren, want),
                            function=fn["qname"], construct=inst)
            if not all(st[3] for st in ex.at.get(g.exit.id, ())):
                chk.fail("U2", "every return follows the open", where(fn), "a path reaches the exit without opening the restart "
                         "file", function=fn["qname"])
    if conditional_dump_rename:
        chk.note("U2 skipped: the rename of the dump is folded into a loop (conditional source); decided by U6")
    elif not found["max"] or not found["rst"]:
        raise AnalysisBroken("the guards on _maximum_number_of_backups/_number_of_restarts were not "
                             "found in get_restart_writer")
    if not conditional_dump_rename:
        chk.floor("U2", n_u2, 9)
    rets = [n for n in g.nodes if n.kind == "return"]
    chk.require(len(rets) >= 1, "U2", "every return follows the open", where(fn),
                "no return statement", function=fn["qname"])
    # backup 0 is the rename target
    def helper_literal(call):
        """literal pieces of a name helper name(k) with k replaced by the constant argument of the call"""
        for hm in u.methods_of("RestartManager"):
            if hm["full"].split("(")[0] == call.get("fn") and hm.get("body") and len(hm["params"]) == 1 and \
                    C.const_int(call["a"][0]) is not None:
                pk = hm["params"][0]["id"]
                nodes_, seen_ = [], set()
                for s3 in C.walk_stmt(hm["body"]):
                    if s3.get("k") in ("Str", "Ref") and id(s3) not in seen_ and s3.get("l") is not None:
                        seen_.add(id(s3))
                        nodes_.append(s3)
                nodes_.sort(key=lambda z: (z.get("l", 0), z.get("c", 0)))
                return "".join(z["v"] if z.get("k") == "Str" else (str(C.const_int(call["a"][0])) if z.get("id") == pk else "")
                               for z in nodes_)
        return None
    for n, x in dump_renames:
        tgt = _root_local(x["a"][1])
        lit = None
        if tgt is None:
            for y in C.walk(x["a"][1]):
                if y.get("k") == "Call" and (y.get("fn") or "").startswith("RestartManager::") and len(y.get("a", [])) == 1:
                    lit = helper_literal(y) or lit
        if tgt is not None:
            for node in g.nodes:
                if node.kind == "decl":
                    for d in node.ast["d"]:
                        if d["id"] == tgt["id"] and d.get("init"):
                            lits = [y["v"] for y in C.walk(d["init"]) if y.get("k") == "Str"]
                            lit = "".join(lits)
                            # a name built by a helper name(k): literal pieces of the helper with k = the argument
                            for y in C.walk(d["init"]):
                                if y.get("k") == "Call" and (y.get("fn") or "").startswith("RestartManager::") and \
                                        len(y.get("a", [])) == 1 and C.const_int(y["a"][0]) is not None:
                                    for hm in u.methods_of("RestartManager"):
                                        if hm["full"].split("(")[0] == y["fn"] and hm.get("body") and len(hm["params"]) == 1:
                                            pk = hm["params"][0]["id"]
                                            nodes = []
                                            seen_ids = set()
                                            for s3 in C.walk_stmt(hm["body"]):
                                                if s3.get("k") in ("Str", "Ref") and id(s3) not in seen_ids and \
                                                        s3.get("l") is not None:
                                                    seen_ids.add(id(s3))
                                                    nodes.append(s3)
                                            nodes.sort(key=lambda z: (z.get("l", 0), z.get("c", 0)))
                                            lit = "".join(z["v"] if z.get("k") == "Str" else
                                                          (str(C.const_int(y["a"][0])) if z.get("id") == pk else "")
                                                          for z in nodes)
        if lit is None or ".0." not in lit:
            lit2 = name_text(u, fn, x["a"][1])
            if lit2 is not None:
                lit = lit2
        chk.require(lit is not None and ".0." in lit, "U2", "rename target is backup 0", where(x, fn),
                    "target of the dump rename is %r, expected the index-0 backup name" % lit,
                    function=fn["qname"], construct="dump rename target")

    # ---- U3: shift loop ----------------------------------------------------
    loops = [s for s in C.walk_stmt(fn["body"]) if s.get("k") in ("For", "While")]
    shift_loops = []
    for lp in loops:
        inner = []
        for x in C.walk_stmt(lp["body"]):
            if C.is_call(x) and (x.get("fn") in ("rename", "std::rename") or x.get("fn") in RENAME_WRAPPERS) and \
                    not any(x is y for y in inner):
                inner.append(x)
        if inner:
            shift_loops.append((lp, inner))
    if len(shift_loops) != 1 or len(shift_loops[0][1]) != 1:
        raise AnalysisBroken("expected one backup-shift loop with one rename in get_restart_writer")
    lp, (rn,) = shift_loops[0]
    cnd = C.strip_casts(lp["c"]) if lp.get("c") else None
    ivar = None
    if lp.get("k") == "For" and lp.get("init") and lp["init"].get("k") == "Decl":
        ivar = lp["init"]["d"][0]
    elif cnd is not None and cnd.get("k") == "Bin" and C.strip_casts(cnd["a"]).get("k") == "Ref":
        vid = C.strip_casts(cnd["a"]).get("id")
        for s2 in C.walk_stmt(fn["body"]):
            if s2.get("k") == "Decl":
                for d in s2["d"]:
                    if d["id"] == vid and d.get("init") is not None:
                        ivar = d
    if ivar is None:
        raise AnalysisBroken("shift loop has no induction variable with an initial value")
    conv = Converter(integer=True)
    env = Env()
    isym = S("i", integer=True)
    env.vals[("l", ivar["id"])] = isym

    # helper functions that build a backup name from an index: name(k) streams k between "restart." and ".back"
    name_helpers = {}
    name_helper_pos = {}
    for m in u.methods_of("RestartManager"):
        if not m.get("body") or not m["params"] or "string" not in (m.get("ret") or m.get("t") or "string"):
            continue
        ipos = [i_ for i_, p_ in enumerate(m["params"]) if any(t_ in (p_.get("t") or "") for t_ in ("int", "long", "size_t"))
                and "string" not in (p_.get("t") or "")]
        if len(ipos) != 1:
            continue
        pk = m["params"][ipos[0]]["id"]
        streamed = [x for s2 in C.walk_stmt(m["body"]) for x in
                    (C.walk(s2) if s2.get("k") not in ("Block", "If", "For", "While", "Do", "Decl") else ())
                    if x.get("k") == "Ref" and x.get("id") == pk]
        strs = [x.get("v") for s2 in C.walk_stmt(m["body"]) for x in
                (C.walk(s2) if s2.get("k") not in ("Block", "If", "For", "While", "Do", "Decl") else ()) if x.get("k") == "Str"]
        if len({id(x) for x in streamed}) == 1 and any("restart." in (t or "") for t in strs) and any(".back" in (t or "") for t in strs):
            name_helpers[m["full"].split("(")[0]] = m
            name_helper_pos[m["full"].split("(")[0]] = ipos[0]

    names = {}          # string / stringstream local id -> set of index values it carries
    renamed = []        # (src index set, dst index set, value of the induction variable at that point)

    def index_of_name(e):
        """Backup index carried by a file-name expression (a local, local.str().c_str(), or a helper call)."""
        e = C.strip_casts(e)
        while True:
            if e.get("k") == "Call" and e.get("obj") is not None and e.get("n") in ("c_str", "str"):
                e = C.strip_casts(e["obj"])
                continue
            if e.get("k") == "Ctor" and len(e.get("a", [])) == 1:
                e = C.strip_casts(e["a"][0])
                continue
            break
        if e.get("k") == "Call" and e.get("fn") in name_helpers and e["a"]:
            return {sp.simplify(conv.conv(e["a"][name_helper_pos[e["fn"]]], env))}
        if e.get("k") == "Ref" and e.get("id") in names:
            return set(names[e["id"]])
        if e.get("k") == "Ref" and e.get("id") == dump_local["id"]:
            return {sp.Integer(-1)}          # the dump itself: "backup -1" of the chain dump -> 0 -> 1 -> ...
        if e.get("k") == "Cond":
            # a name chosen by a test of the loop counter: both arms must be the same function of the counter, the arm taken
            # at the boundary value being evaluated there (i > 1 ? backup(i - 2) : dump  is  "index i - 2" for every i >= 1)
            a, b = index_of_name(e["a"]), index_of_name(e["b"])
            c0 = C.strip_casts(e["c"])
            if a is None or b is None or len(a) != 1 or len(b) != 1:
                return None
            (ea,), (eb,) = tuple(a), tuple(b)
            if c0.get("k") == "Bin" and c0["op"] in (">", ">=", "<", "<=", "==", "!=") and \
                    (C.ref_key(c0["a"]) or (None, None))[1] == ivar["id"] and C.const_int(c0["b"]) is not None:
                cst = C.const_int(c0["b"])
                bval = {">": cst, ">=": cst - 1, "<": cst, "<=": cst + 1, "==": None, "!=": cst}[c0["op"]]
                # the arm that is NOT a function of i is taken at exactly one value of i (the loop ends at 1)
                gen, lit = (ea, eb) if isym in getattr(ea, "free_symbols", set()) else (eb, ea)
                if bval is not None and isym in getattr(gen, "free_symbols", set()) and \
                        sp.simplify(gen.subs(isym, bval) - lit) == 0:
                    return {gen}
            return None
        return None

    def visit_expr(e):
        for x in C.walk(e):
            if C.is_call(x) and x.get("op") == "<<":
                root = x
                ops = []
                while C.is_call(root) and root.get("op") == "<<":
                    args = ([root["obj"]] if root.get("obj") is not None else []) + root["a"]
                    ops.append(args[1])
                    root = C.strip_casts(args[0])
                if root.get("k") == "Ref" and "id" in root:
                    for o in ops:
                        o = C.strip_casts(o)
                        t = o.get("t", "")
                        if o.get("k") not in ("Str",) and ("long" in t or "int" in t) and "char" not in t:
                            names.setdefault(root["id"], set()).add(sp.simplify(conv.conv(o, env)))
        for x in C.walk(e):
            if C.is_call(x) and x.get("fn") in ("rename", "std::rename"):
                renamed.append((index_of_name(x["a"][0]), index_of_name(x["a"][1]), env.vals[("l", ivar["id"])]))
            elif C.is_call(x) and x.get("fn") in RENAME_WRAPPERS:
                w_, i_, j_ = RENAME_WRAPPERS[x["fn"]]
                renamed.append((index_of_name(x["a"][i_]), index_of_name(x["a"][j_]), env.vals[("l", ivar["id"])]))
        for x in C.walk(e):
            if x.get("k") == "Un" and x["op"] in ("pre--", "post--", "pre++", "post++") and \
                    (C.ref_key(x["x"]) or (None, None))[1] == ivar["id"]:
                env.vals[("l", ivar["id"])] = env.vals[("l", ivar["id"])] + (1 if "++" in x["op"] else -1)
            if x.get("k") == "Bin" and x["op"] in ("-=", "+=") and (C.ref_key(x["a"]) or (None, None))[1] == ivar["id"]:
                d0 = conv.conv(x["b"], env)
                env.vals[("l", ivar["id"])] = env.vals[("l", ivar["id"])] + (d0 if x["op"] == "+=" else -d0)
            if x.get("k") == "Bin" and x["op"] == "=" and (C.ref_key(x["a"]) or (None, None))[1] == ivar["id"]:
                env.vals[("l", ivar["id"])] = conv.conv(x["b"], env)

    def visit(st):
        k = st.get("k")
        if k == "Block":
            if st.get("mac"):
                return
            for c2 in st.get("s", []):
                visit(c2)
        elif k == "Decl":
            for d in st["d"]:
                if d.get("init") is not None:
                    idx = index_of_name(d["init"])
                    visit_expr(d["init"])
                    if idx is not None:
                        names[d["id"]] = idx
                    elif "unsigned" in (d.get("t") or "") or (d.get("t") or "").replace("const ", "").strip() in ("int", "long"):
                        try:
                            env.vals[("l", d["id"])] = conv.conv(d["init"], env)     # an index computed from the loop counter
                        except AnalysisBroken:
                            pass
            return
        elif k == "If":
            visit_expr(st["c"])
            # the arms of the rename test only abort / log
        elif k in ("For", "While", "Do"):
            raise AnalysisBroken("nested loop in the backup-shift loop")
        else:
            visit_expr(st)
    visit(lp["body"])
    if lp.get("k") == "For" and lp.get("inc") is not None:
        visit_expr(lp["inc"])
    if len(renamed) != 1 or renamed[0][0] is None or renamed[0][1] is None:
        raise AnalysisBroken("cannot extract the backup indices of the shift file names")
    se, de, _at = renamed[0]
    (se1,), (de1,) = (tuple(se) if len(se) == 1 else (None,)), (tuple(de) if len(de) == 1 else (None,))
    okshift = se1 is not None and de1 is not None and sp.simplify(de1 - se1 - 1) == 0 and \
        isym in getattr(de1, "free_symbols", set()) and sp.simplify(sp.diff(de1, isym) - 1) == 0
    chk.require(okshift, "U3", "shift renames backup k-1 to backup k (k = %s)" % (de1 if de1 is not None else "?"),
                where(rn, fn), "shift loop renames index %s to index %s" % (se, de),
                function=fn["qname"], construct="shift rename indices")
    doff = sp.simplify(de1 - isym) if okshift else sp.Integer(0)     # destination index = i + doff
    net = sp.simplify(env.vals[("l", ivar["id"])] - isym)
    cnd_ok = cnd is not None and cnd.get("k") == "Bin" and (
        (cnd["op"] in (">", "!=") and C.const_int(cnd["b"]) == 0) or
        (cnd["op"] == ">=" and C.const_int(cnd["b"]) == 1)) and \
        (C.ref_key(cnd["a"]) or (None, None))[1] == ivar["id"]
    chk.require(net == -1 and cnd_ok, "U3", "shift loop runs i = start ... 1, strictly decreasing",
                where(lp, fn), "loop condition %s / net change of the index per iteration %s do not describe a decreasing "
                "loop ending at 1" % (C.pretty(lp.get("c")), net),
                function=fn["qname"], construct="shift loop direction")
    env.vals.pop(("l", ivar["id"]), None)
    mx = S("_maximum_number_of_backups", integer=True)
    nb = S("_number_of_backups", integer=True)
    start = conv.conv(ivar["init"], env)
    want = sp.Min(mx - 1, nb)

    def plus(e_, c_):
        return sp.Min(*[sp.expand(a_ + c_) for a_ in e_.args]) if isinstance(e_, sp.Min) else sp.expand(e_ + c_)
    top = plus(start, doff)          # the highest destination index written
    chk.require(sp.simplify(top - want) == 0 or top == want, "U3",
                "the highest backup written by the shift is min(max-1, number of backups)", where(ivar["init"], fn),
                "the shift starts at %s, i.e. the highest destination index is %s, required %s: the newest existing backup is %s"
                % (start, top, want, "overwritten instead of moved (or the chain starts one link short)"),
                function=fn["qname"], construct="shift start index")
    # the shift precedes the dump rename: no path from the dump rename back into the loop
    lp_lines = set(x.get("l") for x in C.walk_stmt(lp["body"]))
    after = set()
    for n, _ in dump_renames:
        after |= g.reachable(n.id)
    shift_nodes = {n.id for n, _ in shift_renames}
    if conditional_dump_rename:
        # the dump is the last link of the same descending chain (index -1 -> 0 at the last iteration): ordered by the loop
        chk.ok("U3", "backups are shifted before the dump is moved to backup 0 (same descending loop, dump = link -1)", where(lp, fn))
    else:
        chk.require(not (after & shift_nodes) and bool(dump_renames), "U3",
                    "backups are shifted before the dump is moved to backup 0", where(lp, fn),
                    "a shift rename is reachable after the dump was renamed to backup 0",
                    function=fn["qname"], construct="shift before dump rename")
    chk.floor("U3", 4, 4)

    # ---- U7: explicit deletions in the rotation never hit a backup that is to be kept (c14_remove.py) ----------------
    from . import c14_remove
    n_u7 = c14_remove.rule_U7(chk, fn, g, shift_renames, dump_renames, dump_local, name_helpers, name_helper_pos)
    chk.floor("U7", n_u7, 1)

    # ---- U8: no other method of the manager deletes a dump or a backup ------------------------------------------------
    n_u8 = c14_remove.rule_U8(chk, u, fn)
    chk.floor("U8", n_u8, 1)

    # ---- U5: caller --------------------------------------------------------
    ur = prog.unit("TaskBasedRadiationHydrodynamicsSimulation.cpp")
    chk.analysed(unit=ur.name)
    drv = ur.func("TaskBasedRadiationHydrodynamicsSimulation::do_simulation")
    chk.analysed(function=drv["full"])
    gd = C.CFG(drv)
    decl_nodes = []
    for node in gd.nodes:
        if node.kind == "decl":
            for d in node.ast["d"]:
                if d.get("init") and any(C.is_call(x, name="get_restart_writer", cls="RestartManager")
                                         for x in C.walk(d["init"])):
                    decl_nodes.append((node, d))
    if len(decl_nodes) != 1:
        raise AnalysisBroken("expected one dump site (get_restart_writer call) in the RHD driver, "
                             "found %d" % len(decl_nodes))
    dnode, dvar = decl_nodes[0]

    raii = "unique_ptr" in (dvar.get("t") or "")
    writer_ids = {dvar["id"]}
    for node in gd.nodes:
        if node.kind == "decl":
            for d in node.ast["d"]:
                if d.get("init") is not None and (d.get("t") or "").rstrip().endswith("&") and \
                        any(x.get("k") == "Ref" and x.get("id") in writer_ids for x in C.walk(d["init"])):
                    writer_ids.add(d["id"])      # RestartWriter &alias = *owner;

    def is_delete_of(node, vid):
        if node.kind != "stmt" or node.ast.get("k") == "Abort":
            return False
        return any(x.get("k") == "Delete" and (C.ref_key(x["x"]) or (0, 0))[1] == vid
                   for x in C.walk(node.ast))

    def is_write_through(node, vid):
        if node.kind not in ("stmt", "decl") or node.ast.get("k") == "Abort":
            return False
        for x in C.walk(node.ast):
            if x.get("k") == "Call":
                for a in ([x["obj"]] if x.get("obj") is not None else []) + x["a"]:
                    if any(y.get("k") == "Ref" and y.get("id") in writer_ids for y in C.walk(a)):
                        return True
        return False

    released = [x for x in C.walk_stmt(drv["body"]) if x.get("k") == "Call" and x.get("n") == "release" and
                x.get("obj") is not None and C.strip_casts(x["obj"]).get("id") == dvar["id"]]
    if raii and not released:
        # a block-local std::unique_ptr owner: the writer is destroyed when the block is left, on every path.  What remains to
        # be shown is that the owner is local to the step (declared inside the loop) and that something is written through it.
        loops = [s_ for s_ in C.walk_stmt(drv["body"]) if s_.get("k") in ("While", "Do", "For") and
                 any(y is dnode.ast for y in C.walk_stmt(s_.get("body")))]
        wrote_any = any(is_write_through(n_, dvar["id"]) for n_ in gd.nodes if n_ is not dnode)
        chk.require(bool(loops), "U5", "writer is deleted (flushed, closed) on every path", where(dnode.ast, drv),
                    "the owning unique_ptr is not local to one step of the loop", function=drv["qname"],
                    construct="delete restart_writer")
        chk.require(wrote_any, "U5", "state is written through the writer before it is closed", where(dnode.ast, drv),
                    "nothing is written through the writer", function=drv["qname"], construct="write before delete")

    def tr5(node, st):
        held, wrote = st
        if node is dnode:
            return [(None, (True, False))]
        if held and is_delete_of(node, dvar["id"]):
            return [(None, (False, wrote))]
        if held and is_write_through(node, dvar["id"]):
            return [(None, (held, True))]
        return [(None, st)]

    if not (raii and not released):
        ex5 = C.explore(gd, (False, False), tr5)
        bad = [st for st in ex5.at.get(gd.exit.id, ()) if st[0]]
        bad_loop = [st for st in ex5.at.get(dnode.id, ()) if st[0]]
        chk.require(not bad and not bad_loop, "U5", "writer is deleted (flushed, closed) on every path",
                    where(dnode.ast, drv), "a path from the dump site reaches the next step or the end of "
                    "the run without `delete` of the RestartWriter", function=drv["qname"],
                    construct="delete restart_writer")
        del_nodes = [n for n in gd.nodes if is_delete_of(n, dvar["id"])]
        wrote_ok = all(st[1] for n in del_nodes for st in ex5.at.get(n.id, ()) if st[0])
        chk.require(bool(del_nodes) and wrote_ok, "U5", "state is written through the writer before it is closed",
                    where(dnode.ast, drv), "the writer is deleted on a path on which nothing was written",
                    function=drv["qname"], construct="write before delete")

    # stop request => dump precedes resubmit
    resub = [n for n in gd.nodes if n.kind == "stmt" and n.ast.get("k") != "Abort" and
             any(C.is_call(x, name="resubmit", cls="RestartManager") for x in C.walk(n.ast))]
    def has_stop_call(e):
        return e is not None and any(C.is_call(x, name="stop_simulation", cls="RestartManager") for x in C.walk(e))
    # the stop flag: the variable assigned from RestartManager::stop_simulation(), directly or under a test of it
    stopkeys = set()
    for node in gd.nodes:
        if node.kind == "stmt" and node.ast.get("k") == "Bin" and node.ast["op"] == "=" and has_stop_call(node.ast["b"]):
            stopkeys.add(C.ref_key(node.ast["a"]))
        if node.kind == "decl":
            for d in node.ast["d"]:
                if has_stop_call(d.get("init")) and (d.get("t") or "").replace("const ", "").strip() == "bool":
                    stopkeys.add(("local", d["id"], d["n"]))
    if not stopkeys:
        for st_ in C.walk_stmt(drv["body"]):
            if st_.get("k") == "If" and has_stop_call(st_["c"]):
                for y in C.walk_stmt(st_["th"]):
                    if y.get("k") == "Bin" and y.get("op") == "=" and C.strip_casts(y["b"]).get("k") == "Bool":
                        stopkeys.add(C.ref_key(y["a"]))
    stopkeys.discard(None)
    if len(resub) != 1 or len(stopkeys) != 1:
        raise AnalysisBroken("expected one resubmit() and one stop flag fed by RestartManager::stop_simulation() in the RHD "
                             "driver (found %d, %d)" % (len(resub), len(stopkeys)))
    stopkey = next(iter(stopkeys))

    def rhs_value(e, val, flags):
        """True / False / None: value of a boolean expression given the stop flag's value and the locals known true."""
        e = C.strip_casts(e)
        if e is None:
            return None
        if e.get("k") == "Bool":
            return bool(e["v"])
        if C.ref_key(e) == stopkey and e.get("k") == "Ref":
            return val if val in (True, False) else None
        if e.get("k") == "Ref" and e.get("id") in flags:
            return True
        if e.get("k") == "Bin" and e["op"] == "||":
            a, b = rhs_value(e["a"], val, flags), rhs_value(e["b"], val, flags)
            if a is True or b is True:
                return True
            return False if (a is False and b is False) else None
        if e.get("k") == "Bin" and e["op"] == "&&":
            a, b = rhs_value(e["a"], val, flags), rhs_value(e["b"], val, flags)
            if a is False or b is False:
                return False
            return True if (a is True and b is True) else None
        return None

    def disjuncts(e):
        e = C.strip_casts(e)
        if e is not None and e.get("k") == "Bin" and e["op"] == "||":
            return disjuncts(e["a"]) + disjuncts(e["b"])
        return [e]

    def tr6(node, st):
        val, dumped, flags, disj = st
        if node is dnode:
            return [(None, (val, True, flags, disj))]
        if node.kind == "branch" and C.strip_casts(node.ast).get("k") == "Ref":
            rid = C.strip_casts(node.ast).get("id")
            if C.ref_key(node.ast) == stopkey:
                outs = []
                if val in (None, True, "init"):
                    outs.append((True, (True if val != "init" else "init", dumped, flags, disj)))
                if val in (None, False, "init"):
                    outs.append((False, (False if val != "init" else "init", dumped, flags, disj)))
                return outs
            if rid in flags:
                return [(True, st)]
            if rid in disj:
                # X = ... || stop:  X false implies stop false
                outs = [(True, st)]
                if val is not True:
                    outs.append((False, (False if val != "init" else "init", dumped, flags, disj)))
                return outs
        if node.kind == "decl":
            nf, nd = set(flags), set(disj)
            for d in node.ast["d"]:
                if d.get("init") is not None and (d.get("t") or "").replace("const ", "").strip() == "bool":
                    if ("local", d["id"], d["n"]) == stopkey:
                        return [(None, (rhs_value(d["init"], val, flags), False, flags, disj))]
                    if rhs_value(d["init"], val, flags) is True:
                        nf.add(d["id"])
                    else:
                        nf.discard(d["id"])
                    if any(x is not None and x.get("k") == "Ref" and C.ref_key(x) == stopkey for x in disjuncts(d["init"])):
                        nd.add(d["id"])
                    else:
                        nd.discard(d["id"])
            return [(None, (val, dumped, frozenset(nf), frozenset(nd)))]
        if node.kind == "stmt" and node.ast.get("k") != "Abort":
            for key, op, x in _writes(node.ast):
                if key == stopkey:
                    v = rhs_value(node.ast.get("b"), val, flags) if node.ast.get("k") == "Bin" and node.ast.get("op") == "=" else None
                    return [(None, (v, False, flags, frozenset()))]
        return [(None, st)]

    ex6 = C.explore(gd, ("init", True, frozenset(), frozenset()), tr6)
    sts = ex6.at.get(resub[0].id, set())
    bad = [st for st in sts if st[0] != "init" and not st[1]]
    # resubmit only under a stop request
    only_stop = all(st[0] is True for st in sts)
    chk.require(not bad and only_stop and bool(sts), "U5", "a stop request is dumped before resubmit",
                where(resub[0].ast, drv),
                "resubmit() is reachable after a stop request without a dump in between (lines %s)" %
                (ex6.path_lines(resub[0].id, bad[0]) if bad else "?"),
                function=drv["qname"], construct="dump before resubmit")
    chk.floor("U5", 3, 3)
