"""C05 - Riemann fluxes respect the symmetries of the Euler equations, vacuum included.

Decided as algebraic identities over all real inputs (DESIGN.md C05):
 S1 left/right twin samplers are mirror images (conditions and all outputs of every leaf);
 S2 self-mirror of sample_vacuum_generation, of both solve_for_flux and of solve_vacuum_flux
    (states swapped + normal reversed => every flux component negated);
 S3 every HLLC vacuum-sampler leaf is a constant state, vacuum or a true rarefaction-fan point;
 S4 the HLLC vacuum path is the exact one (samplers at x/t = 0, trigger, dispatch, flux assembly);
 S6 the HLLC star-region flux is the textbook HLLC flux for the solver's own wave speeds;
 S7 the contact speed equalises the two star pressures; S8 upwind arms return the analytic flux and the
    flux is continuous where the contact / an outer wave changes side; S9 Galilean covariance of both
    flux functions; S10 identical states give the analytic flux.
Not decided: anything depending on the exact solver's iteration, round-off, the 1.5 sound speed clause.
"""
import sympy as sp

from .. import cfg as C
from ..astdb import AnalysisBroken, where
from ..riemann import (EX, HL, Solver, gamma, sym_for, iz, rat_is_zero, atomise, flat, flux_leaves,
                       flux_mirror_map, flux_mirror, apply_vm, sampler_leaves, check_wave_leaves, show_conds, pred_set,
                       same_pred_set, same_pred, mirror_expr, sign_pred, state_syms, bind_sampler)
from ..sym import S
from ..symexec import AVec

LEVEL = "proof"

STATE_INL = {"L": ("sample_left_shock_wave", "sample_left_rarefaction_wave"),
             "R": ("sample_right_shock_wave", "sample_right_rarefaction_wave")}


def mirror_preds(ps):
    out = []
    for p in ps:
        if p[0] == "bool":
            out.append(("bool", mirror_expr(p[1]), p[2]))
        else:
            out.append((sp.expand(mirror_expr(p[0])), p[1]))
    return out


def sampler_mirror(chk, rule, sol, lname, rname, inl_l=(), inl_r=(), has_dxdt=True):
    fl, ll = sampler_leaves(sol, lname, inl_l, has_dxdt)
    fr, lr = sampler_leaves(sol, rname, inl_r, has_dxdt)
    chk.analysed(function=fl["full"])
    chk.analysed(function=fr["full"])
    n = 0
    used = set()
    for a, oa in ll:
        pa = mirror_preds(pred_set(a))
        hits = [i for i, (b, ob) in enumerate(lr) if same_pred_set(pa, pred_set(b))]
        inst = "%s [%s] ~ mirror of %s" % (fl["full"], show_conds(a)[:140], fr["name"])
        loc = where(a.conds[-1][2], fl) if a.conds else where(fl)
        n += 1
        if len(hits) != 1:
            chk.fail(rule, inst, loc, "no regime of %s is the mirror image of this regime (the twins branch "
                     "on different conditions)" % fr["full"], function=fl["full"],
                     construct="regime %s" % show_conds(a)[:80])
            continue
        used.add(hits[0])
        b, ob = lr[hits[0]]
        for k, par in (("rho", 1), ("u", -1), ("P", 1), ("ret", -1)):
            if oa[k] is None and ob[k] is None:
                continue
            if oa[k] is None or ob[k] is None:
                chk.fail(rule, inst + ": " + k, loc, "one twin returns a value, the other does not",
                         function=fl["full"], construct="%s output %s" % (lname, k))
                continue
            z, r = iz(par * mirror_expr(oa[k]) - ob[k])
            n += 1
            chk.require(z, rule, "%s: %s" % (inst, {"rho": "density", "u": "velocity", "P": "pressure",
                                                    "ret": "side flag"}[k]), loc,
                        "left and right twin disagree under the mirror map: residual %s (one of the two is wrong)"
                        % r, function=fl["full"], construct="%s/%s %s" % (lname, rname, k))
    n += 1
    chk.require(len(used) == len(lr), rule, "%s and %s have the same number of regimes" % (lname, rname),
                where(fr), "%d regimes of %s have no mirror image in %s" % (len(lr) - len(used), rname, lname),
                function=fr["full"], construct="regime count")
    return n


def sampler_self_mirror(chk, rule, sol, name, has_dxdt=True):
    f, ls = sampler_leaves(sol, name, (), has_dxdt)
    chk.analysed(function=f["full"])
    dxdt = sym_for("dxdt") if has_dxdt else sp.Integer(0)
    fronts = []
    for K, sgn in (("L", 1), ("R", -1)):
        rhoK, uK, PK, aK = state_syms(K)
        fronts.append(uK + sgn * 2 * aK / (gamma - 1) - dxdt)
    n = 0
    for a, oa in ls:
        inst = "%s [%s] ~ its own mirror image" % (f["full"], show_conds(a)[:140])
        loc = where(a.conds[-1][2], f) if a.conds else where(f)
        ua, _ = region_signature(a)
        ma = mirror_preds(ua)
        best = None
        for b, ob in ls:
            ub, _ = region_signature(b)
            ub = [((sp.expand(p[0]), p[1]) if p[0] != "bool" else p) for p in ub]
            extra_a = [x for x in ma if not any(same_pred(x, y) for y in ub)]
            extra_b = [y for y in ub if not any(same_pred(x, y) for x in ma)]
            # literals comparing x/t with a vacuum front may be present on one side only: under the
            # function's precondition (the two fronts are separated) they are implied by the others
            def is_front(p):
                return p[0] != "bool" and any(sp.expand(p[0] - fr) == 0 or sp.expand(p[0] + fr) == 0 for fr in fronts)
            if all(is_front(p) for p in extra_a + extra_b):
                if best is None or len(extra_a) + len(extra_b) < best[2]:
                    best = (b, ob, len(extra_a) + len(extra_b))
        n += 1
        if best is None:
            chk.fail(rule, inst, loc, "no regime of the function is the mirror image of this regime",
                     function=f["full"], construct="regime %s" % show_conds(a)[:80])
            continue
        b, ob = best[0], best[1]
        for k, par in (("rho", 1), ("u", -1), ("P", 1), ("ret", -1)):
            if oa[k] is None:
                continue
            z, r = iz(par * mirror_expr(oa[k]) - ob[k])
            n += 1
            chk.require(z, rule, "%s: %s" % (inst, k), loc,
                        "left and right branch disagree under the mirror map: residual %s" % r,
                        function=f["full"], construct="%s %s" % (name, k))
    return n


def region_signature(leaf, subs=None):
    """Regime of a leaf as the set of decided sign predicates (after unit propagation of &&/||)."""
    from ..riemann import dxdt_bounds
    units = []
    clauses = []

    def lits(c, pol):
        if isinstance(c, sp.And):
            if pol:
                for a in c.args:
                    lits(a, True)
            else:
                clauses.append([(a, False) for a in c.args])
        elif isinstance(c, sp.Or):
            if not pol:
                for a in c.args:
                    lits(a, False)
            else:
                clauses.append([(a, True) for a in c.args])
        elif isinstance(c, sp.Not):
            lits(c.args[0], not pol)
        else:
            units.append((c, pol))
    for c, pol, _ in leaf.conds:
        if subs:
            c = c.xreplace(subs)
        lits(c, pol)
    changed = True
    while changed:
        changed = False
        for cl in list(clauses):
            if any(any(a == ua and p == up for ua, up in units) for a, p in cl):
                clauses.remove(cl)
                continue
            rest = [(a, p) for a, p in cl if not any(a == ua and p != up for ua, up in units)]
            if len(rest) == 1:
                units.append(rest[0])
                clauses.remove(cl)
                changed = True
    return [sign_pred(c, pol) for c, pol in units], clauses


# --------------------------------------------------------------------------------------
def flux_self_mirror(chk, rule, sol, name, inline=(), opaque=None, sig=None, parity_funcs=None, skip_opaque=True,
                     flag_funcs=None, bool_domain=None, family_map=None, arg_perm=None):
    """Swapping the states and reversing the normal negates every flux component, regime by regime.
    parity_funcs: uninterpreted sampler outputs with their parity under the mirror map (the samplers'
    own mirror symmetry is rule S1/S2); family_map / arg_perm: how an application of one sampler family
    is rewritten into the mirrored family; flag_funcs / bool_domain: finite domains used to compare
    regimes that are selected by side flags and vacuum flags."""
    fn, res, se = flux_leaves(sol, name, inline, opaque, sig)
    chk.analysed(function=fn["full"])
    n = 0
    finite = bool(flag_funcs or bool_domain)
    live = [(l, o) for l, o in res if not (skip_opaque and getattr(l, "opaque", []) and not parity_funcs)]
    syms = set()
    for l, o in live:
        for c, _, _ in l.conds:
            syms |= c.free_symbols
        for v in o.values():
            for x in flat(v):
                syms |= x.free_symbols
    mm = flux_mirror_map(syms)
    zero_eps = {sol.eps: 0}
    family_map = family_map or {}

    def rewrite_apps(e2):
        if not parity_funcs:
            return e2
        reps = {}
        apps = set()
        if isinstance(e2, AVec):
            for v in e2.c.values():
                apps |= v.atoms(sp.Function)
        else:
            apps = e2.atoms(sp.Function)
        for app in apps:
            nm = app.func.__name__
            if nm in parity_funcs:
                b = app.args
                fam = nm.split("_")[0]
                perm = (arg_perm or {}).get(fam)
                if perm is None:
                    if len(b) < 6:
                        continue
                    nb = (b[3], -b[4], b[5], b[0], -b[1], b[2]) + tuple(b[6:])
                else:
                    nb = tuple(sgn * b[idx] for idx, sgn in perm) + tuple(b[len(perm):])
                tgt = family_map.get(fam, fam) + nm[len(fam):]
                reps[app] = parity_funcs[nm] * sp.Function(tgt, real=True)(*nb)
        return e2.xreplace(reps)

    def M(e):
        return rewrite_apps(flux_mirror(e, mm))

    def regime_key(leaf):
        """Finite-domain regime: the set of (vacuum-flag assignment, side-flag values) satisfying the
        leaf's conditions."""
        apps = set()
        for c, _, _ in leaf.conds:
            apps |= {x for x in c.atoms(sp.Function) if x.func.__name__ in (flag_funcs or ())}
        apps = sorted(apps, key=str)
        import itertools
        keys = set()
        for assign in (bool_domain or [{}]):
            for vals in itertools.product((-1, 0, 1), repeat=len(apps)):
                rep = {a: sp.Integer(v) for a, v in zip(apps, vals)}
                okv = True
                for c, pol, _ in leaf.conds:
                    c2 = c.xreplace(rep)
                    c2 = c2.subs({sp.Symbol(k): (sp.true if v else sp.false) for k, v in assign.items()})
                    if c2 in (sp.true, sp.false):
                        if bool(c2) != pol:
                            okv = False
                            break
                    else:
                        raise AnalysisBroken("%s: condition %s is not decided by the vacuum / side flags"
                                             % (fn["full"], c))
                if okv:
                    keys.add((tuple(sorted(assign.items())),
                              tuple(sorted((a.func.__name__.split("_")[0], v) for a, v in zip(apps, vals)))))
        return frozenset(keys)

    def mirror_key(key):
        out = set()
        for assign, flags in key:
            a2 = tuple(sorted((__import__("cmiv.riemann", fromlist=["mirror_name"]).mirror_name(k), v)
                              for k, v in assign))
            f2 = tuple(sorted((family_map.get(fam, fam), -v) for fam, v in flags))
            out.add((a2, f2))
        return frozenset(out)

    used = set()
    keys = [regime_key(l) for l, o in live] if finite else None
    for ia, (a, oa) in enumerate(live):
        hits = []
        if finite:
            want = mirror_key(keys[ia])
            hits = [i for i in range(len(live)) if keys[i] == want]
        else:
            pa = []
            for c, pol, _ in a.conds:
                pa.append(sign_pred(M(c), pol))
            pa = [((sp.expand(p[0]), p[1]) if p[0] != "bool" else p) for p in pa]
            for i, (b, ob) in enumerate(live):
                pb = pred_set(b)
                if len(pb) == len(pa) and same_pred_set_rat(pa, pb):
                    hits.append(i)
        inst = "%s [%s]" % (fn["full"], show_conds(a)[:120])
        loc = where(a.conds[-1][2], fn) if a.conds else where(fn)
        n += 1
        if len(hits) != 1:
            chk.fail(rule, inst + " has a mirror regime", loc,
                     "%d regimes of the flux function are the mirror image of this one (expected 1): left and "
                     "right blocks branch differently" % len(hits), function=fn["full"],
                     construct="flux regime %s" % show_conds(a)[:60])
            continue
        used.add(hits[0])
        b, ob = live[hits[0]]
        VB = list(__import__("cmiv.riemann", fromlist=["VBASIS"]).VBASIS) + ["other"] * 9
        comps = [("mass flux", (M(oa["m"]) + ob["m"]))] + \
                [("momentum flux (%s component)" % bn, x) for bn, x in zip(VB, flat(M(oa["p"]) + ob["p"]))
                 if x != 0 or bn == "normal"] + \
                [("energy flux", M(oa["E"]) + ob["E"])]
        for nm, x in comps:
            # the DBL_MIN regularisers are not mirror symmetric at their own (1e-308) level:
            # 1/(-x + eps) vs -1/(x + eps); the identity is decided with them set to 0
            z, r = rat_is_zero(x.xreplace(zero_eps))
            n += 1
            chk.require(z, rule, "%s: %s is negated by swapping the states and reversing the normal" % (inst, nm),
                        loc, "flux(R,L,-n) + flux(L,R,n) = %s, expected 0" % str(r)[:300],
                        function=fn["full"], construct="%s %s" % (name, nm))
    return n


def same_pred_rat(p, q):
    if p[0] == "bool" or q[0] == "bool":
        if p[0] != q[0] or p[2] != q[2]:
            return False
        if p[1] == q[1]:
            return True
        try:
            return bool(sp.simplify_logic(sp.Equivalent(p[1], q[1])) is sp.true)
        except Exception:
            return False
    (e1, s1), (e2, s2) = p, q
    if s1 == s2 and rat_is_zero(e1 - e2, complete=False)[0]:
        return True
    if s1 == -s2 and rat_is_zero(e1 + e2, complete=False)[0]:
        return True
    return False


def same_pred_set_rat(ps, qs):
    used = set()
    for p in ps:
        hit = None
        for i, q in enumerate(qs):
            if i not in used and same_pred_rat(p, q):
                hit = i
                break
        if hit is None:
            return False
        used.add(hit)
    return True


# --------------------------------------------------------------------------------------
def hllc_rules(chk, solh):
    """S6-S8, S10 on HLLCRiemannSolver::solve_for_flux."""
    fn, res, se = flux_leaves(solh, "solve_for_flux", (),
                              {"solve_vacuum_flux": {"outs": ["mvac", "pvac", "Evac"], "ret": "none"}})
    eps = solh.eps
    g = gamma
    rhoL, PL, rhoR, PR = sym_for("rhoL"), sym_for("PL"), sym_for("rhoR"), sym_for("PR")
    uL, uR, nrm, w = (se.vec_symbols(x) for x in ("uL", "uR", "normal", "vface"))
    zero_eps = {eps: 0}

    def deboost(m, p, E):
        w2 = w.dot(w)
        return m, p + m * w, E + w.dot(p) + sp.Rational(1, 2) * w2 * m

    def analytic(K):
        rho, P, uu = (rhoL, PL, uL) if K == "L" else (rhoR, PR, uR)
        uf = uu - w
        v = uf.dot(nrm)
        Et = P / (g - 1) + sp.Rational(1, 2) * rho * uf.dot(uf)
        return rho * v, uf * (rho * v) + nrm * P, (Et + P) * v, rho, P, uf, v, Et

    def reference(K, kind, Ss, Sk):
        m0, p0, E0, rho, P, uf, v, Et = analytic(K)
        if kind == "upwind":
            return deboost(m0, p0, E0)
        fac = rho * (Sk - v) / (Sk - Ss)
        Up = (uf + nrm * (Ss - v)) * fac
        UE = fac * (Et / rho + (Ss - v) * (Ss + P / (rho * (Sk - v))))
        return deboost(m0 + Sk * (fac - rho), p0 + (Up - uf * rho) * Sk, E0 + Sk * (UE - Et))

    def comps(o):
        return [("mass", o[0])] + [("momentum (%s)" % b, x) for b, x in
                                   zip(("uL", "uR", "normal", "vface", "x1", "x2", "x3"), flat(o[1]))] + \
            [("energy", o[2])]

    n = 0
    classified = []
    for l, o in res:
        if getattr(l, "opaque", []):
            continue
        rel = [(c, pol, a) for c, pol, a in l.conds if isinstance(c, sp.core.relational.Relational)]
        if len(l.conds) < 2 or not all(isinstance(c, sp.core.relational.Relational) for c, _, _ in l.conds[-2:]):
            continue
        (c1, p1, _a1), (c2, p2, _a2) = l.conds[-2], l.conds[-1]
        t1, t2 = sign_pred(c1, True), sign_pred(c2, True)
        if t1[0] == "bool" or t2[0] == "bool":
            continue
        T1, T2 = t1[0].xreplace(zero_eps), t2[0].xreplace(zero_eps)
        s1 = 1 if p1 else -1      # sign of T1 in this regime
        s2 = 1 if p2 else -1
        code = (o["m"].xreplace(zero_eps), o["p"].xreplace(zero_eps), o["E"].xreplace(zero_eps))
        found = None
        tried = []
        for K in ("L", "R"):
            for kind in ("star", "upwind"):
                # the regime must be: K=L: S* >= 0, and S_L < 0 (star) / >= 0 (upwind); mirrored for R
                want1 = 1 if K == "L" else -1
                want2 = {("L", "star"): -1, ("L", "upwind"): 1, ("R", "star"): 1, ("R", "upwind"): -1}[(K, kind)]
                Ss = T1 * (want1 * s1)
                Sk = T2 * (want2 * s2)
                ref = reference(K, kind, Ss, Sk)
                bad = []
                for (nm, cv), (_, rv) in zip(comps(code), comps(ref)):
                    z, r = rat_is_zero(cv - rv, complete=False)
                    if not z:
                        bad.append((nm, r))
                tried.append((K, kind, bad))
                if not bad and found is None:
                    found = (K, kind, Ss, Sk)
        inst = "solve_for_flux regime [%s]" % show_conds(l)[-110:]
        loc = where(l.conds[-1][2], fn)
        if found:
            K, kind, Ss, Sk = found
            for nm, _ in comps(code):
                n += 1
                chk.ok("S6" if kind == "star" else "S8",
                       "%s: %s flux = %s" % (inst, nm, "F_K + S_K (U*_K - U_K), K=%s" % K if kind == "star"
                                             else "analytic flux of the %s state" % K), loc)
            classified.append((l, o, K, kind, Ss, Sk))
        else:
            # report against the reading suggested by the branch polarity
            K = "L" if s1 > 0 else "R"
            kind = "star" if p2 else "upwind"
            bad = [b for kk, kd, b in tried if kk == K and kd == kind][0]
            for nm, r in bad:
                n += 1
                chk.fail("S6" if kind == "star" else "S8",
                         "%s: %s flux = %s" % (inst, nm, "F_K + S_K (U*_K - U_K), K=%s" % K if kind == "star"
                                               else "analytic flux of the %s state" % K), loc,
                         "%s flux of the %s-%s regime is not the textbook HLLC flux for the solver's own wave speeds; "
                         "numerator of the difference: %s" % (nm, K, kind, str(r)[:240]),
                         function=fn["full"], construct="HLLC %s-%s %s flux" % (K, kind, nm.split()[0]))
            classified.append((l, o, K, kind, T1 * ((1 if K == "L" else -1) * s1), None))
    kinds = {(K, kind) for _, _, K, kind, _, _ in classified}
    if kinds != {("L", "star"), ("L", "upwind"), ("R", "star"), ("R", "upwind")}:
        raise AnalysisBroken("HLLC solve_for_flux: star/upwind regimes not recognised (%s)" % sorted(kinds))
    chk.floor("S6/S8", n, 80)
    # S7 / contact continuity / identical states
    n7 = 0
    vL = (uL - w).dot(nrm)
    vR = (uR - w).dot(nrm)
    for (l, o, K, kind, Ss, SL) in classified:
        if (K, kind) != ("L", "star") or SL is None:
            continue
        for (l2, o2, K2, kind2, Ss2, SR) in classified:
            if (K2, kind2) != ("R", "star") or SR is None:
                continue
            if not same_pred_set_rat(pred_set(l2)[:-2], pred_set(l)[:-2]):
                continue
            if not rat_is_zero(Ss - Ss2)[0]:
                raise AnalysisBroken("HLLC: left and right blocks test different contact speeds")
            e = (PL + rhoL * (SL - vL) * (Ss - vL)) - (PR + rhoR * (SR - vR) * (Ss - vR))
            z, r = rat_is_zero(e)
            n7 += 1
            chk.require(z, "S7", "contact speed equalises the two star pressures [%s]" % show_conds(l)[-100:],
                        where(l.conds[-2][2], fn),
                        "P*_L - P*_R has numerator %s for the coded S*: the flux jumps when the contact crosses the "
                        "face" % str(r)[:240], function=fn["full"], construct="HLLC contact speed")
            # identical states: S* is the common normal velocity
            same = {rhoR: rhoL, PR: PL}
            raw = [c1 for c1, _, _ in l.conds][-2]
            T1 = sign_pred(raw, True)[0]
            e = apply_vm(T1, {"uR": AVec.basis("uL")}, same).xreplace(zero_eps)
            z1, _ = rat_is_zero(e - vL)
            z2, _ = rat_is_zero(e + vL)
            n7 += 1
            chk.require(z1 or z2, "S10", "for identical states the contact speed is the common normal velocity [%s]"
                        % show_conds(l)[-80:], where(l.conds[-2][2], fn),
                        "S*(state, state) = %s" % str(sp.simplify(e))[:200], function=fn["full"],
                        construct="HLLC identical states")
    # S8c (oracle level): for the textbook star states, F*_L - F*_R = S* (U*_L - U*_R) whenever the two
    # star pressures agree (S7); with S6 on both sides this makes the coded flux continuous at S* = 0
    r_L, r_R, p_L, p_R, v_L, v_R, SLs, SRs, Sst, e_L, e_R = sp.symbols(
        "rho_L rho_R p_L p_R v_L v_R S_L S_R S_star e_L e_R", real=True)

    def star1d(rho, p, v, E, S):
        fac = rho * (S - v) / (S - Sst)
        U = (fac, fac * Sst, fac * (E / rho + (Sst - v) * (Sst + p / (rho * (S - v)))))
        F = (rho * v, rho * v * v + p, (E + p) * v)
        U0 = (rho, rho * v, E)
        return U, tuple(f + S * (u - u0) for f, u, u0 in zip(F, U, U0))
    UL, FL = star1d(r_L, p_L, v_L, e_L, SLs)
    UR, FR = star1d(r_R, p_R, v_R, e_R, SRs)
    s7 = (p_L + r_L * (SLs - v_L) * (Sst - v_L)) - (p_R + r_R * (SRs - v_R) * (Sst - v_R))
    pR_sol = sp.solve(s7, p_R)[0]
    for nm, fl, fr, ul, ur in zip(("mass", "normal momentum", "energy"), FL, FR, UL, UR):
        e = sp.simplify((fl - fr - Sst * (ul - ur)).subs(p_R, pR_sol))
        n7 += 1
        chk.require(e == 0, "S8", "oracle: textbook star fluxes satisfy F*_L - F*_R = S* (U*_L - U*_R) (%s)" % nm,
                    where(fn), "reference identity fails: %s" % e, function=fn["full"],
                    construct="HLLC contact jump identity %s" % nm)
    chk.floor("S7/S8c/S10", n7, 11)
    return n + n7, (fn, res, se)


def galilean(chk, rule, sol, name, inline=(), opaque=None):
    """flux(uL, uR, vface) = Boost_vface[ flux(uL - vface, uR - vface, 0) ], regime by regime."""
    fn, res, se = flux_leaves(sol, name, inline, opaque)
    uL, uR, nrm, w = (se.vec_symbols(x) for x in ("uL", "uR", "normal", "vface"))
    vm = {"uL": uL - w, "uR": uR - w, "vface": AVec()}
    n = 0
    for l, o in res:
        if getattr(l, "opaque", []) and not (opaque and all(v.get("functions") for v in opaque.values())):
            continue
        inst = "%s [%s]" % (fn["full"], show_conds(l)[-110:])
        loc = where(l.conds[-1][2], fn) if l.conds else where(fn)
        okc = True
        for c, pol, _ in l.conds:
            c2 = apply_vm(c, vm)
            if c2 != c:
                p, q = sign_pred(c, True), sign_pred(c2, True)
                if not same_pred_rat((sp.expand(p[0]), p[1]) if p[0] != "bool" else p,
                                     (sp.expand(q[0]), q[1]) if q[0] != "bool" else q):
                    okc = False
        n += 1
        chk.require(okc, rule, "%s: regime is decided in the frame of the face" % inst, loc,
                    "a branch condition changes when a common velocity is added to both states and the face",
                    function=fn["full"], construct="%s frame of conditions" % name)
        m0 = apply_vm(o["m"], vm)
        p0 = apply_vm(o["p"], vm)
        E0 = apply_vm(o["E"], vm)
        w2 = w.dot(w)
        ref_m, ref_p, ref_E = m0, p0 + w * m0, E0 + w.dot(p0) + sp.Rational(1, 2) * w2 * m0
        for nm, d in [("mass", o["m"] - ref_m)] + \
                [("momentum (%s)" % bn, x) for bn, x in zip(("uL", "uR", "normal", "vface", "x1", "x2"),
                                                          flat(o["p"] - ref_p))] + \
                [("energy", o["E"] - ref_E)]:
            z, r = rat_is_zero(d)
            n += 1
            chk.require(z, rule, "%s: %s flux transforms as a Galilean boost" % (inst, nm), loc,
                        "flux(u, vface) - Boost[flux(u - vface, 0)] = %s" % str(r)[:240],
                        function=fn["full"], construct="%s Galilean %s" % (name, nm.split()[0]))
    return n


VOPAQUE = {"sample_right_vacuum": {"outs": ["vs_rho", "vs_v", "vs_P"], "ret": "vs_flag"},
           "sample_left_vacuum": {"outs": ["vs_rho", "vs_v", "vs_P"], "ret": "vs_flag"},
           "sample_vacuum_generation": {"outs": ["vs_rho", "vs_v", "vs_P"], "ret": "vs_flag"}}


def _assembly_leaves(sol, name, opaque, sig, flag_name):
    """Leaves of a flux-assembly function with the sampled state as plain symbols, keyed by side flag value."""
    fn, res, se = flux_leaves(sol, name, (), opaque, sig)
    out = {}
    flag = sym_for(flag_name) if False else S(flag_name, real=True)
    for l, o in res:
        vals = set()
        for fv in (-1, 0, 1):
            okv = True
            for c, pol, _ in l.conds:
                if flag not in getattr(c, "free_symbols", set()):
                    continue
                c2 = c.xreplace({flag: sp.Integer(fv)})
                if c2 in (sp.true, sp.false) and bool(c2) != pol:
                    okv = False
            if okv:
                vals.add(fv)
        out.setdefault(frozenset(vals), []).append((l, o))
    return fn, out, se


def vacuum_assembly_equals_exact(chk, sole, solh, VSIG):
    """S4: given the same sampled state and side flag, HLLC solve_vacuum_flux assembles exactly the flux that
    the exact solver's solve_for_flux assembles (de-projection, energy, de-boost)."""
    fe, le, see = _assembly_leaves(sole, "solve_for_flux",
                                   {"solve": {"outs": ["vs_rho", "vs_v", "vs_P"], "ret": "vs_flag"}}, None, "vs_flag")
    fh, lh, seh = _assembly_leaves(solh, "solve_vacuum_flux", VOPAQUE, VSIG, "vs_flag")
    # in solve_vacuum_flux the projected velocities and face-frame velocities are parameters: substitute
    # their definitions from the caller (uLface = uL - vface, vL = uLface . normal)
    uL, uR, nrm, w = (AVec.basis(x) for x in ("uL", "uR", "normal", "vface"))
    vm = {"uLface": uL - w, "uRface": uR - w}
    sm = {S("vL", real=True): (uL - w).dot(nrm), S("vR", real=True): (uR - w).dot(nrm)}
    n = 0
    for key, lst in sorted(lh.items(), key=lambda kv: sorted(kv[0])):
        if key not in le:
            chk.fail("S4", "solve_vacuum_flux regime flag in %s" % sorted(key), where(fh),
                     "the exact solver has no flux-assembly regime for these side-flag values", function=fh["full"],
                     construct="assembly regime %s" % sorted(key))
            n += 1
            continue
        (le_l, oe) = le[key][0]
        for l, oh in lst:
            inst = "solve_vacuum_flux [%s] assembles the exact solver's flux" % show_conds(l)[:100]
            loc = where(l.conds[-1][2], fh) if l.conds else where(fh)
            diffs = [("mass", apply_vm(oh["m"], vm, sm) - oe["m"])] + \
                    [("momentum (%s)" % bn, x) for bn, x in zip(("uL", "uR", "normal", "vface", "uLface", "uRface"),
                                                              flat(apply_vm(oh["p"], vm, sm) - oe["p"]))] + \
                    [("energy", apply_vm(oh["E"], vm, sm) - oe["E"])]
            for nm, d in diffs:
                z, r = rat_is_zero(d)
                n += 1
                chk.require(z, "S4", "%s: %s" % (inst, nm), loc,
                            "with the same sampled state the HLLC vacuum path and the exact solver assemble different "
                            "%s fluxes: difference %s" % (nm, str(r)[:200]), function=fh["full"],
                            construct="vacuum assembly %s" % nm.split()[0])
    chk.floor("S4-assembly", n, 15)
    return n


def galilean_vacuum(chk, solh, VSIG):
    """S9 for the HLLC vacuum path: the sampled state depends only on frame-invariant inputs (projected
    face-frame velocities), so flux(u, vface) must equal Boost[flux(u - vface, 0)]."""
    fn, res, se = flux_leaves(solh, "solve_vacuum_flux", (), VOPAQUE, VSIG)
    uL, uR, nrm, w = (AVec.basis(x) for x in ("uL", "uR", "normal", "vface"))
    # caller's definitions of the derived parameters
    vm0 = {"uLface": uL - w, "uRface": uR - w}
    sm0 = {S("vL", real=True): (uL - w).dot(nrm), S("vR", real=True): (uR - w).dot(nrm)}
    shift = {"uL": uL - w, "uR": uR - w, "vface": AVec()}
    n = 0
    for l, o in res:
        inst = "solve_vacuum_flux [%s]" % show_conds(l)[-100:]
        loc = where(l.conds[-1][2], fn) if l.conds else where(fn)
        full = {k: apply_vm(v, vm0, sm0) for k, v in o.items()}
        m0, p0, E0 = (apply_vm(full[k], shift) for k in ("m", "p", "E"))
        ref = (m0, p0 + w * m0, E0 + w.dot(p0) + sp.Rational(1, 2) * w.dot(w) * m0)
        for nm, d in [("mass", full["m"] - ref[0])] + \
                [("momentum (%s)" % bn, x) for bn, x in zip(("uL", "uR", "normal", "vface", "x1", "x2"),
                                                          flat(full["p"] - ref[1]))] + \
                [("energy", full["E"] - ref[2])]:
            z, r = rat_is_zero(d)
            n += 1
            chk.require(z, "S9", "%s: %s flux transforms as a Galilean boost" % (inst, nm), loc,
                        "flux(u, vface) - Boost[flux(u - vface, 0)] = %s" % str(r)[:240], function=fn["full"],
                        construct="solve_vacuum_flux Galilean %s" % nm.split()[0])
    return n


def run(chk, prog):
    chk.explanation = (
        "Both Riemann solvers are written as explicit left/right twins; their loop-free code is extracted into "
        "decision trees and compared with a computer-algebra normal form: mirror agreement of every twin sampler and "
        "of every flux regime (swap states + reverse normal => all five flux components negated), true-fan relations "
        "for the HLLC vacuum samplers, HLLC vacuum path = exact vacuum path, HLLC star flux = textbook HLLC flux for the "
        "solver's own wave speeds, equal star pressures at the coded contact speed, analytic flux in the upwind arms, "
        "flux continuity where the contact crosses the face, Galilean covariance of both flux functions. The exact "
        "solver's iteration is an uninterpreted function assumed mirror-equivariant (its samplers are checked).")
    chk.assumptions += ["real arithmetic, gamma > 1, positive densities / pressures / sound speeds",
                        "ExactRiemannSolver::solve is mirror-equivariant as a whole (its loop-free parts are "
                        "checked by S1; the root finder acts on a mirror-symmetric pressure function, C11-N1)",
                        "the DBL_MIN regularisers are kept as one positive atom (mirror rules) or set to 0 "
                        "(textbook identities)"]
    chk.trusted.append("sympy computer algebra (simplify / polynomial expansion)")
    u = prog.umbrella
    chk.analysed(unit="umbrella")
    sole = Solver(u, EX)
    solh = Solver(u, HL)
    n1 = 0
    n1 += sampler_mirror(chk, "S1", sole, "sample_left_state", "sample_right_state", STATE_INL["L"], STATE_INL["R"])
    n1 += sampler_mirror(chk, "S1", sole, "sample_left_vacuum", "sample_right_vacuum")
    n1 += sampler_mirror(chk, "S1", solh, "sample_left_vacuum", "sample_right_vacuum", has_dxdt=False)
    chk.floor("S1", n1, 50)
    n2 = 0
    n2 += sampler_self_mirror(chk, "S2", sole, "sample_vacuum_generation")
    n2 += sampler_self_mirror(chk, "S2", solh, "sample_vacuum_generation", has_dxdt=False)
    chk.floor("S2-samplers", n2, 30)
    # S3: HLLC vacuum samplers are true fans / states
    n3 = 0
    for name in ("sample_right_vacuum", "sample_left_vacuum", "sample_vacuum_generation"):
        k, _ = check_wave_leaves(chk, solh, name, (), has_dxdt=False,
                                 rules={"fan": "S3", "flag": "S3", "boundary": "S3", "star": "S3", "shock": "S3"})
        n3 += k
    chk.floor("S3", n3, 20)
    # S4: HLLC samplers = exact samplers at x/t = 0
    n4 = 0
    dxdt = sym_for("dxdt")
    for name in ("sample_right_vacuum", "sample_left_vacuum", "sample_vacuum_generation"):
        fe, le = sampler_leaves(sole, name, (), True)
        fh, lh = sampler_leaves(solh, name, (), False)
        for a, oa in lh:
            pa, _ = region_signature(a)
            hits = []
            for b, ob in le:
                pb, _ = region_signature(b, subs={dxdt: 0})
                pb = [((sp.expand(p[0]), p[1]) if p[0] != "bool" else p) for p in pb]
                if all(any(same_pred(x, y) for y in pb) for x in pa) and all(any(same_pred(x, y) for y in pa) for x in pb):
                    hits.append((b, ob))
            inst = "HLLC %s [%s] = exact at x/t=0" % (name, show_conds(a)[:120])
            loc = where(a.conds[-1][2], fh) if a.conds else where(fh)
            n4 += 1
            if len(hits) != 1:
                chk.fail("S4", inst, loc, "no regime of the exact sampler at x/t = 0 corresponds to this HLLC regime",
                         function=fh["full"], construct="HLLC %s regime" % name)
                continue
            b, ob = hits[0]
            for k in ("rho", "u", "P", "ret"):
                if oa[k] is None:
                    continue
                z, r = iz(oa[k] - ob[k].subs(dxdt, 0))
                n4 += 1
                chk.require(z, "S4", "%s: %s" % (inst, k), loc,
                            "the approximate solver's vacuum sample differs from the exact one: residual %s" % r,
                            function=fh["full"], construct="HLLC %s %s" % (name, k))
    chk.floor("S4", n4, 30)
    # flux-level rules
    VSIG = ["rhoL", "uL", "PL", "uLface", "vL", "aL", "vacuumL", "rhoR", "uR", "PR", "uRface", "vR", "aR",
            "vacuumR", OUT_, OUT_, OUT_, "normal", "vface"]
    nf = 0
    nf += flux_self_mirror(chk, "S2", solh, "solve_for_flux", (),
                           {"solve_vacuum_flux": {"outs": ["mvac", "pvac", "Evac"], "ret": "none"}})
    VSIG = ["rhoL", "uL", "PL", "uLface", "vL", "aL", "vacuumL", "rhoR", "uR", "PR", "uRface", "vR", "aR",
            "vacuumR", OUT_, OUT_, OUT_, "normal", "vface"]
    vpar = {}
    for fam in ("vr", "vl", "vg"):
        vpar.update({fam + "_rho": 1, fam + "_v": -1, fam + "_P": 1, fam + "_flag": -1})
    one = ((0, 1), (1, -1), (2, 1), (3, 1))
    nf += flux_self_mirror(
        chk, "S2", solh, "solve_vacuum_flux", (),
        {"sample_right_vacuum": {"outs": ["vr_rho", "vr_v", "vr_P"], "ret": "vr_flag", "functions": True},
         "sample_left_vacuum": {"outs": ["vl_rho", "vl_v", "vl_P"], "ret": "vl_flag", "functions": True},
         "sample_vacuum_generation": {"outs": ["vg_rho", "vg_v", "vg_P"], "ret": "vg_flag", "functions": True}},
        VSIG, vpar, skip_opaque=False, flag_funcs=("vr_flag", "vl_flag", "vg_flag"),
        bool_domain=[{"vacuumL": False, "vacuumR": True}, {"vacuumL": True, "vacuumR": False},
                     {"vacuumL": False, "vacuumR": False}],
        family_map={"vr": "vl", "vl": "vr", "vg": "vg"},
        arg_perm={"vr": one, "vl": one,
                  "vg": ((4, 1), (5, -1), (6, 1), (7, 1), (0, 1), (1, -1), (2, 1), (3, 1))})
    par = {"sol_rho": 1, "sol_v": -1, "sol_P": 1, "sol_flag": -1}
    nf += flux_self_mirror(chk, "S2", sole, "solve_for_flux", (),
                           {"solve": {"outs": ["sol_rho", "sol_v", "sol_P"], "ret": "sol_flag", "functions": True}},
                           None, par, skip_opaque=False, flag_funcs=("sol_flag",), family_map={"sol": "sol"})
    chk.floor("S2-flux", nf, 100)
    nh, _ = hllc_rules(chk, solh)
    ng = galilean(chk, "S9", solh, "solve_for_flux", (),
                  {"solve_vacuum_flux": {"outs": ["mvac", "pvac", "Evac"], "ret": "none"}})
    ng += galilean(chk, "S9", sole, "solve_for_flux", (),
                   {"solve": {"outs": ["sol_rho", "sol_v", "sol_P"], "ret": "sol_flag", "functions": True}})
    ng += galilean_vacuum(chk, solh, VSIG)
    ng += vacuum_assembly_equals_exact(chk, sole, solh, VSIG)
    chk.floor("S9", ng, 60)


from ..riemann import OUT as OUT_  # noqa: E402
