"""C20-K7: the snapshot readers hand the stored value of a cell on - provenance analysis of the value path.

"A snapshot read back on the same geometry reproduces each cell's density, temperature and neutral fractions" needs, in
every function of the snapshot readers that reads the per-cell datasets (HDF5Tools::read_dataset / read_dataset_part with
element type double):

 K7a  on the paths that read the datasets of the three quantities themselves ("NumberDensity", "Temperature",
      "NeutralFraction<ion>" - the round-trip paths; the paths that fall back to "Density" / "Pressure" convert a
      different dataset and are not the round trip), no value that derives from a dataset is a *denominator*, unless the
      division is control dependent on a comparison of that denominator (`n > 0. ? a / n : 0.`): a stored value is 0 for a
      vacuum cell or a fully ionized ion, and x/0 or 0/0 is handed on instead of the stored value;
 K7b  on the same paths every value that reaches set_number_density / set_temperature / set_ionic_fraction derives from
      the dataset of that quantity.

Forward provenance (sets of dataset labels per local / member, arrays as a whole, loops to a fixpoint) over the structured
body; paths are partitioned by the valuation of the boolean conditions the readers branch on (bool members, bool locals,
`group_exists(...)` calls - one consistent value per path).  Which numbers are stored, and the mapping of cells to dataset
positions, are not decided here.
"""
import itertools

from .. import cfg as C
from ..astdb import AnalysisBroken, where

ROUND_TRIP = ("NumberDensity", "Temperature", "NeutralFraction")
SETTERS = {"set_number_density": "NumberDensity", "set_temperature": "Temperature", "set_ionic_fraction": "NeutralFraction"}


def dataset_label(call):
    """label of a read_dataset* call with element type double: the string literal in its name argument"""
    if call.get("k") != "Call" or call.get("n") not in ("read_dataset", "read_dataset_part"):
        return None
    if "HDF5Tools" not in (call.get("fn") or ""):
        return None
    if (call.get("targs") or "").strip() != "double":
        return None
    if len(call["a"]) < 2:
        return None
    lits = [y["v"] for y in C.walk(call["a"][1]) if y.get("k") == "Str"]
    return lits[0] if lits else "?"


def base_key(e):
    """storage a value lives in: the local / member at the root of an lvalue (arrays and vectors as a whole)"""
    e = C.strip_casts(e)
    while e is not None:
        k = e.get("k")
        if k == "Ref" and "id" in e:
            return ("l", e["id"], e.get("n"))
        m = C.member_name(e)
        if m:
            return ("m", m, m)
        if k == "Idx":
            e = C.strip_casts(e["a"])
        elif k == "Call" and e.get("op") in ("[]", "*", "->") and e.get("obj") is not None:
            e = C.strip_casts(e["obj"])
        elif k == "Un" and e.get("op") in ("*", "&"):
            e = C.strip_casts(e["x"])
        elif k == "Mem":
            e = C.strip_casts(e["b"])
        elif k == "Ctor" and len(e.get("a", [])) == 1:
            e = C.strip_casts(e["a"][0])
        else:
            return None
    return None


class Flow:
    def __init__(self, chk, fn):
        self.chk, self.fn = chk, fn
        self.n_div = 0
        self.n_set = 0
        self.reported = set()
        self.lambdas = {}
        self.val = {}

    # ---- provenance of an expression -------------------------------------------------------------------------------
    def labels(self, e, prov):
        out = set()
        if e is None:
            return out
        skip = set()
        for x in C.walk(e):
            if id(x) in skip:
                continue
            if x.get("k") == "Call" and x.get("n") in ("size", "empty") and x.get("obj") is not None and not x.get("a"):
                # the length of a dataset is not one of its values
                skip |= {id(y) for y in C.walk(x["obj"])}
                continue
            lab = dataset_label(x)
            if lab is not None:
                out.add(lab)
            bk = None
            if x.get("k") == "Ref" and "id" in x:
                bk = ("l", x["id"], x.get("n"))
            elif C.member_name(x):
                bk = ("m", C.member_name(x), C.member_name(x))
            if bk is not None:
                out |= prov.get(bk, set())
        return out

    # ---- conditions: atoms and evaluation under a valuation -----------------------------------------------------
    def atom_key(self, e):
        e = C.strip_casts(e)
        t = (e.get("t") or "").replace("const ", "").strip()
        if e.get("k") == "Call" and e.get("n") in ("group_exists", "dataset_exists"):
            return "call:" + C.pretty(e)
        if t == "bool" and (e.get("k") in ("Ref", "Mem", "Idx") or (e.get("k") == "Call" and e.get("op") == "[]")):
            return "flag:" + C.pretty(e)
        return None

    def truth(self, e, val):
        """True / False / None (not decided by the valuation)"""
        e = C.strip_casts(e)
        k = e.get("k")
        if k == "Bool":
            return bool(e["v"])
        ak = self.atom_key(e)
        if ak is not None:
            return val.get(ak)
        if k == "Un" and e.get("op") == "!":
            t = self.truth(e["x"], val)
            return None if t is None else not t
        if k == "Bin" and e.get("op") in ("&&", "||"):
            a, b = self.truth(e["a"], val), self.truth(e["b"], val)
            if e["op"] == "&&":
                if a is False or b is False:
                    return False
                return True if (a and b) else None
            if a is True or b is True:
                return True
            return False if (a is False and b is False) else None
        return None

    def atoms_in(self, e):
        out = []
        for x in C.walk(e):
            ak = self.atom_key(x)
            if ak is not None and ak not in out:
                out.append(ak)
        return out

    # ---- the walk --------------------------------------------------------------------------------------------------
    def value_keys(self, e):
        """storage whose *values* an expression reads (lengths `x.size()` are not values)"""
        out, skip = set(), set()
        for x in C.walk(e):
            if id(x) in skip:
                continue
            if x.get("k") == "Call" and x.get("n") in ("size", "empty") and x.get("obj") is not None and not x.get("a"):
                skip |= {id(y) for y in C.walk(x["obj"])}
                continue
            if x.get("k") in ("Ref", "Mem") and base_key(x) is not None:
                out.add(base_key(x))
        return out

    def guarded(self, den, guards):
        """the division is control dependent on an if / ?: condition that compares the value of the denominator"""
        dk = self.value_keys(den)
        for g in guards:
            for x in C.walk(g):
                if x.get("k") == "Bin" and x.get("op") in (">", "<", "!=", ">=", "<=", "=="):
                    if dk & self.value_keys(x):
                        return True
        return False

    def visit_expr(self, e, prov, guards, state):
        """divisions and setter calls inside one full expression; assignments update prov"""
        if e is None:
            return
        e0 = C.strip_casts(e)
        k = e0.get("k")
        if k == "Cond":
            self.visit_expr(e0["c"], prov, guards, state)
            self.visit_expr(e0["a"], prov, guards + [e0["c"]], state)
            self.visit_expr(e0["b"], prov, guards + [e0["c"]], state)
            return
        den = None
        if k == "Bin" and e0.get("op") in ("/", "/=", "%", "%="):
            den = e0["b"]
        elif k == "Call" and e0.get("op") in ("/", "/=") and e0.get("a"):
            den = e0["a"][-1]
        if den is not None and self.fp(e0):
            labs = self.labels(den, prov)
            self.n_div += 1
            state["divs"].append((e0, den, labs, self.guarded(den, guards)))
        if k == "Call":
            lam = None
            for key_ in ("obj", "callee"):
                o_ = C.strip_casts(e0.get(key_)) if e0.get(key_) is not None else None
                if o_ is not None and o_.get("k") == "Ref" and o_.get("id") in self.lambdas:
                    lam = self.lambdas[o_["id"]]
            if lam is not None and len(lam.get("params", [])) == len(e0.get("a", [])) and state.get("depth", 0) < 4:
                for a_ in e0["a"]:
                    self.visit_expr(a_, prov, guards, state)
                for p_, a_ in zip(lam["params"], e0["a"]):
                    if "id" in p_:
                        prov[("l", p_["id"], p_.get("n"))] = self.labels(a_, prov)
                state["depth"] = state.get("depth", 0) + 1
                self.walk(lam["body"], prov, guards, self.val, state)
                state["depth"] -= 1
                return
        if k == "Call" and e0.get("n") in SETTERS and e0.get("a") and \
                C.strip_casts(e0["a"][-1]).get("k") not in ("Float", "Int") and \
                not (C.strip_casts(e0["a"][-1]).get("k") == "Un" and C.strip_casts(C.strip_casts(e0["a"][-1])["x"]).get("k") in ("Float", "Int")):
            # (literal arguments are sentinels / defaults, not values of the snapshot)
            self.n_set += 1
            state["sets"].append((e0, SETTERS[e0["n"]], self.labels(e0["a"][-1], prov)))
        # sub-expressions first (right-hand sides before the assignment takes effect)
        for key in ("a", "b", "x", "c", "obj", "i", "callee"):
            v = e0.get(key)
            if isinstance(v, dict):
                self.visit_expr(v, prov, guards, state)
            elif isinstance(v, list):
                for y in v:
                    if isinstance(y, dict):
                        self.visit_expr(y, prov, guards, state)
        tgt = rhs = None
        if k == "Bin" and e0.get("op", "").endswith("=") and e0["op"] not in ("==", "!=", "<=", ">="):
            tgt, rhs, comp = e0["a"], e0["b"], e0["op"] != "="
        elif k == "Call" and (e0.get("op") or "").endswith("=") and e0.get("op") not in ("==", "!=", "<=", ">=") and \
                e0.get("obj") is not None and e0.get("a"):
            tgt, rhs, comp = e0["obj"], e0["a"][0], e0["op"] != "="
        if tgt is not None:
            bk = base_key(tgt)
            if bk is not None:
                whole = C.strip_casts(tgt).get("k") == "Ref" or bool(C.member_name(C.strip_casts(tgt)))
                new = self.labels(rhs, prov)
                if comp or not whole:
                    new |= prov.get(bk, set())
                prov[bk] = new

    def fp(self, e):
        t = (e.get("t") or "")
        return "int" not in t and "long" not in t and "size_t" not in t

    def walk(self, s, prov, guards, val, state):
        if s is None:
            return
        k = s.get("k")
        if k == "Block":
            if s.get("mac"):
                return
            for x in s["s"]:
                self.walk(x, prov, guards, val, state)
        elif k == "Decl":
            for d in s["d"]:
                if d.get("init") is not None:
                    i0 = C.strip_casts(d["init"])
                    while i0 is not None and i0.get("k") == "Ctor" and len(i0.get("a", [])) == 1:
                        i0 = C.strip_casts(i0["a"][0])
                    if i0 is not None and i0.get("k") == "Lambda":
                        self.lambdas[d["id"]] = i0       # its body is read at every call, with the arguments bound
                        continue
                    self.visit_expr(d["init"], prov, guards, state)
                    prov[("l", d["id"], d.get("n"))] = self.labels(d["init"], prov)
        elif k == "If":
            self.visit_expr(s["c"], prov, guards, state)
            t = self.truth(s["c"], val)
            if t is None:
                p1, p2 = dict(prov), dict(prov)
                self.walk(s["th"], p1, guards + [s["c"]], val, state)
                self.walk(s.get("el"), p2, guards + [s["c"]], val, state)
                for key in set(p1) | set(p2):
                    prov[key] = p1.get(key, set()) | p2.get(key, set())
            elif t:
                self.walk(s["th"], prov, guards, val, state)
            else:
                self.walk(s.get("el"), prov, guards, val, state)
        elif k in ("For", "While", "Do", "RangeFor"):
            for key in ("init",):
                if isinstance(s.get(key), dict):
                    self.walk(s[key], prov, guards, val, state)
            for _ in range(4):
                before = {kk: set(v) for kk, v in prov.items()}
                sub = {"divs": [], "sets": [], "reads": state["reads"], "depth": state.get("depth", 0)}
                if s.get("c") is not None:
                    self.visit_expr(s["c"], prov, guards, sub)
                self.walk(s.get("body"), prov, guards, val, sub)
                if isinstance(s.get("inc"), dict):
                    self.visit_expr(s["inc"], prov, guards, sub)
                if prov == before:
                    break
            state["divs"] += sub["divs"]
            state["sets"] += sub["sets"]
        elif k == "Return":
            self.visit_expr(s.get("x"), prov, guards, state)
        elif k in ("Switch",):
            self.visit_expr(s.get("c"), prov, guards, state)
            self.walk(s.get("body"), prov, guards, val, state)
        elif k in ("Case", "Default", "Label"):
            self.walk(s.get("sub"), prov, guards, val, state)
        elif k in ("Null", "Break", "Continue"):
            return
        else:
            for x in C.walk(s):
                lab = dataset_label(x)
                if lab is not None:
                    state["reads"].add(lab)
            self.visit_expr(s, prov, guards, state)

    def run(self):
        fn = self.fn
        # atoms the function branches on
        atoms = []
        for s in C.walk_stmt(fn["body"]):
            if s.get("k") == "If":
                for a in self.atoms_in(s["c"]):
                    if a not in atoms:
                        atoms.append(a)
        if len(atoms) > 10:
            raise AnalysisBroken("%s branches on more than 10 boolean conditions" % fn["full"])
        n_paths = 0
        for pick in itertools.product((True, False), repeat=len(atoms)):
            val = dict(zip(atoms, pick))
            state = {"divs": [], "sets": [], "reads": set()}
            prov = {}
            # reads inside declarations as well
            self.collect_reads(fn["body"], val, state)
            if not (set(ROUND_TRIP) <= state["reads"]) or (state["reads"] & {"Density", "Pressure"}):
                continue
            n_paths += 1
            self.val = val
            self.lambdas = {}
            self.walk(fn["body"], prov, [], val, state)
            case = ", ".join("%s%s" % ("" if v else "!", a.split(":", 1)[1]) for a, v in val.items() if a.startswith("flag:"))
            for e, den, labs, guarded in state["divs"]:
                if labs and not guarded and (id(e), "d") not in self.reported:
                    self.reported.add((id(e), "d"))
                    self.chk.fail("K7", "%s: no value read from a snapshot dataset is a denominator on the round-trip path" %
                                  fn["name"], where(e, fn),
                                  "`%s` divides by `%s`, which derives from dataset(s) %s (path: %s): a stored 0 (vacuum cell, "
                                  "fully ionized ion) gives x/0 or 0/0 instead of the stored value" %
                                  (C.pretty(e)[:70], C.pretty(den)[:40], sorted(labs), case or "-"), function=fn["full"],
                                  construct="division by snapshot data %s" % C.pretty(den)[:40])
            for e, want, labs in state["sets"]:
                if (id(e), "s") in self.reported:
                    continue
                ok = any(lab.startswith(want) for lab in labs)
                if labs or True:
                    self.reported.add((id(e), "s")) if not ok else None
                    self.chk.require(ok, "K7", "%s: the value given to %s derives from the %s dataset (path: %s)" %
                                     (fn["name"], e["n"], want, case or "-"), where(e, fn),
                                     "its provenance is %s: the cell does not receive the stored %s" %
                                     (sorted(labs) or "no dataset at all", want), function=fn["full"],
                                     construct="provenance of %s" % e["n"])
        return n_paths

    def collect_reads(self, s, val, state):
        """dataset labels read on the path selected by the valuation"""
        if s is None or not isinstance(s, dict):
            return
        k = s.get("k")
        if k == "Block":
            if s.get("mac"):
                return
            for x in s["s"]:
                self.collect_reads(x, val, state)
        elif k == "If":
            t = self.truth(s["c"], val)
            if t is None or t:
                self.collect_reads(s["th"], val, state)
            if t is None or not t:
                self.collect_reads(s.get("el"), val, state)
        elif k in ("For", "While", "Do", "RangeFor", "Switch"):
            self.collect_reads(s.get("body"), val, state)
        elif k in ("Case", "Default", "Label"):
            self.collect_reads(s.get("sub"), val, state)
        else:
            for x in C.walk_stmt(s):
                lab = dataset_label(x)
                if lab is not None:
                    state["reads"].add("NeutralFraction" if lab.startswith("NeutralFraction") else lab)


def rule_K7(chk, lib):
    fns = []
    seen = set()
    for d in lib.decls:
        if d["kind"] != "function" or d.get("body") is None or d.get("dependent"):
            continue
        if "SnapshotDensityFunction" not in (d.get("cls") or ""):
            continue
        if (d["full"], d.get("file"), d.get("line")) in seen:
            continue
        if any(dataset_label(x) is not None for x in C.walk_stmt(d["body"])):
            seen.add((d["full"], d.get("file"), d.get("line")))
            fns.append(d)
    n = 0
    for fn in fns:
        chk.analysed(function=fn["full"])
        fl = Flow(chk, fn)
        paths = fl.run()
        n += paths
        chk.note("K7 %s: %d round-trip path(s), %d floating-point division(s) and %d setter call(s) visited" %
                 (fn["full"].split("(")[0], paths, fl.n_div, fl.n_set))
    return n, len(fns)
