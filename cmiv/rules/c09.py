"""C09 - a run stopped and restarted continues exactly as if it had never stopped.

Decides that the dump is complete and symmetric (DESIGN.md C09):
 R0 the primitive codec (bool / string / map specialisations) writes what it reads;
 R1 for every restartable class the writer grammar equals the reader grammar item by item
    (shape, primitive size and class, nested class, loop bound, condition, member identity);
 R2 the dump site and the restart path of the task-based RHD driver exchange the same sequence;
 R3 every data member of a restartable class is round-tripped, derived by the same operation
    tree as in the primary constructor, or listed as transient with a reason;
 R4 the restart factories know exactly the classes that can be dumped;
 R6 no two reads of the restart stream are unsequenced within one expression.
It does not decide bit-identity of the continued run itself.
"""
import re

import sympy as sp

from .. import cfg as C
from .. import grammar as G
from ..astdb import AnalysisBroken, where

# members that are deliberately not part of the dump: (class, member) -> reason (confirmed by reading)
TRANSIENT = {
    ("DensitySubGrid", "_active_buffers"): "per-iteration photon buffer bookkeeping, reset to NEIGHBOUR_OUTSIDE before every use",
    ("DensitySubGrid", "_computational_cost"): "load-balancing statistic, reset at the start of every iteration",
    ("DensitySubGrid", "_largest_buffer_index"): "per-iteration scratch, reset with the active buffers",
    ("DensitySubGrid", "_largest_buffer_size"): "per-iteration scratch, reset with the active buffers",
    ("DensitySubGrid", "_dependency"): "run-time lock, holds no simulation state",
    ("HydroDensitySubGrid", "_hydro_tasks"): "task indices rebuilt by make_hydro_tasks on both the fresh and the restart path",
    ("HydroDensitySubGrid", "_primitive_variable_limiters"): "recomputed by every gradient sweep before use",
    ("IonizationVariables", "_tracker"): "not owned; trackers are not supported by the RHD driver",
    ("AlveliusTurbulenceForcing", "_amplitudes_real"): "zeroed at the start of every update_turbulence",
    ("AlveliusTurbulenceForcing", "_amplitudes_imaginary"): "zeroed at the start of every update_turbulence",
    ("Timer", "_start"): "wall-clock timers are explicitly excluded by the property; restarted by the driver",
    ("Timer", "_stop"): "wall-clock timers are explicitly excluded by the property",
    ("DensitySubGridCreator", "_copies"): "copy table is rebuilt by create_copies on both paths (radiation only)",
    ("DensitySubGridCreator", "_originals"): "copy table is rebuilt by create_copies on both paths (radiation only)",
    ("RescaledICHydroMask", "_mask_velocity"): "only read by initialize_mask, which the driver runs on the fresh path only",
}


def unroll(items):
    """A loop with a small constant bound is the same grammar as its body repeated."""
    out = []
    for it in items:
        if it.kind == "loop":
            body = unroll(it.items)
            if re.fullmatch(r"\d+", it.bound or "") and int(it.bound) <= 64:
                for _ in range(int(it.bound)):
                    out += body
            else:
                out.append(G.Item("loop", bound=it.bound, items=body, line=it.line))
        elif it.kind == "cond":
            out.append(G.Item("cond", cond=it.cond, then=unroll(it.then), els=unroll(it.els), line=it.line))
        else:
            out.append(it)
    return out


def compare(chk, rule, cls, wfn, rfn, w, r, path="", counters=None):
    """Recursive item-by-item comparison of a writer and a reader grammar."""
    if counters is None:
        w, r = unroll(w), unroll(r)
    counters = counters if counters is not None else {"n": 0}
    fnq = wfn["full"]

    def fail(inst, loc, detail, construct):
        chk.fail(rule, "%s: %s" % (cls, inst), loc, detail, function=fnq, construct=construct)

    for i in range(max(len(w), len(r))):
        here = "%s[%d]" % (path, i)
        counters["n"] += 1
        if i >= len(w):
            fail("reader consumes item %s that the writer never emits" % here, where({"l": r[i].line}, rfn),
                 "the restart constructor reads %s but write_restart_file has no corresponding item: every later "
                 "value is read from the wrong bytes" % r[i].show().strip()[:120], "extra read %s" % here)
            continue
        if i >= len(r):
            fail("writer emits item %s that the reader never consumes" % here, where({"l": w[i].line}, wfn),
                 "write_restart_file writes %s but the restart path does not read it back" %
                 w[i].show().strip()[:120], "extra write %s" % here)
            continue
        a, b = w[i], r[i]
        if a.kind != b.kind:
            fail("item %s" % here, where({"l": a.line}, wfn),
                 "writer emits a %s where the reader expects a %s (%s vs %s)" %
                 (a.kind, b.kind, a.show().strip()[:100], b.show().strip()[:100]), "shape %s" % here)
            continue
        if a.kind == "prim":
            ca, cb = G.prim_class(a.type), G.prim_class(b.type)
            if ca[0] != cb[0] or ca[1] != cb[1]:
                fail("primitive %s" % here, where({"l": a.line}, wfn),
                     "written as %s (%s, %s bytes) but read as %s (%s, %s bytes)" %
                     (a.type, ca[0], ca[1], b.type, cb[0], cb[1]), "prim %s type" % here)
            elif ca[2] != cb[2]:
                chk.note("%s item %s: written as %s, read as %s (same size and representation class, "
                         "signedness differs)" % (cls, here, a.type, b.type))
                chk.ok(rule, "%s: primitive %s size/class" % (cls, here), where({"l": a.line}, wfn))
            else:
                chk.ok(rule, "%s: primitive %s %s" % (cls, here, a.type), where({"l": a.line}, wfn))
            ka, kb = a.key, b.key
            ma, mb = G.key_root_member(ka), G.key_root_member(kb)
            if ma is not None and mb is not None and ka != kb:
                fail("member identity %s" % here, where({"l": b.line}, rfn),
                     "the value written from %s is read into %s" % (ka, kb), "member swap %s/%s" % (ma, mb))
        elif a.kind == "obj":
            if a.cls != b.cls and not (a.cls.startswith("factory:") and b.cls.startswith("factory:")):
                # a virtual write through the base class is matched by the concrete class only in factories
                fail("object %s" % here, where({"l": a.line}, wfn),
                     "an object of class %s is written but one of class %s is constructed from the stream" %
                     (a.cls, b.cls), "obj %s class" % here)
            else:
                chk.ok(rule, "%s: object %s %s" % (cls, here, a.cls), where({"l": a.line}, wfn))
            ka, kb = a.key, b.key
            ma, mb = G.key_root_member(ka), G.key_root_member(kb)
            if ma is not None and mb is not None and ka != kb:
                fail("member identity %s" % here, where({"l": b.line}, rfn),
                     "the object written from %s is read into %s" % (ka, kb), "member swap %s/%s" % (ma, mb))
        elif a.kind == "loop":
            if a.bound != b.bound:
                fail("loop bound %s" % here, where({"l": a.line}, wfn),
                     "the writer loops over [%s] but the reader over [%s]" % (a.bound, b.bound),
                     "loop %s bound" % here)
            else:
                chk.ok(rule, "%s: loop %s bound %s" % (cls, here, a.bound), where({"l": a.line}, wfn))
            compare(chk, rule, cls, wfn, rfn, a.items, b.items, here + ".", counters)
        elif a.kind == "cond":
            if a.cond != b.cond:
                fail("condition %s" % here, where({"l": a.line}, wfn),
                     "the writer emits the block under [%s] but the reader consumes it under [%s]" %
                     (a.cond, b.cond), "cond %s" % here)
            else:
                chk.ok(rule, "%s: condition %s %s" % (cls, here, a.cond), where({"l": a.line}, wfn))
            compare(chk, rule, cls, wfn, rfn, a.then, b.then, here + ".then.", counters)
            compare(chk, rule, cls, wfn, rfn, a.els, b.els, here + ".else.", counters)
    return counters["n"]


def elem_type(t, key):
    """Scalar type a member of type t holds at `key` (whole member or one element)."""
    t = t.replace("const ", "").strip()
    if key[0] == "elem":
        m = re.match(r"^(.*?)\s*\[\d*\]$", t)
        if m:
            return m.group(1).strip()
        m = re.match(r"^std::vector<(.*), std::allocator<.*>>$", t)
        if m:
            return m.group(1).strip()
        if t.endswith("*"):
            return t[:-1].strip()
        return None
    return t


def check_member_types(chk, cls, fn, items, fields, side):
    """R1b: a primitive that is written from / read into a data member has that member's own type
    (a value squeezed through a narrower or differently interpreted type does not round-trip)."""
    n = 0
    for it in flatten(items):
        if it.kind != "prim" or it.key is None:
            continue
        key = it.key
        if key[0] == "m" or (key[0] == "elem" and key[1][0] == "m"):
            name = key[1] if key[0] == "m" else key[1][1]
            f = fields.get(name)
            if not f:
                continue
            et = elem_type(f["t"], key)
            if et is None or G.prim_class(et)[0].startswith("blob"):
                continue
            n += 1
            a, b = G.prim_class(it.type.replace("const ", "")), G.prim_class(et)
            chk.require(a[:2] == b[:2], "R1", "%s: %s %s has the type of member %s" %
                        (cls, "value written from" if side == "w" else "value read into", name, name),
                        where({"l": it.line}, fn),
                        "member %s is a %s but it is %s as %s: the stored value is not the member's value" %
                        (name, et, "written" if side == "w" else "read", it.type),
                        function=fn["full"], construct="%s type of %s" % (side, name))
    return n


def flatten(items):
    for it in items:
        if it.kind == "loop":
            yield from flatten(it.items)
        elif it.kind == "cond":
            yield from flatten(it.then)
            yield from flatten(it.els)
        else:
            yield it


def restart_pairs(lib):
    W, R = {}, {}
    for d in lib.decls:
        if d["kind"] != "function" or not d.get("cls") or d.get("dependent"):
            continue
        pts = [x["t"] for x in d["params"]]
        if d["name"] in ("write_restart_file", "write_restart_info") and any("RestartWriter" in t for t in pts):
            W.setdefault(d["cls"], []).append(d)
        if (d.get("ctor") or d["name"] in ("read_restart_info", "restart")) and \
                any("RestartReader" in t for t in pts) and not d.get("copyctor"):
            R.setdefault(d["cls"], []).append(d)
    return W, R


def members_written(items, out=None):
    out = out if out is not None else set()
    for it in items:
        if it.kind in ("prim", "obj"):
            m = G.key_root_member(it.key)
            if m:
                out.add(m)
        elif it.kind == "loop":
            members_written(it.items, out)
        elif it.kind == "cond":
            members_written(it.then, out)
            members_written(it.els, out)
    return out


def _flat_prims(items, out=None):
    out = out if out is not None else []
    for it in items:
        if it.kind == "prim":
            out.append(it)
        elif it.kind == "loop":
            try:
                n_ = int(it.bound)
            except (TypeError, ValueError):
                n_ = None
            sub = _flat_prims(it.items, [])
            out += sub * (n_ if n_ else 1)
        elif it.kind == "cond":
            _flat_prims(it.then, out)
    return out


def _uev(e, env, rsym=None):
    """Value of an unsigned 64-bit integer expression; env: member name / local id -> int; a `read<...>()` call evaluates
    to env['#read'].  None when not evaluable."""
    e = C.strip_casts(e)
    if e is None:
        return None
    k = e.get("k")
    M = 2 ** 64
    if k == "Int":
        return int(e["v"]) % M
    if k == "Mem" and C.member_name(e) in env:
        return env[C.member_name(e)]
    if k == "Ref" and e.get("id") in env:
        return env[e["id"]]
    if k == "Call" and e.get("n") == "read" and "#read" in env:
        return env["#read"]
    if k == "Bin" and e["op"] in ("+", "-", "*", "%", "/"):
        a, b = _uev(e["a"], env), _uev(e["b"], env)
        if a is None or b is None or (e["op"] in ("%", "/") and b == 0):
            return None
        op = e["op"]
        r_ = a + b if op == "+" else a - b if op == "-" else a * b if op == "*" else a % b if op == "%" else a // b
        return r_ % M
    if k == "Ctor" and len(e["a"]) == 1:
        return _uev(e["a"][0], env)
    return None


def derived_round_trip(chk, rule, cls, m, wfn, rfn, wi, ri, inv, nwords, inst, rec, f):
    """A state member that is not dumped itself but rebuilt by the reader from a dumped value that the writer derives from
    it: decided by evaluating  reader(writer(state))  over the finite ranges of the members involved."""
    import itertools
    wp, rp = _flat_prims(wi), _flat_prims(ri)
    if len(wp) != len(rp):
        return False
    slot = [i for i, it in enumerate(rp) if it.key == ("m", m)]
    if len(slot) != 1:
        return False
    wit = wp[slot[0]]
    wsrc = getattr(wit, "src", None)
    if wsrc is None:
        return False
    # writer expression: resolve a const local through its declaration
    wexpr = C.strip_casts(wsrc)
    if wexpr.get("k") == "Ref" and "id" in wexpr:
        wid = wexpr["id"]
        for st in C.walk_stmt(wfn["body"]):
            if st.get("k") == "Decl":
                for d in st["d"]:
                    if d["id"] == wid and d.get("init") is not None:
                        wexpr = d["init"]
    # reader expression: the member initialiser / assignment of m
    rexpr = None
    for ini in rfn.get("inits") or []:
        if ini.get("member") == m:
            rexpr = ini["x"]
    if rexpr is None:
        for st in C.walk_stmt(rfn["body"]):
            if st.get("k") == "Bin" and st.get("op") == "=" and C.member_name(st["a"]) == m:
                rexpr = st["b"]
    if rexpr is None:
        return False
    if nwords is None:
        mods = {C.const_int(x["b"]) for e_ in (wexpr, rexpr) for x in C.walk(e_)
                if x.get("k") == "Bin" and x["op"] == "%" and C.const_int(x["b"])}
        if len(mods) != 1:
            return False
        nwords = mods.pop()
    names = sorted({C.member_name(x) for e_ in (wexpr, rexpr) for x in C.walk(e_) if x.get("k") == "Mem" and C.member_name(x)})
    if m not in names:
        names.append(m)
    ranges = []
    assumed = []
    for nme in names:
        v = inv.get(("m", nme))
        if v is not None and hasattr(v, "lo") and v.lo != v.hi and v.hi - v.lo < 4096:
            ranges.append(range(int(v.lo), int(v.hi) + 1))
        else:
            ranges.append(range(0, nwords))
            assumed.append(nme)
    total = 1
    for r_ in ranges:
        total *= len(r_)
    if total > 200000:
        raise AnalysisBroken("%s: " % rule + "the derived state member %s depends on too many values to enumerate" % m)
    bad = None
    for combo in itertools.product(*ranges):
        env = dict(zip(names, combo))
        w = _uev(wexpr, env)
        if w is None:
            raise AnalysisBroken("%s: " % rule + "cannot evaluate what the writer stores for %s (`%s`)" % (m, C.pretty(wexpr)[:60]))
        env2 = dict(env)
        env2["#read"] = w
        g = _uev(rexpr, env2)
        if g is None:
            raise AnalysisBroken("%s: " % rule + "cannot evaluate how the reader rebuilds %s (`%s`)" % (m, C.pretty(rexpr)[:60]))
        if g != env[m]:
            bad = (env, w, g)
            break
    chk.require(bad is None, rule, inst + " (rebuilt by the reader from a derived value; %d states enumerated%s)" %
                (total, ", %s assumed in [0, %d)" % (", ".join(assumed), nwords) if assumed else ""),
                "%s:%s" % (where(rec).split(":")[0], f["l"]),
                "with %s the writer stores %s and the reader rebuilds %s = %s: a generator restored at that point does not "
                "continue the sequence" % ({k_: v_ for k_, v_ in (bad[0] if bad else {}).items()}, bad[1] if bad else "", m,
                                           bad[2] if bad else ""), function=rfn["full"], construct=m)
    return True


def run(chk, prog):
    chk.explanation = (
        "Serialization grammars (ordered trees of primitives, nested objects, loops and conditions, each item tied "
        "to the member it is written from / read into) are extracted from every write_restart_file / "
        "write_restart_info and from the matching RestartReader constructor / read_restart_info, and compared item "
        "by item; the dump site of the RHD driver is compared with its restart path; every data member of a "
        "restartable class must be round-tripped, re-derived by the primary constructor's own operation tree, or be "
        "a listed transient. These are necessary conditions for bit-identical continuation at every stop point; "
        "bit-identity itself (reduction order, state outside the dumped objects) is not decided.")
    chk.assumptions += ["constructor initialisers run in member declaration order (clang reports them so)",
                        "state outside the dumped objects does not influence the continuation"]
    lib = prog.library()
    for name in prog.all_unit_names():
        chk.analysed(unit=name)
    W, R = restart_pairs(lib)
    n1 = 0
    npairs = 0
    coverage = {}
    for cls in sorted(set(W) & set(R)):
        if cls.endswith("Factory"):
            continue
        for wfn in W[cls]:
            for rfn in R[cls]:
                if rfn["name"] == "restart":
                    continue
                chk.analysed(function=wfn["full"])
                chk.analysed(function=rfn["full"])
                we = G.Extractor(wfn, "w", lib)
                wi = we.run()
                re_ = G.Extractor(rfn, "r", lib)
                ri = re_.run()
                npairs += 1
                wfn["_via"] = we.members_via_locals
                rfn["_via"] = re_.members_via_locals
                n1 += compare(chk, "R1", cls, wfn, rfn, wi, ri)
                recs = [r for r in lib.records.get(wfn.get("clsq"), []) if r["full"] == cls]
                if recs:
                    fields = {f["n"]: f for f in recs[0]["fields"]}
                    n1 += check_member_types(chk, cls, wfn, wi, fields, "w")
                    n1 += check_member_types(chk, cls, rfn, ri, fields, "r")
                coverage[cls] = (wfn, rfn, wi, ri)
    chk.floor("R1-pairs", npairs, 24)
    chk.floor("R1", n1, 150)
    chk.extra["restartable_classes"] = sorted(coverage)

    # ---- R3 member coverage -------------------------------------------------------------
    # scope: the classes whose state the task-based RHD driver dumps (transitively), plus every class the
    # restart factories can create for it; other restartable classes are covered by R1 only
    closure = driver_closure(prog, lib, coverage, W)
    chk.extra["state_closure_of_the_driver_dump"] = sorted(closure)
    n3 = 0
    # ---- R6: containers dumped element by element are dumped in full ---------------------------------
    from . import c09_full
    n6 = c09_full.rule_R6(chk, lib, W, None)
    chk.floor("R6", n6, 4)
    for cls, (wfn, rfn, wi, ri) in sorted(coverage.items()):
        if cls not in closure:
            continue
        clsq = wfn.get("clsq")
        recs = [r for r in lib.records.get(clsq, []) if r["full"] == cls]
        if not recs:
            continue
        rec = recs[0]
        written = members_written(wi) | set(wfn.get("_via", ()))
        read = members_written(ri) | set(rfn.get("_via", ()))
        base_cls = clsq
        # members assigned (derived) in the restart constructor
        derived = {}
        if rfn.get("ctor"):
            for ini in rfn.get("inits", []):
                if "member" in ini and ini.get("written"):
                    derived.setdefault(ini["member"], []).append(ini["x"])
            for x in C.walk_stmt(rfn["body"]):
                if x.get("k") == "Bin" and x["op"] == "=":
                    m = C.member_name(x["a"])
                    if m is None:
                        kk = G.lv_key(x["a"])
                        m = G.key_root_member(kk)
                    if m:
                        derived.setdefault(m, []).append(x["b"])
                elif x.get("k") == "Call" and x.get("op") == "=" and x.get("obj") is not None:
                    m = G.key_root_member(G.lv_key(x["obj"]))
                    if m:
                        derived.setdefault(m, []).append(x["a"][0])
                elif x.get("k") == "Call" and x.get("obj") is not None and \
                        x.get("n") in ("resize", "reserve", "push_back", "clear", "assign", "open", "reset"):
                    m = G.key_root_member(G.lv_key(x["obj"]))
                    if m:
                        derived.setdefault(m, []).append(None)
        for f in rec["fields"]:
            m = f["n"]
            if not m:
                continue        # anonymous union / struct: its named members are listed separately
            n3 += 1
            inst = "%s::%s" % (cls, m)
            loc = "%s:%s" % (where(rec).split(":")[0], f["l"])
            if m in written and m in read:
                chk.ok("R3", inst + " is round-tripped", loc)
                continue
            if (clsq, m) in TRANSIENT or (cls, m) in TRANSIENT:
                chk.ok("R3", inst + " is transient", loc, TRANSIENT.get((clsq, m)) or TRANSIENT.get((cls, m)))
                continue
            if m in written and m not in read:
                chk.fail("R3", inst, loc, "member is written to the dump but never restored from it",
                         function=rfn["full"], construct=m)
                continue
            if m in read and m not in written and derived_round_trip(chk, "R3", cls, m, wfn, rfn, wi, ri, {}, None, inst, rec, f):
                continue
            if m in read and m not in written:
                chk.fail("R3", inst, loc, "member is read from the dump but never written to it",
                         function=wfn["full"], construct=m)
                continue
            if m in derived and rfn.get("ctor"):
                # a member that the class changes after construction is run-time state: re-deriving it from
                # constants / other members restores the construction-time value, not the dumped one
                mut = mutators(lib, cls, m)
                if mut:
                    chk.fail("R3", inst + " is mutable state and must be dumped", loc,
                             "member is modified by %s after construction but the restart constructor re-derives it "
                             "instead of reading the dumped value: a restarted run continues from the construction-time "
                             "value" % ", ".join(sorted(mut)[:4]), function=rfn["full"], construct=m)
                    continue
                ok, detail = derived_same_tree(lib, rec, clsq, cls, m, f, rfn, derived[m])
                chk.require(ok, "R3", inst + " is re-derived by the primary constructor's operation tree", loc,
                            detail, function=rfn["full"], construct=m)
                continue
            if not rfn.get("ctor"):
                # read_restart_info restores into an object built by the primary constructor
                chk.ok("R3", inst + " is set by the primary constructor (restart via read_restart_info)", loc)
                continue
            chk.fail("R3", inst, loc,
                     "member is neither dumped, nor re-derived in the restart constructor, nor a listed transient: "
                     "a restarted run continues with an indeterminate value", function=rfn["full"], construct=m)
    chk.floor("R3", n3, 150)

    check_factories(chk, lib, W, R)
    check_codec(chk, lib)
    check_driver(chk, prog)
    check_unsequenced(chk, lib, R)


# ------------------------------------------------------------------------------------------
_LOCAL_ALIAS = {}      # const local of the restart constructor -> the member it is stored in (`_m = local;`)


def _tree(e, env, depth=0):
    """Operation tree of an expression as a nested tuple with member references replaced by env."""
    e = C.strip_casts(e)
    if e is None:
        return None
    k = e.get("k")
    if k in ("Int",):
        return ("num", float(e["v"]))
    if k == "Float":
        return ("num", float(e["v"]))
    if k == "Ref":
        if e.get("n") in _LOCAL_ALIAS and depth < 3:
            return _tree(_LOCAL_ALIAS[e["n"]], env, depth + 1)
        return ("ref", e["n"])
    if k in ("Mem", "Idx") or (k == "Call" and e.get("op") == "[]") or \
            (k == "Call" and e.get("obj") is not None and not e["a"] and e.get("n") in ("x", "y", "z")):
        key = G.lv_key(e)
        comp = None
        if k == "Call" and e.get("n") in ("x", "y", "z"):
            comp = "xyz".index(e["n"])
            key = G.lv_key(e["obj"])
        elif k == "Idx":
            comp = C.const_int(e["i"])
            key = G.lv_key(e["a"])
        elif k == "Call":
            comp = C.const_int(e["a"][0]) if e["a"] else None
            key = G.lv_key(e["obj"])
        m = G.key_root_member(key)
        if m is not None and (m, comp) in env and depth < 3:
            return env[(m, comp)]
        if m is not None and (m, None) in env and depth < 3 and comp is None:
            return env[(m, None)]
        return ("lv", str(key), comp)
    if k == "Bin":
        return (e["op"], _tree(e["a"], env, depth), _tree(e["b"], env, depth))
    if k == "Un":
        return (e["op"], _tree(e["x"], env, depth))
    if k == "Call":
        args = ([e["obj"]] if e.get("obj") is not None else []) + e["a"]
        if e.get("op") and len(args) == 2:
            return (e["op"], _tree(args[0], env, depth), _tree(args[1], env, depth))
        return ("call", e.get("fn") or e.get("n"), tuple(_tree(a, env, depth) for a in args))
    if k == "Ctor":
        return ("ctor", e["cls"], tuple(_tree(a, env, depth) for a in e["a"]))
    return ("?", C.pretty(e))


def _vec_components(e):
    """Components of a CoordinateVector construction CV(a,b,c) / scalar."""
    e = C.strip_casts(e)
    if e is not None and e.get("k") == "Ctor" and len(e["a"]) == 3:
        return list(e["a"])
    return None


def mutators(lib, cls, m):
    """Non-constructor, non-destructor methods of cls that assign member m (or call a mutating method on it)."""
    out = set()
    for d in lib.decls:
        if d["kind"] != "function" or d.get("cls") != cls or d.get("ctor") or d.get("dtor"):
            continue
        if d["name"] in ("write_restart_file", "write_restart_info", "read_restart_info"):
            continue
        for x in C.walk_stmt(d["body"]):
            k = x.get("k")
            tgt = None
            if k == "Bin" and x["op"] in ("=", "+=", "-=", "*=", "/=", "%=", ">>=", "<<=", "|=", "&="):
                tgt = x["a"]
            elif k == "Un" and x["op"] in ("pre++", "post++", "pre--", "post--"):
                tgt = x["x"]
            elif k == "Call" and x.get("op") in ("=", "+=", "-=", "*=", "/=") and x.get("obj") is not None:
                tgt = x["obj"]
            if tgt is not None and G.key_root_member(G.lv_key(tgt)) == m:
                # writes through a pointer member to the pointee are not writes of the member
                out.add(d["name"])
    return out


def derived_same_tree(lib, rec, clsq, cls, m, field, rfn, rexprs):
    """Floating-point members that the restart constructor recomputes must use the operation tree
    of the primary constructor (floating point is not associative: 1/(a/b) != b/a in the last bit)."""
    ftype = field["t"]
    is_float = "double" in ftype or "float" in ftype or ftype.replace("const ", "") == "CoordinateVector<>"
    prim = [d for d in lib.decls if d["kind"] == "function" and d.get("cls") == cls and d.get("ctor")
            and not d.get("copyctor") and not d.get("delegating")
            and not any("RestartReader" in p["t"] for p in d["params"])]
    if not is_float:
        return True, "integer/derived non-floating member (value determined by the restored members)"
    if len(rexprs) != 1 or rexprs[0] is None:
        return True, "assigned more than once / sized by a method call; not compared"
    pdefs = []
    for ct in prim:
        env = {}
        # definitions of the members in the primary constructor (initialisers, then simple assignments)
        defs = {}
        for ini in ct.get("inits", []):
            if "member" in ini and ini.get("x") is not None and ini.get("written"):
                defs[ini["member"]] = ini["x"]
        for x in C.walk_stmt(ct["body"]):
            if x.get("k") == "Bin" and x["op"] == "=" and C.member_name(x["a"]):
                defs.setdefault(C.member_name(x["a"]), x["b"])
        if m not in defs:
            continue
        for mm, ex in defs.items():
            comps = _vec_components(ex)
            if comps:
                for i, c in enumerate(comps):
                    env[(mm, i)] = _tree(c, {})
            else:
                env[(mm, None)] = _tree(ex, {})
        pdefs.append((ct, defs[m], env))
    if not pdefs:
        return True, "primary constructor does not define the member directly; not compared"
    rex = rexprs[0]
    # const locals of the restart constructor that are stored unchanged in a member stand for that member
    _LOCAL_ALIAS.clear()
    const_locals = set()
    for x in C.walk_stmt(rfn["body"]):
        if x.get("k") == "Decl":
            for d in x["d"]:
                if (d.get("t") or "").startswith("const "):
                    const_locals.add(d["n"])
    for x in C.walk_stmt(rfn["body"]):
        if x.get("k") == "Bin" and x["op"] == "=" and C.member_name(x["a"]):
            r0 = C.strip_casts(x["b"])
            if r0.get("k") == "Ref" and r0.get("n") in const_locals:
                _LOCAL_ALIAS.setdefault(r0["n"], x["a"])
    for ct, pex, env in pdefs:
        pc, rc = _vec_components(pex), _vec_components(rex)
        if pc and rc:
            pairs = list(zip(pc, rc))
        else:
            pairs = [(pex, rex)]
        for pe, re_ in pairs:
            tp = _tree(pe, env, 0)
            tr = _tree(re_, env, 0)
            if tp != tr:
                return False, ("restart constructor recomputes %s as %s, the primary constructor %s computes it as %s: "
                               "different floating-point operation trees (after substituting the primary definitions of "
                               "the members it is derived from), so a restarted run can differ in the last bits" %
                               (m, C.pretty(re_), ct["full"], C.pretty(pe)))
    _LOCAL_ALIAS.clear()
    return True, "same operation tree as the primary constructor"


def driver_closure(prog, lib, coverage, W):
    unit = prog.unit("TaskBasedRadiationHydrodynamicsSimulation.cpp")
    drv = unit.func("TaskBasedRadiationHydrodynamicsSimulation::do_simulation")
    ex = G.Extractor(drv, "w")
    items = ex.run()
    todo = []

    def collect(items):
        for it in items:
            if it.kind == "obj":
                todo.append(it.cls)
            elif it.kind == "loop":
                collect(it.items)
            elif it.kind == "cond":
                collect(it.then)
                collect(it.els)
    collect(items)
    seen = set()
    bases = {"factory:HydroMaskFactory": "HydroMask", "factory:PhotonSourceDistributionFactory":
             "PhotonSourceDistribution"}
    while todo:
        c = todo.pop()
        if c in seen:
            continue
        seen.add(c)
        if c in bases:
            for cls, ws in W.items():
                recs = [r for r in lib.records.get(ws[0].get("clsq"), []) if r["full"] == cls]
                if recs and any(b.replace("class ", "") == bases[c] for b in recs[0]["bases"]):
                    todo.append(cls)
        if c in coverage:
            before = len(todo)
            collect(coverage[c][2])
            # base classes that are themselves restartable
            recs = [r for r in lib.records.get(coverage[c][0].get("clsq"), []) if r["full"] == c]
            for r in recs:
                for b in r["bases"]:
                    todo.append(b.replace("class ", ""))
    return seen


def check_factories(chk, lib, W, R):
    n = 0
    for fac, base in (("HydroMaskFactory", "HydroMask"),
                      ("PhotonSourceDistributionFactory", "PhotonSourceDistribution"),
                      ("DensityGridFactory", "DensityGrid")):
        rf = [d for d in R.get(fac, []) if d["name"] == "restart"]
        wf = W.get(fac, [])
        if len(rf) != 1 or len(wf) != 1:
            raise AnalysisBroken("factory %s: restart()/write_restart_file() not found" % fac)
        rf, wf = rf[0], wf[0]
        chk.analysed(function=rf["full"])
        # subclasses that override write_restart_file and have a RestartReader constructor
        dumpable = set()
        for cls, ws in W.items():
            recs = [r for r in lib.records.get(ws[0].get("clsq"), []) if r["full"] == cls]
            if not recs:
                continue
            if any(b.replace("class ", "") == base for b in recs[0]["bases"]) and \
                    any(base + "::write_restart_file" in (w.get("overrides") or []) for w in ws):
                dumpable.add(cls)
        # arms of restart(): string literal tested -> class constructed
        arms = {}
        for s in C.walk_stmt(rf["body"]):
            if s.get("k") == "If":
                lits = [x["ty"] for x in C.walk(s["c"]) if x.get("k") == "Typeid"]
                news = [x["ty"] for x in C.walk_stmt(s["th"]) if x.get("k") == "New"]
                if len(lits) == 1 and len(news) == 1:
                    arms[lits[0]] = news[0]
        # tags written by write_restart_file: typeid(...).name() is compared with typeid(T).name()
        built = set(arms.values())
        for cls in sorted(dumpable | built):
            n += 1
            chk.require(cls in dumpable and cls in built, "R4", "%s can restart %s" % (fac, cls), where(rf),
                        "%s %s" % (cls, "overrides write_restart_file but %s::restart has no arm for it: the dump "
                                        "cannot be read back" % fac if cls in dumpable else
                                   "is constructed by %s::restart but does not override write_restart_file" % fac),
                        function=rf["full"], construct=cls)
        for tag, cls in arms.items():
            n += 1
            chk.require(tag == cls, "R4", "%s arm '%s' constructs %s" % (fac, tag, cls), where(rf),
                        "the arm for tag %s constructs class %s" % (tag, cls), function=rf["full"],
                        construct="arm %s" % tag)
    chk.floor("R4", n, 10)


def check_codec(chk, lib):
    """R0: the bool / string / map specialisations and the generic template of the stream classes."""
    def methods(cls, name):
        return [d for d in lib.decls if d["kind"] == "function" and d.get("clsq") == cls and d["name"] == name]
    ws, rs = methods("RestartWriter", "write"), methods("RestartReader", "read")
    if len(ws) < 4 or len(rs) < 4:
        raise AnalysisBroken("RestartWriter::write / RestartReader::read specialisations not found")
    n = 0

    def spec_type(d):
        if d["name"] == "write":
            return d["params"][0]["t"].replace("const ", "").replace("&", "").strip()
        return d["ret"]

    def raw_io(fn, side):
        """Sequence of stream operations inside a codec function."""
        out = []
        for s in C.walk_stmt(fn["body"]):
            if C.is_call(s) and s.get("n") == ("write" if side == "w" else "read"):
                if s.get("cls", "").startswith("Restart"):
                    t = s.get("targs") or (C.strip_casts(s["a"][0]).get("t", "") if s["a"] else "")
                    out.append(("prim", G.prim_class(t.replace("const ", ""))[:2]))
                elif "stream" in s.get("cls", "") and len(s["a"]) == 2:
                    sz = C.strip_casts(s["a"][1])
                    out.append(("bytes", "sizeof" if sz.get("k") == "Sizeof" else "n"))
        return out
    wmap = {spec_type(d): d for d in ws if not d.get("dependent") or True}
    for d in ws:
        t = spec_type(d)
        cands = [r for r in rs if spec_type(r) == t]
        if d.get("dependent") or "type-parameter" in t or "_datatype_" in t:
            cands = [r for r in rs if r.get("dependent")]
            if not d.get("dependent"):
                continue
        if not cands:
            continue
        r = cands[0]
        a, b = raw_io(d, "w"), raw_io(r, "r")
        # loops: the map specialisation iterates; compare the flat per-iteration sequence
        n += 1
        chk.require(a == b, "R0", "codec for %s" % t, where(d),
                    "RestartWriter::write emits %s but RestartReader::read consumes %s" % (a, b),
                    function=d["full"], construct="codec %s" % t)
    chk.floor("R0", n, 4)


def creation_conditions(fn, ptr, ex):
    """Canonical conditions enclosing every non-null assignment of local `ptr` in fn."""
    out = set()

    def walk(s, conds):
        k = s.get("k")
        if k == "Block":
            for c in s["s"]:
                walk(c, conds)
        elif k == "If":
            c = ex.canon(s["c"])
            walk(s["th"], conds + [c])
            if s.get("el"):
                walk(s["el"], conds + ["!" + c])
        elif k in ("For", "While", "Do", "ForRange", "OMP"):
            if s.get("body"):
                walk(s["body"], conds)
        else:
            e = C.strip_casts(s)
            if e.get("k") == "Bin" and e["op"] == "=":
                t = C.strip_casts(e["a"])
                if t.get("k") == "Ref" and t.get("n") == ptr and C.strip_casts(e["b"]).get("k") != "Null":
                    out.update(conds)
    walk(fn["body"], [])
    return out


def is_restart_path_guard(c):
    c2 = c.replace(" ", "")
    return "restart_reader" in c2 or 'was_found(std::basic_string<char>("restart"' in c2


def check_driver(chk, prog):
    """R2: dump site vs restart path of the task-based RHD driver."""
    unit = prog.unit("TaskBasedRadiationHydrodynamicsSimulation.cpp")
    drv = unit.func("TaskBasedRadiationHydrodynamicsSimulation::do_simulation")
    chk.analysed(function=drv["full"])
    wex = G.Extractor(drv, "w")
    witems = wex.run()
    rex = G.Extractor(drv, "r")
    ritems = rex.run()

    def flat(items, conds=()):
        out = []
        for it in items:
            if it.kind in ("prim", "obj"):
                out.append((it, conds))
            elif it.kind == "loop":
                out += flat(it.items, conds + ("loop:" + it.bound,))
            elif it.kind == "cond":
                out += flat(it.then, conds + (it.cond,))
                out += flat(it.els, conds + ("!" + it.cond,))
        return out
    fw, fr = flat(witems), flat(ritems)
    n = 0
    chk.require(len(fw) == len(fr) and len(fw) >= 15, "R2", "dump site and restart path exchange the same number of items",
                where(drv), "the dump site writes %d items, the restart path reads %d" % (len(fw), len(fr)),
                function=drv["full"], construct="driver item count")
    optional = {"hydro_mask": "hydro mask", "turbulence_forcing": "turbulence forcing"}
    for i, ((a, ca), (b, cb)) in enumerate(zip(fw, fr)):
        n += 1
        inst = "driver item %d" % i
        if a.kind != b.kind:
            chk.fail("R2", inst, where({"l": a.line}, drv), "dump writes a %s (%s) where restart reads a %s (%s)" %
                     (a.kind, a.show().strip(), b.kind, b.show().strip()), function=drv["full"], construct=inst)
            continue
        if a.kind == "prim":
            pa, pb = G.prim_class(a.type), G.prim_class(b.type)
            okk = pa[:2] == pb[:2]
            if okk and pa[2] != pb[2]:
                chk.note("driver item %d (%s): written as %s, read as %s (signedness differs, same bytes)"
                         % (i, a.key, a.type, b.type))
            la = a.key[1] if a.key and a.key[0] == "local" else None
            lb = b.key[1] if b.key and b.key[0] == "local" else None
            same = la is None or lb is None or la == lb
            chk.require(okk and same, "R2", inst + " %s" % (la or ""), where({"l": a.line}, drv),
                        "dump writes %s %s, restart reads %s into %s" % (a.type, la, b.type, lb),
                        function=drv["full"], construct=inst)
        else:
            ka = a.key[1] if a.key and a.key[0] in ("local",) else (G.key_root_member(a.key) or str(a.key))
            kb = b.key[1] if b.key and b.key[0] in ("local",) else (G.key_root_member(b.key) or str(b.key))
            same_cls = a.cls == b.cls or (a.cls.startswith("factory:") and b.cls.startswith("factory:") and
                                          a.cls == b.cls)
            chk.require(same_cls and (ka == kb or kb in ("None", None) or ka in ("None", None)), "R2",
                        inst + " %s" % a.cls, where({"l": a.line}, drv),
                        "dump writes %s from %s, restart reads %s into %s" % (a.cls, ka, b.cls, kb),
                        function=drv["full"], construct=inst)
        # optional components: an item is optional on the dump side iff it is optional on the restart side
        dump_guards = [c for c in ca if not c.startswith("loop:") and "write_restart_file()" not in c]
        rest_guards = [c for c in cb if not is_restart_path_guard(c)]
        n += 1
        chk.require(bool(dump_guards) == bool(rest_guards), "R2", inst + " optional on both sides or on neither",
                    where({"l": a.line}, drv),
                    "the item is %s on the dump side %s but %s on the restart side %s: the stream gets out of step "
                    "when the component is absent" % ("conditional" if dump_guards else "unconditional", dump_guards,
                                                      "conditional" if rest_guards else "unconditional", rest_guards),
                    function=drv["full"], construct=inst + " guard")
        if dump_guards and rest_guards:
            # the component pointer tested at the dump site is created on the fresh path under the very
            # condition that guards the read on the restart path
            ptrs = re.findall(r"local:(\w+)", " ".join(dump_guards))
            for ptr in ptrs:
                conds = creation_conditions(drv, ptr, rex)
                n += 1
                chk.require(any(g in conds for g in rest_guards), "R2",
                            inst + ": %s exists iff the restart path reads it" % ptr, where({"l": b.line}, drv),
                            "%s is written when non-null, but it is created under %s while the restart path reads "
                            "it under %s" % (ptr, sorted(conds), rest_guards), function=drv["full"],
                            construct=inst + " creation guard")
    chk.floor("R2", n, 30)


def check_unsequenced(chk, lib, R):
    """R6: two reads of the restart stream as sibling operands of one call / operator are unsequenced."""
    n = 0
    bad = 0
    for cls, fns in R.items():
        for fn in fns:
            ex = G.Extractor(fn, "r")
            nodes = list(C.walk_stmt(fn["body"])) + [ini["x"] for ini in fn.get("inits", []) if ini.get("x")]
            for x in nodes:
                if x is None:
                    continue
                for y in C.walk(x) if x.get("k") not in ("Block", "If", "For", "While", "Do", "Decl", "Return") else []:
                    k = y.get("k")
                    if k in ("Call", "Ctor", "Bin") and k != "InitList":
                        if k == "Bin":
                            ops = [y["a"], y["b"]]
                            if y["op"] in ("&&", "||", ","):
                                continue
                        elif k == "Call":
                            ops = ([y["obj"]] if y.get("obj") is not None else []) + y["a"]
                        else:
                            ops = y["a"]
                        with_reads = [o for o in ops if any(ex.read_event(z) is not None for z in C.walk(o))]
                        n += 1
                        if len(with_reads) >= 2:
                            bad += 1
                            chk.fail("R6", "%s: unsequenced reads" % fn["full"], where(y, fn),
                                     "two operands of %s each read from the restart stream; their order is "
                                     "unspecified" % C.pretty(y)[:80], function=fn["full"],
                                     construct="unsequenced reads line-independent %s" % C.pretty(y)[:40])
    if not bad:
        chk.ok("R6", "no unsequenced pair of restart reads in %d operator/call nodes" % n, "src/")
    chk.floor("R6", n, 100)
