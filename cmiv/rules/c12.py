"""C12 - complete runs end normally without touching invalid / uninitialised memory.

Decides the ownership and null discipline (DESIGN.md C12):
 M1 every pointer member that the class deletes in its destructor, or that any member
    function compares with nullptr, is definitely assigned by every user-provided,
    non-delegating constructor (restart constructors included);
 M2 new[]/delete[] forms agree between allocation sites and the destructor;
 M3 optional components of the task-based drivers are dereferenced only under a
    dominating null test / abort guard / unconditional allocation;
 M4 the fixed 27-entry task arrays are written under a bound.
It does not decide index bounds of run-time sized arrays or exit status 0 as such.
"""
from .. import cfg as C
from ..astdb import AnalysisBroken, where, dump_fixture, VERIF
import os


def _is_ptr(t):
    return t.rstrip().endswith("*") or t.rstrip().endswith("*const")


def deleted_members(dtor):
    out = {}
    for x in C.walk_stmt(dtor["body"]):
        if x.get("k") == "Delete":
            m = C.member_name(x["x"])
            if m:
                out.setdefault(m, []).append(x)
    return out


def _null_tests_in(ast):
    """(member, node) for every comparison of a this->member with nullptr inside ast."""
    for x in C.walk(ast):
        if x.get("k") == "Bin" and x["op"] in ("==", "!="):
            a, b = C.strip_casts(x["a"]), C.strip_casts(x["b"])
            for p, q in ((a, b), (b, a)):
                if q.get("k") == "Null" or (q.get("k") == "Int" and q["v"] in ("0", 0)):
                    mn = C.member_name(p)
                    if mn:
                        yield mn, x
        elif x.get("k") == "ICast" and x.get("ck") == "PointerToBoolean":
            mn = C.member_name(x["x"])
            if mn:
                yield mn, x


def null_tested_members(methods):
    """Members whose *incoming* value some member function compares with nullptr: the test
    is reachable from the function entry without a prior assignment of the member in that
    function (a member that is always assigned first, e.g. two-phase set-up, states no
    belief about its constructor value)."""
    out = {}
    for m in methods:
        cand = set()
        for x in C.walk_stmt(m["body"]):
            if x.get("k") in ("Bin", "ICast"):
                for mn, _ in _null_tests_in(x):
                    cand.add(mn)
                    break
        if not cand:
            continue
        g = C.CFG(m)
        for member in cand:
            def tr(node, st, member=member):
                if st:
                    return [(None, True)]
                if node.kind == "init":
                    if node.ast.get("member") == member:
                        return [(None, True)]
                    return [(None, st)]
                if node.kind in ("stmt", "decl", "return") and node.ast.get("k") not in ("Abort",):
                    if assigns_member(node.ast, member):
                        return [(None, True)]
                return [(None, st)]
            ex = C.explore(g, False, tr)
            for node in g.nodes:
                if node.kind in ("branch", "stmt", "decl", "return") and node.ast is not None \
                        and node.ast.get("k") not in ("Abort", "RangeHasNext"):
                    hits = [x for mn, x in _null_tests_in(node.ast) if mn == member]
                    if hits and False in ex.at.get(node.id, ()):
                        out.setdefault(member, []).append((m, hits[0]))
                        break
    return out


def assigns_member(ast, member):
    """Does this statement (definitely, when executed) give `member` a value?"""
    for x in C.walk(ast):
        k = x.get("k")
        if k == "Bin" and x["op"] == "=" and C.member_name(x["a"]) == member:
            return True
        if k == "Un" and x["op"] == "&" and C.member_name(x["x"]) == member:
            return True   # address taken: somebody else may initialise it
        if k == "Call":
            # passed by non-const reference
            for a in x["a"]:
                if C.member_name(a) == member and a.get("k") == "Mem":
                    return True
    return False


def ctor_assigns(fn, member):
    """(ok, path_lines): member definitely assigned on every path to the exit of ctor fn."""
    for ini in fn.get("inits", []):
        if ini.get("member") == member:
            return True, []
    g = C.CFG(fn)

    def tr(node, st):
        if st:
            return [(None, True)]
        if node.kind in ("stmt", "decl", "return", "branch") and node.ast.get("k") not in ("Abort", "RangeHasNext"):
            if assigns_member(node.ast, member):
                return [(None, True)]
        return [(None, st)]

    ex = C.explore(g, False, tr)
    bad = [st for st in ex.at.get(g.exit.id, ()) if not st]
    if bad:
        return False, ex.path_lines(g.exit.id, False)
    return True, []


def rule_M1_M2(chk, unit, label=""):
    n1 = n2 = 0
    by_class = {}
    for d in unit.decls:
        if d["kind"] == "function" and d.get("clsq") and not d.get("dependent") is None:
            by_class.setdefault((d["clsq"], d.get("cls")), []).append(d)
    for (clsq, clsfull), methods in sorted(by_class.items()):
        recs = [r for r in unit.records.get(clsq, []) if r["full"] == clsfull]
        if not recs:
            continue
        rec = recs[0]
        if rec.get("union"):
            continue
        ptr_fields = {f["n"]: f for f in rec["fields"] if _is_ptr(f["t"])}
        if not ptr_fields:
            continue
        dtors = [m for m in methods if m.get("dtor")]
        deleted = deleted_members(dtors[0]) if dtors else {}
        tested = null_tested_members(methods)
        tracked = {m for m in set(deleted) | set(tested) if m in ptr_fields}
        if not tracked:
            continue
        ctors = [m for m in methods if m.get("ctor") and not m.get("delegating")
                 and not m.get("defaulted") and not m.get("copyctor")]
        for member in sorted(tracked):
            f = ptr_fields[member]
            if f.get("dinit") is not None:
                continue
            why = []
            if member in deleted:
                why.append("deleted by the destructor")
            if member in tested:
                why.append("compared with nullptr in %s" % tested[member][0][0]["name"])
            for ct in ctors:
                chk.analysed(function=ct["full"])
                ok, lines = ctor_assigns(ct, member)
                n1 += 1
                sig = "(" + ", ".join(p["t"] for p in ct["params"]) + ")"
                inst = "%s%s initialises %s" % (ct["full"], sig, member)
                chk.require(ok, "M1", inst, where(ct),
                            "constructor %s%s leaves pointer member %s (%s) unassigned on the path "
                            "through lines %s" % (ct["full"], sig, member, "; ".join(why), lines),
                            function="%s%s" % (ct["full"], sig), construct=member)
            # M2: allocation form vs. delete form
            if member in deleted:
                forms = {x["arr"] for x in deleted[member]}
                for m in methods:
                    srcs = []
                    for ini in m.get("inits", []):
                        if ini.get("member") == member and ini.get("x"):
                            srcs.append(ini["x"])
                    for x in C.walk_stmt(m["body"]):
                        if x.get("k") == "Bin" and x["op"] == "=" and C.member_name(x["a"]) == member:
                            srcs.append(x["b"])
                    for s in srcs:
                        s = C.strip_casts(s)
                        if s.get("k") == "New":
                            n2 += 1
                            inst = "%s: %s allocated in %s" % (clsfull, member, m["name"])
                            chk.require(forms == {s["arr"]}, "M2", inst, where(s, m),
                                        "%s is allocated with new%s but released with delete%s" %
                                        (member, "[]" if s["arr"] else "",
                                         "[]" if True in forms else ""),
                                        function=m["full"], construct=member)
    return n1, n2


def rule_M5_pool_reset(chk, lib):
    """M5: a pooled slot is reset before it can be handed out again. free_element() does not reset the
    element (tasks keep their dependency pointer), so clear()/clear_after() must reset EVERY element of
    the range they release - unconditionally, whether or not its in-use flag is still set. Otherwise a
    recycled Task carries a pointer to a lock that may have been deleted meanwhile (use after free)."""
    n = 0
    fns = [d for d in lib.decls if d["kind"] == "function" and d.get("clsq") == "ThreadSafeVector"
           and d["name"] in ("clear", "clear_after") and not d.get("dependent")]
    fns += [d for d in lib.decls if d["kind"] == "function" and d.get("clsq") == "ThreadSafeVector"
            and d["name"] in ("clear", "clear_after") and d.get("dependent")]
    if not fns:
        raise AnalysisBroken("ThreadSafeVector::clear / clear_after not found")
    for fn in fns:
        chk.analysed(function=fn["full"])
        inst = "%s%s resets every element it releases" % (fn["full"], " (template)" if fn.get("dependent") else "")
        # (a) wholesale re-allocation of the element array
        realloc = [x for x in C.walk_stmt(fn["body"]) if x.get("k") == "Bin" and x["op"] == "=" and
                   C.member_name(x["a"]) == "_vector" and C.strip_casts(x["b"]).get("k") == "New"]
        g = C.CFG(fn)
        if realloc:
            nodes = [nd for nd in g.nodes if nd.kind == "stmt" and any(y is realloc[0] for y in C.walk(nd.ast))]
            okk = bool(nodes) and g.all_paths_pass(g.entry.id, {nd.id for nd in nodes})
            n += 1
            chk.require(okk, "M5", inst, where(fn), "the element array is not re-created on every path",
                        function=fn["full"], construct="pool reset")
            continue
        # (b) a loop over the released range that re-assigns each element
        loops = [s for s in C.walk_stmt(fn["body"]) if s.get("k") == "For"]
        okk = False
        detail = "no loop resetting the elements found"
        for lp in loops:
            resets = [x for x in C.walk_stmt(lp["body"])
                      if (x.get("k") == "Bin" and x["op"] == "=" or x.get("k") == "Call" and x.get("op") == "=")]
            resets = [x for x in resets if (G_root(x) == "_vector")]
            if not resets:
                continue
            gb = C.CFG(fn, body=lp["body"], name=fn["full"] + " loop body")
            rn = [nd for nd in gb.nodes if nd.kind == "stmt" and any(any(y is r for r in resets) for y in C.walk(nd.ast))]
            uncond = bool(rn) and gb.all_paths_pass(gb.entry.id, {nd.id for nd in rn})
            cnd = C.strip_casts(lp["c"]) if lp.get("c") else None
            upper = cnd is not None and cnd.get("k") == "Bin" and cnd["op"] == "<" and C.member_name(cnd["b"]) == "_size"
            okk = uncond and upper
            detail = ("the reset of _vector[i] is skipped on some path through the loop body (e.g. for elements "
                      "already returned with free_element(), which are NOT reset by free_element)"
                      if not uncond else "the loop does not run up to _size")
            break
        n += 1
        chk.require(okk, "M5", inst, where(fn), detail, function=fn["full"], construct="pool reset")
    # the premise: free_element really does not reset (if it did, the rule above could be relaxed)
    chk.floor("M5", n, 2)
    return n


def G_root(x):
    from ..grammar import lv_key, key_root_member
    tgt = x["a"] if x.get("k") == "Bin" else x.get("obj")
    return key_root_member(lv_key(tgt)) if tgt is not None else None


def run(chk, prog):
    chk.explanation = (
        "Ownership discipline decided for every class of the library at once: every pointer member "
        "that a destructor deletes or that the class itself compares with nullptr is definitely "
        "assigned by every user-provided non-delegating constructor (member initialiser, default member "
        "initialiser, or assignment on every CFG path of the body), and new/new[] agrees with "
        "delete/delete[]. This is the clause whose breach makes a run branch on or free an "
        "uninitialised pointer at exit; array index bounds are decided for the task queue only (zone analysis, rule M7); "
        "exit status is not decided.")
    u = prog.library()
    for name in prog.all_unit_names():
        chk.analysed(unit=name)
    n1, n2 = rule_M1_M2(chk, u)
    chk.floor("M1", n1, 60)
    chk.floor("M2", n2, 40)
    rule_M5_pool_reset(chk, u)
    from .c12_m3 import rule_M3, rule_M4, rule_M6
    chk.floor("M6", rule_M6(chk, u), 4)
    chk.floor("M3", rule_M3(chk, prog), 10)
    chk.floor("M4", rule_M4(chk, prog), 6)
    from .c12_bounds import rule_M7
    chk.floor("M7", rule_M7(chk, u), 4)
    # M8: containers handed to the task contexts are as long as the loops that index them there (c12_sizes.py)
    from .c12_sizes import rule_M8
    n8, sites8 = rule_M8(chk, prog.library())
    chk.floor("M8 construction sites", sites8, 1)
    # (no floor on the number of comparable loops: a context that walks its containers with range-for, or bounds its loops by
    # the containers' own size, leaves nothing to compare)
    # fixture: a class that must be reported, and a twin that must not
    fx = dump_fixture(os.path.join(VERIF, "fixtures", "c12_m1.hpp.cpp"))
    from ..report import Check
    probe = Check("C12", "fixture", "other")
    rule_M1_M2(probe, fx)
    bad = [o for o in probe.obligations if o["verdict"] == "VIOLATED"]
    names = sorted({o["construct"] + "@" + o["function"].split("(")[0] for o in bad})
    if names != ["_p@FxBad::FxBad", "_q@FxBadArr::init"] and \
            sorted({o["construct"] for o in bad}) != ["_p", "_q"]:
        raise AnalysisBroken("C12 fixture self-check failed: reported %s" % names)
    good = [o for o in probe.obligations if o["verdict"] == "holds"]
    if len(good) < 3:
        raise AnalysisBroken("C12 fixture self-check: negative twins not analysed")
    chk.note("fixture self-check: positive examples reported (%s), %d negative obligations silent"
             % (names, len(good)))
