"""C16 (claimed in part): legacy grid traversal accounting and the Cartesian grid's index algebra.

Decided, for every input at once (symbolic evaluation of loop bodies and loop-free functions, CAS identities, finite
case evaluation over index classes):

 N1  the three sibling implementations of DensityGrid::interact (Cartesian, AMR, Voronoi) account one traversal step
     identically: optical depth of the step = get_optical_depth(s, cell, photon), linear in s; the remaining target is
     reduced by exactly that; when it goes negative the step is shortened so that the optical depth used equals the
     target exactly, the packet stops there and the cell cursor does not advance; the deposit update_integrals(s', cell,
     photon) happens exactly once per step with the path s' actually travelled, in the cell whose opacity was used;
     the position moves by s' times the direction; the final position is stored in the photon;
 N2  the result is end() exactly under the negation of the loop's "still inside" condition;
 N3  CartesianDensityGrid::get_wall_intersection: per axis and per sign of the direction the wall distance is
     (upper - o) / d, (lower - o) / d or DBL_MAX, the step is the minimum, the index step of an axis is the sign of its
     direction component exactly when its distance attains the minimum (ties step all), and the returned point is
     o + ds d;
 N4  CartesianDensityGrid::is_inside: per axis, for every class of index (below / inside / above) and periodicity flag:
     open boundary -> outside iff the index is out of range and nothing is modified; periodic -> the index wraps to the
     other end, the position is shifted by one box length in the matching direction, and the result stays inside;
 N5  get_long_index / get_indices are inverse bijections between [0,nx)x[0,ny)x[0,nz) and [0, nx ny nz)
     (mixed-radix certificate); get_cell / get_cell_indices are inverse affine maps per axis given the constructor's
     cell sizes; the cell volume times the number of cells is the box volume;
 N6  CartesianDensityGrid::get_neighbours: per axis the low neighbour of c is c-1 (or the wrap n-1, or none), the high
     neighbour c+1 (or the wrap 0, or none), so that neighbour relations are mutual, with opposite normals.

NOT decided: AMR refinement histories and key enumeration, Voronoi geometry, the tree / bucket searches, round-off.
"""
import sympy as sp

from .. import cfg as C
from ..astdb import AnalysisBroken, where
from ..sym import Converter, Env

ASSIGN = ("=", "+=", "-=", "*=", "/=")
VEC_T = ("CoordinateVector<double>", "CoordinateVector<>")


def flat(stmts):
    out = []
    for s in stmts:
        if s is None:
            continue
        if s.get("k") == "Block":
            if s.get("mac"):
                continue
            out += flat(s["s"])
        elif s.get("k") == "Null":
            continue
        else:
            out.append(s)
    return out


def is_vec(t):
    t = (t or "").replace("const ", "").replace("&", "").strip()
    return t.startswith("CoordinateVector<double") or t == "CoordinateVector<>"


def local_of(e):
    e = C.strip_casts(e)
    while e is not None and e.get("k") == "Ctor" and len(e["a"]) == 1:      # by-value copy of a vector
        e = C.strip_casts(e["a"][0])
    return e if e is not None and e.get("k") == "Ref" and "id" in e else None


def refs_in(e):
    return [x for x in C.walk(e) if x.get("k") == "Ref" and "id" in x]


# ------------------------------------------------------------------------------------------------ N1 / N2
class StepExec:
    """Symbolic execution of the part of the traversal loop body that follows the optical depth of the step."""

    def __init__(self, chk, fn, loop, od_id):
        self.chk, self.fn, self.loop, self.od_id = chk, fn, loop, od_id
        self.s = sp.Symbol("s", positive=True)
        self.kappa = sp.Symbol("kappa", positive=True)
        self.od = sp.Symbol("tau_target", positive=True)
        self.O, self.D = sp.Symbol("O", real=True), sp.Symbol("D", real=True)
        self.atoms = {}
        self.conv = Converter(atoms=self._atom, call_hook=self._call)
        self.paths = []

    def _atom(self, key, e):
        e = C.strip_casts(e)
        if e.get("k") == "Ref" and "id" in e:
            return self.atoms.setdefault(e["id"], sp.Symbol(e["n"], real=True))
        return None

    def _call(self, e, env, conv):
        if e.get("n") == "get_optical_depth" and e["a"]:
            return self.kappa * conv.conv(e["a"][0], env)
        return None

    def assign(self, env, target, op, value):
        key = ("l", target["id"])
        if op == "=":
            env.vals[key] = value
            return
        old = env.vals.get(key)
        if old is None:
            old = self._atom(key, target)
        env.vals[key] = {"+=": old + value, "-=": old - value, "*=": old * value, "/=": old / value}[op]

    def od_relationals(self, v):
        if not hasattr(v, "atoms"):
            return []
        return [r for r in v.atoms(sp.core.relational.Relational) if self.od in r.free_symbols]

    def resolve(self, v, neg):
        """v with every test of the remaining optical depth replaced by its truth on the path `neg`."""
        rels = self.od_relationals(v)
        if not rels:
            return v
        m = {}
        for r in rels:
            m[r] = sp.true if (self._decide(r, True) == neg) else sp.false
        out = v.xreplace(m)
        return sp.piecewise_fold(out) if hasattr(out, "atoms") and out.has(sp.Piecewise) else out

    def needs_fork(self, st, env, state):
        """A statement whose value tests the remaining optical depth (a flag, a conditional expression) while the path has
        not decided it yet."""
        if state["neg"] is not None:
            return False
        exprs = []
        if st.get("k") == "Decl":
            exprs = [d["init"] for d in st["d"] if d.get("init") is not None]
        elif st.get("k") == "Bin" and st.get("op") in ASSIGN:
            exprs = [st["b"]]
        elif st.get("k") == "Call" and st.get("op") in ASSIGN and st.get("a"):
            exprs = [st["a"][0]]
        for e in exprs:
            v = self._try(e, env)
            if v is not None and self.od_relationals(v):
                return True
        return False

    def run(self, stmts, env, state):
        """state: dict(neg=None/True/False, deposits=[...], cursor_writes=[...])."""
        for i, st in enumerate(stmts):
            k = st.get("k")
            if self.needs_fork(st, env, state):
                for outcome in (True, False):
                    st2 = {"neg": outcome, "deposits": list(state["deposits"]), "cursor_writes": list(state["cursor_writes"]),
                           "cursors": state["cursors"]}
                    self.run(stmts[i:], env.copy(), st2)
                return
            if k == "Decl":
                for d in st["d"]:
                    if d.get("init") is None:
                        continue
                    try:
                        v_ = self.conv.conv(d["init"], env)
                        env.vals[("l", d["id"])] = self.resolve(v_, state["neg"]) if state["neg"] is not None else v_
                    except AnalysisBroken:
                        if d["id"] in state["cursors"]:
                            state["cursor_writes"].append(st)
            elif k == "Bin" and st["op"] in ASSIGN and local_of(st["a"]) is not None:
                tgt = local_of(st["a"])
                if tgt["id"] in state["cursors"]:
                    state["cursor_writes"].append(st)
                    continue
                v_ = self.conv.conv(st["b"], env)
                self.assign(env, tgt, st["op"], self.resolve(v_, state["neg"]) if state["neg"] is not None else v_)
            elif k == "Call" and st.get("op") in ASSIGN and st.get("obj") is not None and local_of(st["obj"]) is not None \
                    and len(st["a"]) == 1:
                tgt = local_of(st["obj"])
                if tgt["id"] in state["cursors"]:
                    state["cursor_writes"].append(st)
                    continue
                v_ = self.conv.conv(st["a"][0], env)
                self.assign(env, tgt, st["op"], self.resolve(v_, state["neg"]) if state["neg"] is not None else v_)
            elif k == "Call" and st.get("n") == "update_integrals":
                state["deposits"].append((st, [self._try(a, env) for a in st["a"]]))
            elif k == "If":
                cond = self._try(st["c"], env)
                odn = self.od - self.kappa * self.s
                rest = stmts[i + 1:]
                if cond is not None and getattr(cond, "free_symbols", None) and self.od in cond.free_symbols:
                    # a decision on the remaining optical depth: both outcomes
                    neg_true = self._decide(cond, True)
                    for taken, branch in ((True, st["th"]), (False, st.get("el"))):
                        st2 = {"neg": neg_true if taken else (not neg_true), "deposits": list(state["deposits"]),
                               "cursor_writes": list(state["cursor_writes"]), "cursors": state["cursors"]}
                        if state["neg"] is not None and state["neg"] != st2["neg"]:
                            continue
                        e2 = env.copy()
                        self.run(flat([branch] if branch is not None else []) + rest, e2, st2)
                    return
                if cond is not None and state["neg"] is not None:
                    cond = self.resolve(cond, state["neg"])
                if cond in (sp.true, sp.false, True, False):
                    branch = st["th"] if cond in (sp.true, True) else st.get("el")
                    self.run(flat([branch] if branch is not None else []) + rest, env, state)
                    return
                # a condition that does not involve the optical depth (assertions are macros and skipped): both arms
                for branch in (st["th"], st.get("el")):
                    st2 = {"neg": state["neg"], "deposits": list(state["deposits"]),
                           "cursor_writes": list(state["cursor_writes"]), "cursors": state["cursors"]}
                    e2 = env.copy()
                    self.run(flat([branch] if branch is not None else []) + rest, e2, st2)
                return
            elif k in ("Break", "Continue", "Return"):
                state["early"] = k
                break
            elif k in ("For", "While", "Do", "ForRange", "Switch"):
                raise AnalysisBroken("%s: a loop after the optical depth of the step (line %s)" % (self.fn["full"], st.get("l")))
            else:
                # ++counter, S += ds, asserts ...: irrelevant unless they write a tracked variable
                pass
        self.paths.append((env, state))

    def _try(self, e, env):
        try:
            return self.conv.conv(e, env)
        except AnalysisBroken:
            return None

    def _decide(self, cond, default):
        """Is `cond` the statement 'the remaining optical depth is negative'?  Decided by two sample orderings."""
        od_local = [s for s in cond.free_symbols if s in (self.od, self.kappa, self.s)]
        neg_case = cond.subs({self.od: 1, self.kappa: 2, self.s: 1})     # remaining = -1
        pos_case = cond.subs({self.od: 3, self.kappa: 2, self.s: 1})     # remaining = +1
        if neg_case == sp.true and pos_case == sp.false:
            return True
        if neg_case == sp.false and pos_case == sp.true:
            return False
        raise AnalysisBroken("%s: a condition on the remaining optical depth that is not a sign test: %s" % (self.fn["full"], cond))


def rule_step(chk, fn):
    """N1 + N2 on one implementation of interact()."""
    n = 0
    body = fn["body"]
    odp = [p for p in fn["params"] if p["t"].replace("const ", "").strip() == "double"]
    if len(odp) != 1:
        raise AnalysisBroken("%s: optical depth parameter not found" % fn["full"])
    od_id = odp[0]["id"]
    loop = loop_conds = stmts = None
    for cand in flat(body["s"]):
        if cand.get("k") not in ("While", "For"):
            continue
        conds, rest = loop_parts(cand)
        if any(r["id"] == od_id for c in conds for r in refs_in(c)):
            if loop is not None:
                raise AnalysisBroken("%s: more than one traversal loop" % fn["full"])
            loop, loop_conds, stmts = cand, conds, rest
    if loop is None:
        raise AnalysisBroken("%s: traversal loop not found" % fn["full"])
    # the statement computing the optical depth of the step
    ti = None
    for i, st in enumerate(stmts):
        if st.get("k") in ("If", "While", "For", "Do"):
            continue
        calls = [x for x in C.walk_stmt(st) if x.get("k") == "Call" and x.get("n") == "get_optical_depth"]
        if calls:
            ti, tcall = i, calls[0]
            break
    if ti is None:
        raise AnalysisBroken("%s: no get_optical_depth call in the traversal loop" % fn["full"])
    svar = local_of(tcall["a"][0]) if tcall["a"] else None
    if svar is None:
        raise AnalysisBroken("%s: the path argument of get_optical_depth is not a local" % fn["full"])
    # cursors: non-floating variables of the loop condition
    cursors = {r["id"]: r["n"] for c in loop_conds for r in refs_in(c) if r["id"] != od_id and not is_vec(r.get("t")) and
               (r.get("t") or "").replace("const ", "").strip() not in ("double", "bool")}
    ex = StepExec(chk, fn, loop, od_id)
    env = Env()
    env.vals[("l", svar["id"])] = ex.s
    env.vals[("l", od_id)] = ex.od
    # vectors known before the step: position (the vector in the loop condition or the one written to the photon), direction
    pos_id = dir_id = None
    for st in flat(body["s"]):
        if st.get("k") == "Decl":
            for d in st["d"]:
                init = d.get("init")
                if init is None or not is_vec(d.get("t")):
                    continue
                names = [x.get("n") for x in C.walk(init) if x.get("k") == "Call"]
                if "get_position" in names and pos_id is None:
                    pos_id = d["id"]
                elif "get_direction" in names and dir_id is None:
                    dir_id = d["id"]
    if pos_id is None or dir_id is None:
        raise AnalysisBroken("%s: position / direction locals not found" % fn["full"])
    env.vals[("l", pos_id)] = ex.O
    env.vals[("l", dir_id)] = ex.D
    # the wall point returned by the wall helper is o + s d (N3 for the Cartesian grid; assumed for the others)
    wall_helper = False
    for st in stmts[:ti]:
        if st.get("k") == "Decl":
            for d in st["d"]:
                init = d.get("init")
                if init is not None and is_vec(d.get("t")) and any(
                        x.get("k") == "Call" and "wall_intersection" in (x.get("n") or "") for x in C.walk(init)):
                    env.vals[("l", d["id"])] = ex.O + ex.s * ex.D
                    wall_helper = True
    # the iterator of the cell
    it_id = None
    for a in tcall["a"][1:]:
        for r in refs_in(a):
            if "iterator" in (r.get("t") or ""):
                it_id = r["id"]
    # run from the optical-depth statement on
    state = {"neg": None, "deposits": [], "cursor_writes": [], "cursors": cursors}
    ex.run(stmts[ti:], env, state)
    label = fn["full"].split("(")[0]
    if len(ex.paths) < 2:
        raise AnalysisBroken("%s: the step does not distinguish absorbed from continuing (paths: %d)" % (label, len(ex.paths)))
    odn = ex.od - ex.kappa * ex.s
    for env2, st2 in ex.paths:
        neg = st2["neg"]
        if neg is None:
            raise AnalysisBroken("%s: a path through the step never tests the remaining optical depth" % label)
        what = "absorbed in this cell" if neg else "continues to the next cell"
        # remaining optical depth
        n += 1
        odv = env2.vals.get(("l", od_id))
        chk.require(odv is not None and sp.simplify(odv - odn) == 0, "N1",
                    "%s [%s]: the remaining optical depth is reduced by exactly the optical depth of the step" % (label, what),
                    where(tcall, fn), "remaining target after the step: %s (expected target - kappa s)" % odv,
                    function=fn["full"], construct="remaining optical depth")
        # exactly one deposit, in the right cell, with the path travelled
        n += 1
        deps = st2["deposits"]
        okd = len(deps) == 1
        chk.require(okd, "N1", "%s [%s]: exactly one deposit (update_integrals) per step" % (label, what), where(loop, fn),
                    "%d deposits on this path" % len(deps), function=fn["full"], construct="one deposit per step")
        if not okd:
            continue
        dst, dargs = deps[0]
        sprime = dargs[0]
        n += 1
        cell_ok = it_id is not None and len(dst["a"]) >= 2 and local_of(dst["a"][1]) is not None and \
            local_of(dst["a"][1])["id"] == it_id
        chk.require(cell_ok, "N1", "%s [%s]: the deposit goes to the cell whose opacity gave the optical depth" % (label, what),
                    where(dst, fn), "update_integrals is given `%s`, get_optical_depth used another cell" %
                    (C.pretty(dst["a"][1]) if len(dst["a"]) > 1 else "?"), function=fn["full"], construct="deposit cell")
        n += 1
        if neg:
            chk.require(sprime is not None and sp.simplify(ex.kappa * sprime - ex.od) == 0, "N1",
                        "%s [absorbed]: the deposited path s' satisfies kappa s' = remaining target (optical depth used equals the "
                        "target exactly)" % label, where(dst, fn), "deposited path: %s; kappa s' - target = %s" %
                        (sprime, sp.simplify(ex.kappa * sprime - ex.od) if sprime is not None else "?"),
                        function=fn["full"], construct="absorbed path length")
        else:
            chk.require(sprime is not None and sp.simplify(sprime - ex.s) == 0, "N1",
                        "%s [continues]: the deposited path is the full distance to the wall" % label, where(dst, fn),
                        "deposited path: %s" % sprime, function=fn["full"], construct="full path length")
        # position
        n += 1
        pos = env2.vals.get(("l", pos_id))
        if sprime is not None and pos is not None:
            diff = sp.expand(pos - (ex.O + sprime * ex.D))
            extra = {s_ for s_ in diff.free_symbols} if hasattr(diff, "free_symbols") else set()
            okp = diff == 0 or (not neg and extra and all("periodic" in str(s_) or "correction" in str(s_) for s_ in extra))
        else:
            okp = False
        chk.require(okp, "N1", "%s [%s]: the position advances by the deposited path times the direction" % (label, what),
                    where(loop, fn), "position after the step: %s; deposited path %s" % (pos, sprime), function=fn["full"],
                    construct="position update")
        # cursor
        if neg:
            n += 1
            chk.require(not st2["cursor_writes"], "N1", "%s [absorbed]: the cell cursor does not advance" % label,
                        where(st2["cursor_writes"][0] if st2["cursor_writes"] else loop, fn),
                        "`%s` is executed although the packet stops in this cell" %
                        (C.pretty(st2["cursor_writes"][0])[:80] if st2["cursor_writes"] else ""), function=fn["full"],
                        construct="cursor on absorption")
        elif any(st.get("k") in ("Bin", "Call", "Decl") for st in C.walk_stmt(loop["body"])
                 if (st.get("k") == "Bin" and st.get("op") in ASSIGN and local_of(st["a"]) is not None and
                     local_of(st["a"])["id"] in cursors and st.get("l", 0) > tcall.get("l", 0))):
            n += 1
            chk.require(bool(st2["cursor_writes"]), "N1", "%s [continues]: the cell cursor advances" % label, where(loop, fn),
                        "no write of %s on the continuing path" % sorted(cursors.values()), function=fn["full"],
                        construct="cursor advance")
    # linearity of the optical depth in the path: in the callee
    # after the loop: the position is stored, the result is end() exactly when the packet left the grid
    after = flat(body["s"])
    after = after[after.index(loop) + 1:]
    n += 1
    stored = [x for st in after for x in C.walk_stmt(st) if x.get("k") == "Call" and x.get("n") == "set_position" and x["a"]
              and local_of(x["a"][0]) is not None and local_of(x["a"][0])["id"] == pos_id]
    chk.require(bool(stored), "N1", "%s: the final position is stored in the photon" % label, where(loop, fn),
                "no photon.set_position(<position>) after the traversal loop", function=fn["full"], construct="set_position")
    n += rule_exit(chk, fn, loop, loop_conds, od_id, after, cursors)
    return n, wall_helper


def negate(e):
    """AST of the negation of a condition (a leading `if (c) break;` contributes !c to the loop condition)."""
    e0 = C.strip_casts(e)
    if e0.get("k") == "Un" and e0["op"] == "!":
        return e0["x"]
    return {"k": "Un", "op": "!", "x": e, "t": "bool", "l": e0.get("l")}


def loop_parts(loop):
    """(conjuncts of the condition under which the body runs, body statements after the leading `if (c) break;`s)."""
    conds = split_and(loop["c"]) if loop.get("c") is not None else []
    stmts = flat([loop["body"]])
    while stmts and stmts[0].get("k") == "If" and stmts[0].get("el") is None and \
            [x.get("k") for x in flat([stmts[0]["th"]])] == ["Break"]:
        conds += split_and(negate(stmts[0]["c"]))
        stmts = stmts[1:]
    return conds, stmts


def split_and(e):
    e = C.strip_casts(e)
    if e.get("k") == "Bin" and e["op"] == "&&":
        return split_and(e["a"]) + split_and(e["b"])
    if e.get("k") == "Un" and e["op"] == "!" and C.strip_casts(e["x"]).get("k") == "Un" and C.strip_casts(e["x"])["op"] == "!":
        return split_and(C.strip_casts(e["x"])["x"])
    return [e]


def rule_exit(chk, fn, loop, loop_conds, od_id, after, cursors):
    """N2: end() is returned exactly under the negation of the loop's inside-condition."""
    label = fn["full"].split("(")[0]
    inside = [c for c in loop_conds if not any(r["id"] == od_id for r in refs_in(c))]
    if len(inside) != 1:
        raise AnalysisBroken("%s: the loop condition is not <inside> && <optical depth left>" % label)
    g = inside[0]
    gtxt = C.pretty(g)

    def polarity(c):
        """+1 when c is the inside condition, -1 when it is its negation, None otherwise."""
        c = C.strip_casts(c)
        if C.pretty(c) == gtxt:
            return 1
        if c.get("k") == "Un" and c["op"] == "!":
            p = polarity(c["x"])
            return -p if p else None
        if c.get("k") == "Bin" and c["op"] in ("==", "!=") and g.get("k") == "Bin" and g["op"] in ("==", "!="):
            if {C.pretty(c["a"]), C.pretty(c["b"])} == {C.pretty(g["a"]), C.pretty(g["b"])}:
                return 1 if c["op"] == g["op"] else -1
        return None
    def od_polarity(c):
        """The loop ends because the packet left the grid or because no optical depth is left: `optical depth > 0` after the
        loop means it left the grid.  -1 (escaped when true) for `od > 0`, +1 for `od <= 0`, None otherwise."""
        c = C.strip_casts(c)
        if c.get("k") == "Un" and c["op"] == "!":
            p_ = od_polarity(c["x"])
            return -p_ if p_ else None
        if c.get("k") == "Bin" and c["op"] in (">", "<=", "<", ">="):
            a, b = C.strip_casts(c["a"]), C.strip_casts(c["b"])
            op = c["op"]
            if b.get("k") == "Ref" and b.get("id") == od_id:
                a, b = b, a
                op = {">": "<", "<": ">", ">=": "<=", "<=": ">="}[op]
            if a.get("k") == "Ref" and a.get("id") == od_id and b.get("k") in ("Float", "Int") and float(b["v"]) == 0.0:
                if op == ">":
                    return -1
                if op == "<=":
                    return 1
        return None
    ifs = [st for st in after if st.get("k") == "If" and (polarity(st["c"]) is not None or od_polarity(st["c"]) is not None)]
    # the conditional-expression form: return inside ? cell : end();
    for st in after:
        if st.get("k") == "Return" and st.get("x") is not None:
            rx = C.strip_casts(st["x"])
            while rx is not None and rx.get("k") == "Ctor" and len(rx["a"]) == 1:
                rx = C.strip_casts(rx["a"][0])
            if rx is not None and rx.get("k") == "Cond" and (polarity(rx["c"]) is not None or od_polarity(rx["c"]) is not None):
                ifs.append({"k": "If", "c": rx["c"], "th": {"k": "Return", "x": rx["a"]}, "el": {"k": "Return", "x": rx["b"]},
                            "l": st.get("l"), "c_": st.get("c")})
    if len(ifs) != 1:
        raise AnalysisBroken("%s: the classification after the loop does not test the loop's inside condition `%s`" % (label, gtxt))
    st = ifs[0]
    pol = polarity(st["c"])
    if pol is None:
        pol = od_polarity(st["c"])
        gtxt = "%s (equivalently: no optical depth is left)" % gtxt
    el = st.get("el")
    if el is None and st in after and any(x.get("k") == "Return" for x in flat([st["th"]])[-1:]):
        el = {"k": "Block", "s": after[after.index(st) + 1:]}       # `if (c) return a; return b;`
    out_branch, in_branch = (st["th"], el) if pol < 0 else (el, st["th"])

    def yields_end(b):
        if b is None:
            return False
        for x in C.walk_stmt(b):
            if x.get("k") == "Call" and x.get("n") == "end" and not x["a"]:
                return True
        return False
    n = 1
    chk.require(yields_end(out_branch) and not yields_end(in_branch), "N2",
                "%s: end() (escaped) is produced exactly when `%s` is false after the loop" % (label, gtxt), where(st, fn),
                "the branch taken when the packet left the grid %s end(); the branch taken when it is still inside %s" %
                ("produces" if yields_end(out_branch) else "does not produce",
                 "produces end()" if yields_end(in_branch) else "does not"), function=fn["full"], construct="escape classification")
    return n


def rule_linear(chk, lib):
    """get_optical_depth(ds, ...) = ds * (something that does not depend on ds)."""
    fns = [d for d in lib.decls if d["kind"] == "function" and d["full"].startswith("DensityGrid::get_optical_depth") and d.get("body")]
    if not fns:
        raise AnalysisBroken("DensityGrid::get_optical_depth not found")
    fn = fns[0]
    conv = Converter(positive_atoms=True)
    env = Env()
    ds = sp.Symbol("ds", positive=True)
    env.vals[("l", fn["params"][0]["id"])] = ds
    rets = []

    def run(stmts, env):
        for i, st in enumerate(stmts):
            k = st.get("k")
            if k == "Decl":
                for d in st["d"]:
                    if d.get("init") is not None:
                        try:
                            env.vals[("l", d["id"])] = conv.conv(d["init"], env)
                        except AnalysisBroken:
                            pass        # a reference / object local: stays an atom
            elif k == "Bin" and st["op"] in ASSIGN and local_of(st["a"]) is not None:
                tgt = ("l", local_of(st["a"])["id"])
                v = conv.conv(st["b"], env)
                old = env.vals.get(tgt)
                env.vals[tgt] = v if st["op"] == "=" else {"+=": old + v, "-=": old - v, "*=": old * v, "/=": old / v}[st["op"]]
            elif k == "If":
                for br in (st["th"], st.get("el")):
                    run(flat([br] if br is not None else []) + stmts[i + 1:], env.copy())
                return
            elif k == "Return":
                rets.append((st, conv.conv(st["x"], env)))
                return
            elif k in ("For", "While", "Do", "Switch"):
                raise AnalysisBroken("DensityGrid::get_optical_depth is no longer a closed formula")
    run(flat(fn["body"]["s"]), env)
    if not rets:
        raise AnalysisBroken("DensityGrid::get_optical_depth: no return found")
    n = 0
    for r, v in rets:
        n += 1
        q = sp.simplify(v / ds)
        chk.require(v == 0 or ds not in q.free_symbols, "N1", "get_optical_depth is proportional to the path length", where(r, fn),
                    "optical depth / ds = %s still depends on ds" % q, function=fn["full"], construct="linear optical depth")
    n0 = sum(1 for r, v in rets if v != 0)
    if not n0:
        chk.fail("N1", "get_optical_depth is proportional to the path length", where(fn), "every return is 0", function=fn["full"],
                 construct="linear optical depth")
    return n


def rule_deposit(chk, lib):
    """update_integrals: every accumulated quantity is proportional to the path length."""
    fns = [d for d in lib.decls if d["kind"] == "function" and d["full"].startswith("DensityGrid::update_integrals") and d.get("body")]
    if not fns:
        raise AnalysisBroken("DensityGrid::update_integrals not found")
    fn = fns[0]
    ds_id = fn["params"][0]["id"]
    # taint by ds: locals (and local arrays) that are ds times something
    prop = {ds_id}
    changed = True
    while changed:
        changed = False
        for st in C.walk_stmt(fn["body"]):
            tgt = val = None
            if st.get("k") == "Decl":
                for d in st["d"]:
                    if d.get("init") is not None and d["id"] not in prop and linear_in(d["init"], prop):
                        prop.add(d["id"])
                        changed = True
            elif st.get("k") == "Bin" and st.get("op") == "=":
                root = C.strip_casts(st["a"])
                while root is not None and root.get("k") == "Idx":
                    root = C.strip_casts(root["a"])
                if root is not None and root.get("k") == "Ref" and "id" in root and root["id"] not in prop and linear_in(st["b"], prop):
                    prop.add(root["id"])
                    changed = True
    n = 0
    for st in C.walk_stmt(fn["body"]):
        if st.get("k") == "Call" and (st.get("n") or "").startswith("increase_") and st["a"]:
            n += 1
            chk.require(linear_in(st["a"][-1], prop), "N1", "update_integrals: the amount given to %s is proportional to the path "
                        "length" % st["n"], where(st, fn), "`%s` is not (path length) x (something independent of it)" %
                        C.pretty(st["a"][-1]), function=fn["full"], construct="deposit %s" % st["n"])
    return n


def linear_in(e, prop):
    """e is a product with exactly one factor from `prop` (or an element of an array in prop), the others free of prop."""
    e = C.strip_casts(e)
    k = e.get("k")
    if k == "Ref":
        return e.get("id") in prop
    if k == "Idx":
        return linear_in(e["a"], prop)
    if k == "Bin" and e["op"] == "*":
        la, lb = linear_in(e["a"], prop), linear_in(e["b"], prop)
        fa, fb = free_of(e["a"], prop), free_of(e["b"], prop)
        return (la and fb) or (lb and fa)
    if k == "Bin" and e["op"] == "/":
        return linear_in(e["a"], prop) and free_of(e["b"], prop)
    if k == "Bin" and e["op"] in ("+", "-"):
        return linear_in(e["a"], prop) and linear_in(e["b"], prop)
    if k == "Un" and e["op"] == "-":
        return linear_in(e["x"], prop)
    return False


def free_of(e, prop):
    return not any(x.get("k") == "Ref" and x.get("id") in prop for x in C.walk(e))


def run(chk, prog):
    chk.explanation = (
        "Symbolic execution of one traversal step of the three sibling implementations of DensityGrid::interact (optical depth, "
        "shortening on absorption, single deposit, position, cursor, escape classification), and of the Cartesian grid's loop-free "
        "index / wall / periodic-wrap / neighbour functions per axis and index class; identities decided by a computer-algebra "
        "normal form. AMR refinement, Voronoi geometry, the search structures and round-off are not decided.")
    lib = prog.library()
    n1 = rule_linear(chk, lib) + rule_deposit(chk, lib)
    helpers = {}
    for name in ("CartesianDensityGrid::interact", "AMRDensityGrid::interact", "VoronoiDensityGrid::interact"):
        fns = [d for d in lib.decls if d["kind"] == "function" and d["full"].split("(")[0] == name and d.get("body")]
        if not fns:
            raise AnalysisBroken("%s not found" % name)
        chk.analysed(function=fns[0]["full"])
        k, wh = rule_step(chk, fns[0])
        n1 += k
        helpers[name] = wh
    chk.floor("N1+N2", n1, 40)
    from . import c16_cart, c16_amr
    c16_cart.run(chk, prog, lib)
    c16_amr.run(chk, lib)
