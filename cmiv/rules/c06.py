"""C06 - ionization and thermal balance always return a physical cell state.

Decides two clauses whose truth is in the shape of the formulas (DESIGN.md C06):
 P1 metal ionic fractions: every value stored by compute_ionization_states_metals is a ratio N_k / D of
    polynomials with non-negative coefficients in non-negative atoms (intensity integrals, densities,
    recombination and charge-transfer rates), and D - sum_k N_k (over the tracked stages of one element) also
    has non-negative coefficients: hence 0 <= x_k and sum_k x_k <= 1 for all non-negative inputs;
 P2 in the special-case arms (neutral / no radiation) every ion that is set receives a literal in [0, 1] and
    every tracked ion is set;
 P3 every temperature written by the thermal balance is a literal or was passed through min(30000, .) on
    every path.
Not decided: the hydrogen/helium fixed point (convergence, monotonicity), the lower temperature bound, finiteness
when a denominator underflows.
"""
import re

import sympy as sp

from .. import cfg as C
from ..astdb import AnalysisBroken, where
from ..phieval import PhiEval
from ..sym import Converter, Env
from ..symexec import SymExec


def nonneg_poly(p, gens):
    """All coefficients of polynomial p (in gens) are >= 0."""
    if p == 0:
        return True
    try:
        P = sp.Poly(sp.expand(p), *gens)
    except sp.PolynomialError:
        return False
    return all(c >= 0 for c in P.coeffs())


def run(chk, prog):
    chk.explanation = (
        "The closed-form metal ionization formulas are extracted (forward substitution of the const locals) and a "
        "posynomial certificate is checked: every fraction is N_k/D with non-negative coefficients and D - sum N_k "
        "non-negative, which proves 0 <= x_k and sum x_k <= 1 for all non-negative radiation integrals, densities and "
        "rates; special-case arms assign literals in [0,1] to every tracked ion; every temperature written by the "
        "thermal balance is capped by min(30000, .) or is a literal. The iterative hydrogen/helium balance and the "
        "lower temperature bound are loop properties and are not decided.")
    chk.assumptions.append("recombination and charge-transfer rates, intensity integrals and densities are >= 0 "
                           "(rates: C18, not decided statically)")
    unit = prog.unit("IonizationStateCalculator.cpp")
    chk.analysed(unit=unit.name)
    fn = unit.func("IonizationStateCalculator::compute_ionization_states_metals")
    chk.analysed(function=fn["full"])
    ions = {c["n"]: c["v"] for c in prog.umbrella.enums["IonName"]["consts"]} if "IonName" in prog.umbrella.enums \
        else None
    if ions is None:
        raise AnalysisBroken("enum IonName not found")
    p1_lambdas = {}

    def lam_of(init):
        i0 = C.strip_casts(init) if init is not None else None
        while i0 is not None and i0.get("k") == "Ctor" and len(i0["a"]) == 1:
            i0 = C.strip_casts(i0["a"][0])
        return i0 if i0 is not None and i0.get("k") == "Lambda" else None

    def p1_call_hook(e, env_, conv_):
        """a call of a local lambda: its body as a (piecewise) formula of the arguments"""
        lam = None
        for key_ in ("obj", "callee"):
            o_ = C.strip_casts(e.get(key_)) if e.get(key_) is not None else None
            if o_ is not None and o_.get("k") == "Ref" and o_.get("id") in p1_lambdas:
                lam = p1_lambdas[o_["id"]]
        if lam is None:
            return None
        env2 = env_.copy()
        for p_, a_ in zip(lam["params"], e["a"]):
            env2.vals[("l", p_["id"])] = conv_.conv(a_, env_)

        def ev(stmts):
            for i_, st_ in enumerate(stmts):
                k_ = st_.get("k")
                if k_ == "Block":
                    return ev(st_["s"] + stmts[i_ + 1:])
                if k_ == "Decl":
                    for d_ in st_["d"]:
                        if d_.get("init") is not None:
                            env2.vals[("l", d_["id"])] = conv_.conv(d_["init"], env2)
                elif k_ == "If":
                    c_ = conv_.conv(st_["c"], env2)
                    tv = ev([st_["th"]] + stmts[i_ + 1:])
                    fv = ev(([st_["el"]] if st_.get("el") is not None else []) + stmts[i_ + 1:])
                    if c_ in (sp.true, True):
                        return tv
                    if c_ in (sp.false, False):
                        return fv
                    raise AnalysisBroken("compute_ionization_states_metals: a lambda branches on a condition that is not a "
                                         "flag of the path (line %s)" % st_.get("l"))
                elif k_ == "Return":
                    return conv_.conv(st_["x"], env2)
            raise AnalysisBroken("compute_ionization_states_metals: a lambda path without return")
        return ev([lam["body"]])
    conv = Converter(positive_atoms=True, call_hook=p1_call_hook)
    env = Env()
    for p in fn["params"]:
        if p["t"].replace("const ", "").strip() == "double":
            env.vals[("l", p["id"])] = sp.Symbol(p["n"], positive=True)
    # ---- P5: the electron density given to the metal balance is never exactly zero (interprocedural constants) ---------
    from . import c06_ne
    n5 = c06_ne.rule_P5(chk, prog.library())
    chk.floor("P5", n5, 1)
    # ---- P4: denominators with a charge-transfer term stay strictly positive (sign analysis, lambdas followed) ---------
    from . import c06_denominators
    n4 = c06_denominators.rule_P4(chk, fn)
    chk.floor("P4", n4, 8)

    def execute(stmts, env, sets, conds):
        """Leaves of the (loop-free) statement list: [(sets, conds)]; every `if` forks, conditions stay opaque."""
        leaves = [(env, sets, conds)]
        for s in stmts:
            nxt = []
            for env1, sets1, conds1 in leaves:
                k = s.get("k")
                if k == "Decl" and any(lam_of(d.get("init")) is not None for d in s["d"]):
                    for d in s["d"]:
                        if lam_of(d.get("init")) is not None:
                            p1_lambdas[d["id"]] = lam_of(d["init"])
                    nxt.append((env1, sets1, conds1))
                elif k == "Decl" and len(s["d"]) == 1 and s["d"][0].get("init") is not None and \
                        (s["d"][0].get("t") or "").replace("const ", "").strip() == "bool" and \
                        C.strip_casts(s["d"][0]["init"]).get("k") != "Bool":
                    # a flag computed from the inputs: both values, as a condition of the path
                    d = s["d"][0]
                    for val in (True, False):
                        e2 = env1.copy()
                        e2.vals[("l", d["id"])] = sp.true if val else sp.false
                        nxt.append((e2, list(sets1), conds1 + [(d["n"], val, s.get("l"))]))
                elif k == "Decl":
                    for d in s["d"]:
                        if d.get("init") is None:
                            continue
                        ie = C.strip_casts(d["init"])
                        if ie.get("k") == "InitList":
                            for i, a in enumerate(ie["a"]):
                                env1.vals[("i", ("l", d["id"]), i)] = conv.conv(a, env1)
                        else:
                            env1.vals[("l", d["id"])] = conv.conv(d["init"], env1)
                    nxt.append((env1, sets1, conds1))
                elif k == "Block" and not s.get("mac"):
                    nxt += execute(s["s"], env1, sets1, conds1)
                elif k == "If":
                    ct = C.pretty(s["c"])
                    e_t, e_f = env1.copy(), env1.copy()
                    nxt += execute([s["th"]], e_t, list(sets1), conds1 + [(ct, True, s.get("l"))])
                    if s.get("el") is not None:
                        nxt += execute([s["el"]], e_f, list(sets1), conds1 + [(ct, False, s.get("l"))])
                    else:
                        nxt.append((e_f, list(sets1), conds1 + [(ct, False, s.get("l"))]))
                elif k in ("Null",) or (k == "Block" and s.get("mac")):
                    nxt.append((env1, sets1, conds1))
                else:
                    e = C.strip_casts(s)
                    if C.is_call(e, name="set_ionic_fraction"):
                        ion = C.strip_casts(e["a"][0])
                        sets1 = sets1 + [(ion.get("n"), conv.conv(e["a"][1], env1), e)]
                        nxt.append((env1, sets1, conds1))
                    elif e.get("k") == "Bin" and e["op"] == "=" and conv.key(e["a"]) is not None:
                        env1.vals[conv.key(e["a"])] = conv.conv(e["b"], env1)
                        nxt.append((env1, sets1, conds1))
                    else:
                        raise AnalysisBroken("compute_ionization_states_metals: statement at line %s is not part of a "
                                             "closed formula" % s.get("l"))
            leaves = nxt
            if len(leaves) > 512:
                raise AnalysisBroken("compute_ionization_states_metals: more than 512 paths")
        return leaves

    # void helpers (free functions or members) that the balance hands its stage ratios to are read in place
    p1_helpers = {d["full"].split("(")[0]: d for d in prog.library().decls if d["kind"] == "function" and
                  d.get("body") is not None and (d.get("ret") or "void") == "void" and not d.get("dependent") and
                  any(C.is_call(x, name="set_ionic_fraction") for x in C.walk_stmt(d["body"])) and d is not fn and
                  d["full"].split("(")[0] != fn["full"].split("(")[0]}
    p1_body = C.inline_void_helpers(fn["body"], p1_helpers)
    leaves = execute(p1_body["s"], env, [], [])
    tracked = {}
    for _, sets, _ in leaves:
        for name, expr, node in sets:
            m = re.match(r"ION_([A-Za-z]+)_", name or "")
            if not m:
                raise AnalysisBroken("cannot read the element of ion %s" % name)
            tracked.setdefault(m.group(1), set()).add(name)
    if sum(len(v) for v in tracked.values()) < 8:
        raise AnalysisBroken("fewer than 8 metal fractions are set")
    n = 0
    seen_cert = set()
    for _, sets, conds in leaves:
        path = ", ".join("%s%s (line %s)" % ("" if pol else "not ", c, l) for c, pol, l in conds) or "the only path"
        groups = {}
        for name, expr, node in sets:
            groups.setdefault(re.match(r"ION_([A-Za-z]+)_", name).group(1), []).append((name, expr, node))
        for el in sorted(tracked):
            lst = groups.get(el, [])
            last = {}
            for name, expr, node in lst:
                last[name] = (expr, node)
            missing = tracked[el] - set(last)
            key = (el, tuple(sorted((nm, sp.srepr(ex)) for nm, (ex, _) in last.items())), tuple(sorted(missing)))
            if key in seen_cert:
                continue
            seen_cert.add(key)
            n += 1
            chk.require(not missing, "P1", "every tracked stage of %s is written on the path [%s]" % (el, path),
                        where(fn), "stages %s are not written on this path: they keep the value of the previous solve, so the "
                        "stages of %s can sum to more than 1" % (sorted(missing), el), function=fn["full"],
                        construct="stages written %s" % el)
            total = sp.Integer(0)
            for name, (expr, node) in sorted(last.items()):
                num, den = sp.fraction(sp.together(expr))
                gens = sorted(expr.free_symbols, key=str)
                n += 1
                chk.require(nonneg_poly(num, gens) and nonneg_poly(den, gens) and den != 0, "P1",
                            "fraction of %s is a ratio of polynomials with non-negative coefficients" % name,
                            where(node, fn), "numerator %s / denominator %s has a negative coefficient: the fraction can "
                            "become negative for admissible (non-negative) inputs" % (sp.expand(num), sp.expand(den)),
                            function=fn["full"], construct="fraction %s" % name)
                total += expr
            if not last:
                continue
            num, den = sp.fraction(sp.together(1 - total))
            gens = sorted(total.free_symbols, key=str)
            n += 1
            chk.require(nonneg_poly(num, gens) and nonneg_poly(den, gens), "P1",
                        "tracked stages of %s sum to at most 1" % el, where(sorted(last.items())[0][1][1], fn),
                        "1 - sum of the %s fractions = (%s)/(%s) has a negative coefficient: the stages can sum to more "
                        "than 1 (a term is missing from the normalisation)" % (el, sp.expand(num), sp.expand(den)),
                        function=fn["full"], construct="normalisation %s" % el)
    sets = [(nm, None, None) for el in tracked for nm in tracked[el]]
    chk.floor("P1", n, 20)
    # ---- P2 / P3 on the thermal balance ---------------------------------------------------------
    tu = prog.unit("TemperatureCalculator.cpp")
    chk.analysed(unit=tu.name)
    cands = [f for f in tu.funcs("TemperatureCalculator::calculate_temperature")
             if f.get("body") and any("IonizationVariables" in p["t"] for p in f["params"])]
    if len(cands) != 1:
        raise AnalysisBroken("per-cell TemperatureCalculator::calculate_temperature not found (%d candidates)" % len(cands))
    tf = cands[0]
    chk.analysed(function=tf["full"])
    # helpers of this file that set cell state (a neutral-state helper extracted by a refactoring) are read in place
    file_helpers = {}
    for d_ in tu.decls:
        if d_["kind"] == "function" and d_.get("body") is not None and d_ is not tf and \
                (d_.get("file") or "").endswith("TemperatureCalculator.cpp") and d_["full"].split("(")[0] != tf["full"].split("(")[0] and \
                any(C.is_call(x, name="set_ionic_fraction") or C.is_call(x, name="set_temperature") for x in C.walk_stmt(d_["body"])):
            file_helpers.setdefault(d_["full"].split("(")[0], d_)
    if file_helpers:
        tf = dict(tf)
        tf["body"] = C.inline_helpers(tf["body"], file_helpers)
    g = C.CFG(tf)
    n2 = n3 = 0
    metal_ions = {nm for nm, _, _ in sets}
    for node in g.nodes:
        for x in [y for a in ([node.ast] if node.kind == "stmt" and node.ast.get("k") != "Abort" else [])
                  for y in C.walk(a)]:
            if C.is_call(x, name="set_ionic_fraction"):
                v = C.strip_casts(x["a"][1])
                if v.get("k") in ("Float", "Int"):
                    val = float(v["v"])
                    n2 += 1
                    chk.require(0.0 <= val <= 1.0, "P2", "special case sets %s to a literal in [0,1] (line %s)" %
                                (C.pretty(x["a"][0]), x.get("l")), where(x, tf), "literal %s" % val,
                                function=tf["full"], construct="literal fraction %s" % C.pretty(x["a"][0]))
    n2 += literal_arms(chk, tf, metal_ions)
    chk.floor("P2", n2, 20)
    # P3: temperature cap
    targets = set()
    for node in g.nodes:
        if node.kind == "stmt" and node.ast.get("k") != "Abort":
            for x in C.walk(node.ast):
                if C.is_call(x, name="set_temperature"):
                    k = C.ref_key(x["a"][0])
                    if k is not None:
                        targets.add(k)

    def tr(node, st):
        capped = dict(st)
        if node.kind in ("stmt", "decl") and node.ast.get("k") != "Abort":
            asts = [node.ast] if node.kind == "stmt" else [{"k": "Bin", "op": "=", "a": {"k": "Ref", "id": d["id"], "n": d["n"]},
                                                            "b": d["init"]} for d in node.ast["d"] if d.get("init")]
            for a in asts:
                a = C.strip_casts(a)
                if a.get("k") == "Bin" and a["op"] in ("=", "+=", "-=", "*=", "/="):
                    k = C.ref_key(a["a"])
                    if k is None or k not in targets:
                        continue
                    r = C.strip_casts(a["b"])
                    ok = False
                    if a["op"] == "=":
                        if r.get("k") in ("Float", "Int"):
                            ok = float(r["v"]) <= 30000.
                        elif C.is_call(r) and (r.get("fn") or "").endswith("min") and len(r["a"]) == 2:
                            lits = [float(C.strip_casts(z)["v"]) for z in r["a"] if C.strip_casts(z).get("k") in ("Float", "Int")]
                            ok = bool(lits) and min(lits) <= 30000.
                        elif r.get("k") == "Ref" and capped.get(C.ref_key(r)):
                            ok = True
                        elif r.get("k") == "Cond":
                            # min written as a conditional expression: (v < L) ? v : L and its variants
                            cc = C.strip_casts(r["c"])
                            x1, y1 = C.strip_casts(r["a"]), C.strip_casts(r["b"])
                            if cc.get("k") == "Bin" and cc["op"] in ("<", "<=", ">", ">="):
                                ca, cb = C.strip_casts(cc["a"]), C.strip_casts(cc["b"])
                                lit = [z for z in (ca, cb) if z.get("k") in ("Float", "Int")]
                                var = [z for z in (ca, cb) if z.get("k") == "Ref"]
                                if len(lit) == 1 and len(var) == 1 and float(lit[0]["v"]) <= 30000.:
                                    L = float(lit[0]["v"])
                                    var_less = (cc["op"] in ("<", "<=")) == (ca is var[0])     # condition true  <=>  var below L
                                    lo_arm, hi_arm = (x1, y1) if var_less else (y1, x1)         # arm taken when var < L / otherwise
                                    ok = lo_arm.get("k") == "Ref" and C.ref_key(lo_arm) == C.ref_key(var[0]) and \
                                        hi_arm.get("k") in ("Float", "Int") and float(hi_arm["v"]) == L
                    capped[k] = ok
                for x in C.walk(a):
                    if C.is_call(x) and x.get("pt"):
                        for arg, pt in zip(x["a"], x["pt"]):
                            if pt.endswith("&") and not pt.startswith("const ") and C.ref_key(arg) in targets:
                                capped[C.ref_key(arg)] = False
        return [(None, tuple(sorted(capped.items(), key=str)))]
    ex = C.explore(g, (), tr)
    for node in g.nodes:
        if node.kind != "stmt" or node.ast.get("k") == "Abort":
            continue
        for x in C.walk(node.ast):
            if C.is_call(x, name="set_temperature"):
                v = C.strip_casts(x["a"][0])
                n3 += 1
                if v.get("k") in ("Float", "Int"):
                    chk.require(float(v["v"]) <= 30000., "P3", "temperature literal %s (line %s) is within the cap" %
                                (v["v"], x.get("l")), where(x, tf), "literal above 30000 K", function=tf["full"],
                                construct="temperature literal")
                    continue
                k = C.ref_key(v)
                bad = [st for st in ex.at.get(node.id, ()) if not dict(st).get(k)]
                chk.require(k is not None and not bad, "P3",
                            "the temperature written at line %s was capped by min(30000, .) on every path" % x.get("l"),
                            where(x, tf), "on the path through lines %s the value of %s reaches set_temperature without "
                            "the cap" % (ex.path_lines(node.id, bad[0]) if bad else "?", C.pretty(v)),
                            function=tf["full"], construct="temperature cap")
    # helpers of this unit that calculate_temperature calls (a neutral-state helper extracted by a refactoring)
    helper_names = {x.get("fn") for nd in g.nodes if nd.kind in ("stmt", "decl", "return", "branch") and nd.ast is not None and
                    nd.ast.get("k") not in ("Abort", "RangeHasNext")
                    for x in C.walk(nd.ast if nd.kind != "decl" else {"k": "Decl", "d": nd.ast["d"]})
                    if x.get("k") == "Call" and x.get("fn") and "::" not in x["fn"]}
    for hn in sorted(h for h in helper_names if h):
        for hf in tu.functions.get(hn, []):
            if not hf.get("body") or not (hf.get("file") or "").endswith("TemperatureCalculator.cpp"):
                continue
            chk.analysed(function=hf["full"])
            for s2 in C.walk_stmt(hf["body"]):
                for x in (C.walk(s2) if s2.get("k") not in ("Block", "If", "For", "While", "Do", "Decl") else ()):
                    if C.is_call(x, name="set_temperature"):
                        v = C.strip_casts(x["a"][0])
                        n3 += 1
                        chk.require(v.get("k") in ("Float", "Int") and float(v["v"]) <= 30000., "P3",
                                    "helper %s writes a temperature literal within the cap (line %s)" % (hn, x.get("l")),
                                    where(x, hf), "a helper of the thermal balance writes `%s`" % C.pretty(v),
                                    function=hf["full"], construct="temperature literal")
            n2 += literal_arms(chk, hf, metal_ions)
    # P3 (every exit): the bounds are a property of what is *stored*: every path of calculate_temperature to its normal
    # exit passes a set_temperature call (its own, or one in a helper of this unit that sets it on all of its paths), so no
    # path leaves the temperature the cell had on entry - an input that is not bounded by [500 K] u [4000 K, 30000 K]
    def sets_on_all_paths(hf, depth=0):
        gh = C.CFG(hf)
        through = {nd.id for nd in gh.nodes if nd.ast is not None and nd.kind in ("stmt", "decl", "return", "branch") and
                   nd.ast.get("k") not in ("Abort", "RangeHasNext") and
                   any(C.is_call(x, name="set_temperature") for x in
                       C.walk(nd.ast if nd.kind != "decl" else {"k": "Decl", "d": nd.ast["d"]}))}
        return bool(through) and gh.all_paths_pass(gh.entry.id, through)
    setting_helpers = set()
    for hn in sorted(h for h in helper_names if h):
        for hf in tu.functions.get(hn, []):
            if hf.get("body") and (hf.get("file") or "").endswith("TemperatureCalculator.cpp") and sets_on_all_paths(hf):
                setting_helpers.add(hn)
    through = set()
    for nd in g.nodes:
        if nd.ast is None or nd.kind not in ("stmt", "decl", "return", "branch") or nd.ast.get("k") in ("Abort", "RangeHasNext"):
            continue
        for x in C.walk(nd.ast if nd.kind != "decl" else {"k": "Decl", "d": nd.ast["d"]}):
            if C.is_call(x, name="set_temperature") or (x.get("k") == "Call" and x.get("fn") in setting_helpers):
                through.add(nd.id)
    n3 += 1
    okk = bool(through) and g.all_paths_pass(g.entry.id, through)
    bad_path = ""
    if not okk and through:
        # a witness: the lines of a path that reaches the exit around every set_temperature
        reach = g.reachable(g.entry.id, avoid=through)
        bad_path = str(sorted({g.nodes[i].line() for i in reach if g.nodes[i].line()})[-6:])
    chk.require(okk, "P3", "every path of calculate_temperature to its exit stores a temperature", where(tf),
                "a path reaches the end of the function without calling set_temperature (last lines on it: %s): the cell keeps "
                "the temperature it had on entry, which is an input and not bounded by the clamps (500 K / minimum ionized "
                "temperature / 30000 K), while its ionic fractions were overwritten" % bad_path, function=tf["full"],
                construct="temperature stored on every path")
    chk.floor("P3", n3, 3)

    hydrogen(chk, unit)
    quadratic_arms(chk, unit)
    special_arms(chk, unit, metal_ions)


_delta = sp.Symbol("delta", positive=True)


def sign_certificate(expr):
    """+1 / -1 / 0 when expr (positive symbols only) is a ratio of polynomials whose coefficients all have one sign."""
    e = sp.simplify(expr)
    if e == 0:
        return 0
    num, den = sp.fraction(sp.together(e))
    num, den = sp.expand(num), sp.expand(den)
    gens = sorted((num.free_symbols | den.free_symbols), key=str)
    if not gens:
        return 1 if e > 0 else -1

    def sg(p):
        try:
            cs = sp.Poly(p, *gens).coeffs()
        except sp.PolynomialError:
            return None
        if all(c > 0 for c in cs):
            return 1
        if all(c < 0 for c in cs):
            return -1
        return None
    a, b = sg(num), sg(den)
    if a is None or b is None:
        return None
    return a * b


def hydrogen(chk, unit):
    """Closed-form hydrogen-only balance (H1-H5)."""
    fn = unit.func("IonizationStateCalculator::compute_ionization_state_hydrogen")
    chk.analysed(function=fn["full"])
    se = SymExec(unit, Converter(positive_atoms=True))
    leaves = [l for l in se.run(fn) if not l.aborted]
    names = [p["n"] for p in fn["params"]]
    if len(names) != 3:
        raise AnalysisBroken("compute_ionization_state_hydrogen: expected (alphaH, jH, nH)")
    alpha, j, nH = [sp.Symbol(n, positive=True) for n in names]
    # s = sqrt(1 + 4 nH alpha / jH) > 1 parametrises the whole input domain jH > 0
    par = {j: 4 * nH * alpha / ((1 + _delta) ** 2 - 1)}
    n = 0
    exact = []
    arms = []          # (returned expression, floor, inner expression, guard conditions [(relational, polarity)], line)
    for lf in leaves:
        r = lf.ret
        if r is None:
            raise AnalysisBroken("compute_ionization_state_hydrogen: a path returns nothing")
        line = lf.conds[-1][2].get("l") if lf.conds else fn.get("line")
        conds = [(c, pol) for c, pol, _ in lf.conds]
        floor = None
        inner = r
        if isinstance(r, sp.Max):
            lits = [a for a in r.args if a.is_number]
            rest = [a for a in r.args if not a.is_number]
            if len(lits) == 1 and len(rest) == 1:
                floor, inner = lits[0], rest[0]
        if isinstance(inner, sp.Piecewise):
            prev = []
            for ex_, cnd in inner.args:
                g = list(conds) + [(pc, False) for pc in prev]
                if cnd is not sp.true:
                    g.append((cnd, True))
                    prev.append(cnd)
                arms.append((r, floor, ex_, g, line))
        else:
            arms.append((r, floor, inner, conds, line))
    for r, floor, inner, conds, line in arms:
        w = "%s:%s" % (where(fn).split(":")[0], line)
        if not inner.free_symbols:
            n += 1
            chk.require(0 <= inner <= 1, "H5", "no-radiation / vacuum arm returns a literal fraction in [0,1]", w,
                        "returns %s" % inner, function=fn["full"], construct="literal arm")
            continue
        n += 1
        chk.require(floor is not None and 0 <= floor <= 1, "H2",
                    "the closed-form arm (line %s) is floored by a literal in [0,1]" % line, w,
                    "the arm returns %s without a non-negative floor: round-off (or over-ionization, see the comment in "
                    "the code) gives a negative neutral fraction" % r, function=fn["full"], construct="floor")
        has_root = bool(inner.atoms(sp.Pow) and any(pw.exp == sp.Rational(1, 2) for pw in inner.atoms(sp.Pow)))
        ip = sp.simplify(inner.xreplace(par))
        if has_root:
            exact.append(inner)
            res = sp.simplify(((1 - ip) ** 2 * nH * alpha - ip * j.xreplace(par)))
            n += 1
            chk.require(res == 0, "H1", "the closed form solves nH (1-x)^2 alphaH = x jH", w,
                        "residual of the balance equation for the returned expression %s is %s" % (inner, res),
                        function=fn["full"], construct="balance equation")
            sg = sign_certificate(ip - 1)
            n += 1
            chk.require(sg in (-1, 0), "H2", "the closed form never exceeds 1", w,
                        "x - 1 = %s is not non-positive for all inputs" % sp.simplify(ip - 1), function=fn["full"],
                        construct="upper bound")
        else:
            # asymptotic arm: valid under its guard `g < c`; must be k * g with k * c <= 1
            guard = [(c, pol) for c, pol in conds if isinstance(c, (sp.StrictLessThan, sp.LessThan)) and pol and
                     c.rhs.is_number]
            okb = False
            for c, _ in guard:
                ratio = sp.simplify(inner / c.lhs)
                if ratio.is_number and ratio > 0 and ratio * c.rhs <= 1:
                    okb = True
            n += 1
            chk.require(okb, "H2", "the asymptotic arm (line %s) stays below 1 under its guard" % line, w,
                        "the arm returns %s; no guard of the form g < c with value = k g, k c <= 1 bounds it" % inner,
                        function=fn["full"], construct="asymptotic bound")
        for sym, want, what in ((j, -1, "decreases with the radiation field"),
                                (nH, 1, "increases with density"), (alpha, 1, "increases with the recombination rate")):
            d = sp.diff(inner, sym).xreplace(par)
            sg = sign_certificate(sp.simplify(d))
            n += 1
            chk.require(sg == want, "H3", "neutral fraction (arm at line %s) %s" % (line, what), w,
                        "d x / d %s = %s does not have a definite %s sign over the whole domain" %
                        (sym, sp.simplify(d), "negative" if want < 0 else "positive"), function=fn["full"],
                        construct="monotone %s" % sym)
    chk.require(len(exact) == 1, "H1", "exactly one arm is the exact root", where(fn), "%d arms with a square root" %
                len(exact), function=fn["full"], construct="exact arm")
    # H4: the asymptotic arm is the leading term of the exact arm
    for r, floor, inner, conds, line in arms:
        if not inner.free_symbols or not exact or inner is exact[0] or inner == exact[0]:
            continue
        eps = sp.Symbol("eps", positive=True)
        # scale jH -> jH/eps (strong field): ratio exact/asymptotic -> 1
        ratio = (exact[0] / inner).xreplace({j: j / eps})
        lim = sp.limit(sp.simplify(ratio), eps, 0, "+")
        n += 1
        chk.require(lim == 1, "H4", "the strong-field arm is the leading term of the exact root", where(fn),
                    "limit of exact/asymptotic for jH -> infinity is %s, not 1" % lim, function=fn["full"],
                    construct="asymptotic arm")
    chk.floor("H", n, 12)


def quadratic_arms(chk, unit):
    """Every `if (t < c) x = A; else x = E;` of the H/He iteration: E is a root of a quadratic a x^2 - b x + c, A = c/b
    is the root of its linearisation and t = 4ac/b^2 is the expansion parameter (sibling arms agree)."""
    fn = unit.func("IonizationStateCalculator::compute_ionization_states_hydrogen_helium")
    chk.analysed(function=fn["full"])
    conv = Converter(positive_atoms=True)
    n = 0

    def scan(block, env):
        nonlocal n
        for s in block.get("s", []):
            k = s.get("k")
            if k == "Decl":
                for d in s["d"]:
                    if d.get("init") is not None and d["t"].replace("const ", "").strip() == "double":
                        if any(y.get("k") == "Call" for y in C.walk(d["init"])):
                            # transcendental helper (sqrt, pow, exp): an atom of the rational identities below
                            env.vals[("l", d["id"])] = sp.Symbol(d["n"], positive=True)
                            continue
                        try:
                            env.vals[("l", d["id"])] = conv.conv(d["init"], env)
                        except AnalysisBroken:
                            env.vals.pop(("l", d["id"]), None)
            elif k == "If":
                c = C.strip_casts(s["c"])
                th, el = s.get("th"), s.get("el")
                pair = None
                envs = (env, env)
                if el is not None and c.get("k") == "Bin" and c["op"] == "<":
                    r1 = single_assign(th, env, conv)
                    r2 = single_assign(el, env, conv)
                    if r1 and r2 and C.ref_key(r1[0]["a"]) == C.ref_key(r2[0]["a"]):
                        pair = (r1[0], r2[0])
                        envs = (r1[1], r2[1])
                if pair:
                    t = conv.conv(c["a"], env)
                    A = conv.conv(pair[0]["b"], envs[0])
                    E = conv.conv(pair[1]["b"], envs[1])
                    roots = [pw for pw in E.atoms(sp.Pow) if pw.exp == sp.Rational(1, 2)]
                    if len(roots) == 1:
                        n += 1
                        r = sp.Symbol("r_", positive=True)
                        lin = sp.together(E.xreplace({roots[0]: r}))
                        # E = (b - r)/(2a): coefficient extraction
                        num, den = sp.fraction(lin)
                        pn = sp.Poly(sp.expand(num), r)
                        good = pn.degree() == 1
                        if good:
                            b_ = pn.coeff_monomial(1) / -pn.coeff_monomial(r)
                            twoa = den / -pn.coeff_monomial(r)
                            a_ = twoa / 2
                            c_ = sp.cancel(sp.together((b_ ** 2 - roots[0].base) / (4 * a_)))
                            good = ratzero(A - c_ / b_) and ratzero(t - 4 * a_ * c_ / b_ ** 2)
                        chk.require(good, "H6", "expansion arm, exact arm and switch variable at line %s describe the same root" %
                                    s.get("l"), where(s, fn), "exact arm %s is the root of a x^2 - b x + c with c/b = %s and "
                                    "4ac/b^2 = %s, but the expansion arm is %s and the switch variable %s" %
                                    (E, sp.cancel(c_ / b_) if pn.degree() == 1 else "?",
                                     sp.cancel(4 * a_ * c_ / b_ ** 2) if pn.degree() == 1 else "?", A, t),
                                    function=fn["full"], construct="quadratic arms line-group %d" % n)
                else:
                    for br in (th, el):
                        if br is not None and br.get("k") == "Block":
                            scan(br, env.copy())
                # invalidate what the branches assign
                for br in (th, el):
                    if br is not None:
                        for x in C.walk_stmt(br):
                            for y in C.walk(x) if x.get("k") not in ("Block", "If", "For", "While") else ():
                                if y.get("k") == "Bin" and y["op"].endswith("=") and y["op"] not in ("==", "<=", ">=", "!="):
                                    kk = conv.key(y["a"])
                                    if kk:
                                        env.vals.pop(kk, None)
            elif k in ("While", "For", "Do"):
                body = s.get("body")
                if body is not None and body.get("k") == "Block":
                    e2 = Env()
                    scan(body, e2)
            else:
                for y in C.walk(s):
                    if y.get("k") == "Bin" and y["op"].endswith("=") and y["op"] not in ("==", "<=", ">=", "!="):
                        kk = conv.key(y["a"])
                        if kk:
                            env.vals.pop(kk, None)
                    if y.get("k") == "Un" and y["op"] in ("pre++", "post++", "pre--", "post--"):
                        kk = conv.key(y["x"])
                        if kk:
                            env.vals.pop(kk, None)

    scan(fn["body"], Env())
    chk.floor("H6", n, 2)


def ratzero(x):
    return sp.cancel(sp.together(x)) == 0


def single_assign(s, env, conv):
    """(assignment, environment) when the arm is `[const locals;] x = e;` (macro blocks ignored), else None."""
    if s is None:
        return None
    env2 = env.copy()
    if s.get("k") == "Block":
        body = [x for x in s["s"] if x.get("k") not in ("Null",) and not (x.get("k") == "Block" and x.get("mac"))]
        while body and body[0].get("k") == "Decl":
            for d in body[0]["d"]:
                if d.get("init") is None:
                    return None
                try:
                    env2.vals[("l", d["id"])] = conv.conv(d["init"], env2)
                except AnalysisBroken:
                    return None
            body = body[1:]
        if len(body) != 1:
            return None
        s = body[0]
    e = C.strip_casts(s)
    if e.get("k") == "Bin" and e["op"] == "=":
        return e, env2
    return None


def special_arms(chk, unit, metal_ions):
    """P2 for IonizationStateCalculator::calculate_ionization_state: literal arms are in [0,1], set every tracked ion,
    and the tracked stages of one element sum to at most 1."""
    cands = [f for f in unit.funcs("IonizationStateCalculator::calculate_ionization_state")
             if f.get("body") and any("IonizationVariables" in p["t"] for p in f["params"])]
    if len(cands) != 1:
        raise AnalysisBroken("per-cell IonizationStateCalculator::calculate_ionization_state not found")
    fn = cands[0]
    chk.analysed(function=fn["full"])
    n = literal_arms(chk, fn, metal_ions)
    chk.floor("P2i", n, 2)


def literal_arms(chk, fn, metal_ions):
    """Blocks whose set_ionic_fraction calls all store literals - directly, or through a const local that is a literal or a
    choice `c ? literal : literal` (every choice is a case of its own)."""
    import itertools
    defs = {}
    for st in C.walk_stmt(fn["body"]):
        if st.get("k") == "Decl":
            for d in st["d"]:
                if d.get("init") is not None and "const" in (d.get("t") or ""):
                    defs[d["id"]] = C.strip_casts(d["init"])

    def lit(e):
        e = C.strip_casts(e)
        while e.get("k") == "Paren":
            e = C.strip_casts(e["x"])
        if e.get("k") in ("Float", "Int"):
            return float(e["v"])
        return None

    def choices(e):
        """(key, [values]) of a literal-valued argument; key None for a plain literal"""
        e = C.strip_casts(e)
        if lit(e) is not None:
            return None, [lit(e)]
        if e.get("k") == "Ref" and e.get("id") in defs:
            d = defs[e["id"]]
            if lit(d) is not None:
                return None, [lit(d)]
            if d.get("k") == "Cond" and lit(d["a"]) is not None and lit(d["b"]) is not None:
                return e["id"], [lit(d["a"]), lit(d["b"])]
        return None, None
    n = 0
    for s in C.walk_stmt(fn["body"]):
        if s.get("k") != "Block":
            continue
        direct = [C.strip_casts(st) for st in s["s"] if C.is_call(C.strip_casts(st), name="set_ionic_fraction")]
        if not direct:
            continue
        ch = [(C.strip_casts(st["a"][0]).get("n"),) + choices(st["a"][1]) for st in direct]
        if not all(c[2] is not None for c in ch):
            continue
        if not ({c[0] for c in ch} & metal_ions):
            continue
        keys = sorted({c[1] for c in ch if c[1] is not None})
        for pick in itertools.product((0, 1), repeat=len(keys)):
            sel = dict(zip(keys, pick))
            vals = {nm: (vs[sel[key]] if key is not None else vs[0]) for nm, key, vs in ch}
            case = "" if not keys else " (case %s)" % ", ".join("%s = %s" % (nm, vals[nm]) for nm, key, vs in ch if key is not None)[:80]
            n += 1
            chk.require(metal_ions <= set(vals), "P2", "special-case arm at line %s sets every tracked metal ion%s" % (s.get("l"), case),
                        where(s, fn), "ions not set in this arm: %s (they keep the value of the previous iteration)" %
                        sorted(metal_ions - set(vals)), function=fn["full"], construct="exhaustive special case")
            per = {}
            for nm, v in vals.items():
                m = re.match(r"ION_([A-Za-z]+)_", nm or "")
                if m:
                    per.setdefault(m.group(1), []).append(v)
            bad = {el: vs for el, vs in per.items() if sum(vs) > 1.0 or min(vs) < 0.0 or max(vs) > 1.0}
            n += 1
            chk.require(not bad, "P2", "special-case arm at line %s: literal fractions are in [0,1] and sum to at most 1 per "
                        "element%s" % (s.get("l"), case), where(s, fn), "elements with unphysical literals: %s" % bad,
                        function=fn["full"], construct="literal sums")
    return n
