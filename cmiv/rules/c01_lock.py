"""C01-R11: a traversal task carries the lock of the subgrid it will traverse.

The tail of PhotonTraversalTaskContext::execute (buffer hand-over, estimator updates) is not synchronised by anything but
the task's dependency: "every packet is accounted for exactly once for every interleaving" needs two traversals of one
subgrid never to overlap, i.e. every task of type TASKTYPE_PHOTON_TRAVERSAL must depend on the lock of *the subgrid whose
index it stores*.  For every task object that is given that type, anywhere in the library:

  * the argument E of its set_subgrid(E) and the object X of its set_dependency(X.get_dependency()) are resolved through
    const locals and reference locals to a *subgrid identity*:  `*creator.get_subgrid(E1)` -> index E1,  `*it` -> the
    subgrid the iterator `it` stands on,  `it.get_index()` -> the same;
  * the two identities must be the same term.

Two different index expressions, or the loop's current subgrid on one side and an index read from another structure on the
other, mean that the task locks one subgrid and traverses another (they coincide only for degenerate layouts).  An index
that is a counter stepping alongside the iterator is not read (exit 2).
"""
from .. import cfg as C
from ..astdb import AnalysisBroken, where

TRAVERSAL = "TASKTYPE_PHOTON_TRAVERSAL"


def _decls(fn):
    out = {}
    for s in C.walk_stmt(fn["body"]):
        if s.get("k") == "Decl":
            for d in s["d"]:
                out[d["id"]] = d
        if s.get("k") in ("For",) and s.get("init") is not None and s["init"].get("k") == "Decl":
            for d in s["init"]["d"]:
                out[d["id"]] = d
    return out


def _is_iterator(t):
    t = t or ""
    return "iterator" in t.lower()


def rule_R11(chk, lib):
    n = 0
    seen = set()
    # helper methods that are called from another method of their class are read where they are called (inlined), with
    # their parameters bound to the arguments
    called = set()
    by_cls = {}
    for fn in lib.decls:
        if fn["kind"] == "function" and fn.get("body") is not None and not fn.get("dependent") and fn.get("cls"):
            by_cls.setdefault(fn["cls"], []).append(fn)
    for cls, fns in by_cls.items():
        names = {f["full"].split("(")[0] for f in fns}
        for f in fns:
            for x in C.walk_stmt(f["body"]):
                if x.get("k") == "Call" and x.get("fn") in names and x["fn"] != f["full"].split("(")[0]:
                    called.add(x["fn"])
    for fn0 in lib.decls:
        if fn0["kind"] != "function" or fn0.get("body") is None or fn0.get("dependent"):
            continue
        key = (fn0["full"], fn0.get("file"), fn0.get("line"))
        if key in seen:
            continue
        if fn0["full"].split("(")[0] in called:
            continue
        fn = C.with_inlined_helpers(fn0, by_cls.get(fn0.get("cls"), [])) if fn0.get("cls") else fn0
        typed = {}
        for x in C.walk_stmt(fn["body"]):
            if C.is_call(x, name="set_type") and x.get("obj") is not None and x["a"]:
                a0 = C.strip_casts(x["a"][0])
                o = C.strip_casts(x["obj"])
                if a0.get("n") == TRAVERSAL and o.get("k") == "Ref" and "id" in o:
                    typed.setdefault(o["id"], []).append(x)
        if not typed:
            continue
        seen.add(key)
        chk.analysed(function=fn["full"])
        decls = _decls(fn)

        def norm(e, depth=0):
            """expression with const locals replaced by their initialisers, as text"""
            e = C.strip_casts(e)
            if depth < 6 and e.get("k") == "Ref" and e.get("id") in decls:
                d = decls[e["id"]]
                t = d.get("t") or ""
                if d.get("init") is not None and ("const" in t) and not _is_iterator(t) and "&" not in t:
                    return norm(d["init"], depth + 1)
            if e.get("k") == "Ref":
                return "%s#%s" % (e.get("n"), e.get("id")) if "id" in e else (e.get("n") or "?")
            if e.get("k") == "Call":
                args = ",".join(norm(a, depth + 1) for a in e.get("a", []))
                obj = norm(e["obj"], depth + 1) + "." if e.get("obj") is not None else ""
                return "%s%s(%s)" % (obj, e.get("n") or e.get("fn") or "?", args)
            if e.get("k") == "Mem":
                return C.pretty(e)
            if e.get("k") == "Bin":
                return "(%s %s %s)" % (norm(e["a"], depth + 1), e["op"], norm(e["b"], depth + 1))
            return C.pretty(e)

        def identity_of_index(e):
            e0 = C.strip_casts(e)
            if e0.get("k") == "Ref" and e0.get("id") in decls:
                d = decls[e0["id"]]
                if d.get("init") is not None and "const" in (d.get("t") or "") and not _is_iterator(d.get("t")):
                    return identity_of_index(d["init"])
            if e0.get("k") == "Call" and e0.get("n") == "get_index" and e0.get("obj") is not None and not e0.get("a"):
                o = C.strip_casts(e0["obj"])
                if o.get("k") == "Ref" and _is_iterator(o.get("t")):
                    return ("iter", o["id"], o.get("n"))
            return ("idx", norm(e0), C.pretty(e0))

        def identity_of_subgrid(e, depth=0):
            e0 = C.strip_casts(e)
            while e0.get("k") == "Paren":
                e0 = C.strip_casts(e0["x"])
            if depth > 6:
                return None
            if e0.get("k") == "Ref" and e0.get("id") in decls:
                d = decls[e0["id"]]
                if d.get("init") is not None and "&" in (d.get("t") or ""):
                    return identity_of_subgrid(d["init"], depth + 1)
                return None
            inner = None
            if e0.get("k") == "Un" and e0.get("op") == "*":
                inner = C.strip_casts(e0["x"])
            elif e0.get("k") == "Call" and e0.get("op") == "*" and e0.get("obj") is not None and not e0.get("a"):
                inner = C.strip_casts(e0["obj"])
            if inner is None:
                return None
            if inner.get("k") == "Call" and inner.get("n") == "get_subgrid" and len(inner.get("a", [])) == 1:
                return identity_of_index(inner["a"][0])
            if inner.get("k") == "Ref" and _is_iterator(inner.get("t")):
                return ("iter", inner["id"], inner.get("n"))
            return None

        for tid, sites in sorted(typed.items()):
            subs = [x for x in C.walk_stmt(fn["body"]) if C.is_call(x, name="set_subgrid") and x.get("obj") is not None and
                    C.strip_casts(x["obj"]).get("id") == tid and x["a"]]
            deps = [x for x in C.walk_stmt(fn["body"]) if C.is_call(x, name="set_dependency") and x.get("obj") is not None and
                    C.strip_casts(x["obj"]).get("id") == tid and x["a"]]
            uniq = []
            for x in subs + deps:
                if not any(x is y for y in uniq):
                    uniq.append(x)
            subs = [x for x in uniq if x.get("n") == "set_subgrid"]
            deps = [x for x in uniq if x.get("n") == "set_dependency"]
            loc = where(sites[0], fn)
            if len(subs) != 1:
                raise AnalysisBroken("%s: the traversal task created at line %s has %d set_subgrid calls" %
                                     (fn["full"], sites[0].get("l"), len(subs)))
            n += 1
            if not deps:
                chk.fail("R11", "%s: the traversal task created at line %s depends on the lock of its subgrid" %
                         (fn["full"].split("(")[0], sites[0].get("l")), loc, "the task is given no dependency at all: two "
                         "traversals of one subgrid can run at once", function=fn["full"], construct="traversal task lock")
                continue
            want = identity_of_index(subs[0]["a"][0])
            verdicts = []
            for dcall in deps:
                d0 = C.strip_casts(dcall["a"][0])
                hops = 0
                while d0.get("k") == "Ref" and d0.get("id") in decls and decls[d0["id"]].get("init") is not None and hops < 4:
                    d0 = C.strip_casts(decls[d0["id"]]["init"])      # a lock named in a local first
                    hops += 1
                got = None
                if d0.get("k") == "Call" and d0.get("n") == "get_dependency" and d0.get("obj") is not None:
                    got = identity_of_subgrid(d0["obj"])
                if got is None:
                    raise AnalysisBroken("%s: the dependency `%s` of the traversal task at line %s is not the lock of a subgrid "
                                         "that can be identified" % (fn["full"], C.pretty(d0)[:60], dcall.get("l")))
                if got[:2] == want[:2]:
                    verdicts.append((True, got, dcall))
                    continue
                if got[0] != want[0]:
                    # an index that is a loop counter next to the iterator: not read
                    idx = want if want[0] == "idx" else got
                    e_idx = C.strip_casts(subs[0]["a"][0]) if want[0] == "idx" else None
                    if e_idx is not None and e_idx.get("k") == "Ref" and e_idx.get("id") in decls and \
                            "const" not in (decls[e_idx["id"]].get("t") or ""):
                        raise AnalysisBroken("%s: the subgrid index of the traversal task at line %s is a counter stepping next "
                                             "to an iterator" % (fn["full"], sites[0].get("l")))
                verdicts.append((False, got, dcall))
            okk = any(v[0] for v in verdicts)
            bad = [v for v in verdicts if not v[0]]

            def show(t):
                return ("subgrid index `%s`" % t[2]) if t[0] == "idx" else ("the subgrid the iterator `%s` stands on" % t[2])
            chk.require(okk, "R11", "%s: the traversal task created at line %s depends on the lock of the subgrid it traverses" %
                        (fn["full"].split("(")[0], sites[0].get("l")), where(bad[0][2], fn) if bad else loc,
                        "the task stores %s but takes the lock of %s: it excludes work on that other subgrid, not a second "
                        "traversal of its own - two threads can run the unsynchronised hand-over of one subgrid at once (packets "
                        "lost or counted twice, buffers orphaned)" % (show(want), show(bad[0][1]) if bad else "?"),
                        function=fn["full"], construct="traversal task lock")
    return n
