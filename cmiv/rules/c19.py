"""C19 - the simulation time line never overshoots and ends exactly on time.

A small abstract domain on the integer variables of TimeLine (Z zero, P power of two >= 1,
P2 power of two >= 2, PZ power of two or zero, T unknown) plus the fact "the step divides
the time remaining" is propagated over the CFG of every constructor and of advance():
 T1 the stored minimum / maximum steps are powers of two; T2 _current_time is only advanced by a
 step that is a power of two and divides the remaining time (established by the exit of the
 divisibility loop on every path); T3 no modulus by a possibly-zero value; T4 the step only
 shrinks and early exits do not move time; T5 the reported step / time are the images of the
 integers actually used and the result flag is `time < end`; T6 save/restore round-trips every
 state member (C09 rules on TimeLine); T7 the RHD driver stops stepping when advance() says so.
If s >= 1 divides 2^63 - t then t < t + s <= 2^63 and s' | 2^63 - (t+s) for the next power of
two s' <= ... : time increases strictly, never passes the end and can only stop at the end.
"""
import sympy as sp

from .. import cfg as C
from .. import grammar as G
from ..astdb import AnalysisBroken, where
from ..sym import Converter, Env, S

LEVEL = "proof"
ORDER = {"Z": 0, "P": 1, "P2": 1, "PZ": 2, "T": 3}


def is_pow2(v):
    return v is not None and v > 0 and (v & (v - 1)) == 0


class Dom:
    """Abstract transfer for integer expressions."""

    unit = None
    _memo = {}
    _depth = 0

    def __init__(self, fn):
        self.fn = fn

    def call_value(self, e, st):
        """Abstract return value of a call to a member function of the same class whose body is available: the join of the
        values its return statements can produce (callee analysed with the abstract values of the integer arguments)."""
        fnq = e.get("fn") or ""
        cls = (self.fn.get("full") or "").split("::")[0]
        if Dom.unit is None or not fnq.startswith(cls + "::") or Dom._depth > 3:
            return "T"
        cands = [d for d in Dom.unit.functions.get(fnq, []) if d.get("body") and not d.get("dependent")]
        if len(cands) != 1:
            return "T"
        callee = cands[0]
        init = {}
        for p2, a in zip(callee["params"], e["a"]):
            if "int" in p2["t"] or "long" in p2["t"]:
                init[("l", p2["id"], p2["n"])] = self.val(a, st)
        for k, v in dict(st).items():
            if k[0] == "m":
                init[k] = v
        key = (fnq, tuple(sorted(init.items())))
        if key in Dom._memo:
            return Dom._memo[key]
        Dom._memo[key] = "T"
        Dom._depth += 1
        try:
            g, ex, dom = analyse(callee, init)
        finally:
            Dom._depth -= 1
        outs = set()
        for nd in g.nodes:
            if nd.kind == "return" and nd.ast.get("x") is not None:
                for st2 in ex.at.get(nd.id, ()):
                    outs.add(dom.val(nd.ast["x"], st2[0]))
        r = "T"
        if outs and outs <= {"P2"}:
            r = "P2"
        elif outs and outs <= {"P", "P2"}:
            r = "P"
        elif outs and outs <= {"Z"}:
            r = "Z"
        elif outs and outs <= {"P", "P2", "PZ", "Z"}:
            r = "PZ"
        Dom._memo[key] = r
        return r

    def key(self, e):
        e = C.strip_casts(e)
        m = C.member_name(e)
        if m:
            return ("m", m)
        if e.get("k") == "Ref" and "id" in e:
            return ("l", e["id"], e["n"])
        return None

    def val(self, e, st):
        e = C.strip_casts(e)
        v = C.const_int(e)
        if v is not None:
            if v == 0:
                return "Z"
            if is_pow2(v):
                return "P2" if v >= 2 else "P"
            return "T"
        k = self.key(e)
        if k is not None:
            return dict(st).get(k, "T")
        if e.get("k") == "Call" and (e.get("fn") or "").endswith("max") and len(e["a"]) == 2:
            a, b = self.val(e["a"][0], st), self.val(e["a"][1], st)
            if a in ("P", "P2") and b in ("P", "P2", "PZ", "Z"):
                return "P2" if "P2" in (a, b) and a == b else "P"
            if b in ("P", "P2") and a in ("P", "P2", "PZ", "Z"):
                return "P"
            return "T"
        if e.get("k") == "Call" and e.get("fn") and not e.get("op"):
            return self.call_value(e, st)
        if e.get("k") == "Bin" and e["op"] == ">>" and C.const_int(e["b"]) is not None:
            a = self.val(e["a"], st)
            return self.shift(a)
        if e.get("k") == "Bin" and e["op"] == "/" and C.const_int(e["b"]) == 2:
            return self.shift(self.val(e["a"], st))
        return "T"

    @staticmethod
    def shift(a):
        return {"P2": "P", "P": "PZ", "PZ": "PZ", "Z": "Z"}.get(a, "T")


def analyse(fn, init):
    """Explore fn with state = (abstract values, facts). Returns (cfg, exploration, dom)."""
    g = C.CFG(fn)
    dom = Dom(fn)

    def setv(st, k, v):
        d = dict(st)
        d[k] = v
        return tuple(sorted(d.items()))

    def tr(node, state):
        vals, facts = state
        if node.kind == "branch":
            e = C.strip_casts(node.ast)
            outs = None
            # boolean flag locals set from literals: a test of the flag prunes the impossible edge
            fk = dom.key(e) if e.get("k") == "Ref" else None
            if fk is not None and dict(vals).get(fk) in ("B0", "B1"):
                return [(dict(vals)[fk] == "B1", state)]
            if e.get("k") == "Bin" and e["op"] in (">", ">=") and C.const_int(e["b"]) in (1, 2) and dom.key(e["a"]) is not None:
                c0 = C.const_int(e["b"])
                if (e["op"] == ">" and c0 == 1) or (e["op"] == ">=" and c0 == 2):
                    k = dom.key(e["a"])
                    cur = dict(vals).get(k, "T")
                    tv = {"PZ": "P2", "P": "P2", "P2": "P2", "Z": None, "T": "T"}[cur]
                    fv = {"PZ": "PZ", "P": "P", "P2": None, "Z": "Z", "T": "T"}[cur]
                    res = []
                    if tv is not None:
                        res.append((True, (setv(vals, k, tv), facts)))
                    if fv is not None:
                        res.append((False, (setv(vals, k, fv), facts)))
                    return res
            if e.get("k") == "Bin" and e["op"] in ("==", "!=", ">", "<") and C.const_int(e["b"]) == 0:
                a = C.strip_casts(e["a"])
                k = dom.key(a)
                if k is not None and e["op"] in ("==", "!="):
                    zero_on = (e["op"] == "==")
                    cur = dict(vals).get(k, "T")
                    vz = "Z"
                    vnz = {"PZ": "P", "P": "P", "P2": "P2", "T": "T", "Z": "Z"}[cur]
                    return [(zero_on, (setv(vals, k, vz), facts)), (not zero_on, (setv(vals, k, vnz), facts))]
                if a.get("k") == "Bin" and a["op"] == "%" and e["op"] in (">", "!="):
                    # (t % x) > 0  true  => x >= 2 (x is a power of two);  false => x divides t
                    k = dom.key(a["b"])
                    t = dom.key(a["a"])
                    if k is not None:
                        cur = dict(vals).get(k, "T")
                        tv = "P2" if cur in ("P", "P2") else cur
                        f2 = frozenset(facts | {("div", t, k)})
                        return [(True, (setv(vals, k, tv), facts)), (False, (vals, f2))]
            return [(None, state)]
        if node.kind in ("stmt", "decl", "init") and node.ast is not None and node.ast.get("k") != "Abort":
            if node.kind == "init":
                if node.ast.get("member") and node.ast.get("x") is not None:
                    vals = setv(vals, ("m", node.ast["member"]), dom.val(node.ast["x"], vals))
                return [(None, (vals, facts))]
            if node.kind == "decl":
                for d in node.ast["d"]:
                    if d.get("init") is not None:
                        k = ("l", d["id"], d["n"])
                        bi = C.strip_casts(d["init"])
                        if bi.get("k") == "Bool":
                            vals = setv(vals, k, "B1" if bi["v"] else "B0")
                            continue
                        vals = setv(vals, k, dom.val(d["init"], vals))
                        facts = frozenset(f for f in facts if k not in f)
                        # alias facts: a const local defined as MAX - _current_time
                        ie = C.strip_casts(d["init"])
                        if ie.get("k") == "Bin" and ie["op"] == "-" and is_pow2(C.const_int(ie["a"]) or 0) and \
                                C.member_name(ie["b"]) == "_current_time":
                            facts = frozenset(facts | {("remaining", k, C.const_int(ie["a"]))})
                return [(None, (vals, facts))]
            e = C.strip_casts(node.ast)
            if e.get("k") == "Bin" and e["op"] in ("=", ">>=", "/=", "+=", "-=", "*=", "<<="):
                k = dom.key(e["a"])
                if k is not None:
                    cur = dict(vals).get(k, "T")
                    if e["op"] == "=" and C.strip_casts(e["b"]).get("k") == "Bool":
                        nv = "B1" if C.strip_casts(e["b"])["v"] else "B0"
                    elif e["op"] == "=":
                        nv = dom.val(e["b"], vals)
                    elif e["op"] == ">>=" and C.const_int(e["b"]) is not None:
                        nv = cur
                        for _ in range(C.const_int(e["b"])):
                            nv = Dom.shift(nv)
                    elif e["op"] == "/=" and C.const_int(e["b"]) == 2:
                        nv = Dom.shift(cur)
                    else:
                        nv = "T"
                    vals = setv(vals, k, nv)
                    # writing x or _current_time invalidates divisibility / remaining-time facts about them
                    facts = frozenset(f for f in facts if k not in f and
                                      not (k == ("m", "_current_time") and f[0] in ("div", "remaining")))
                    if k == ("m", "_current_time"):
                        facts = frozenset(facts | {("moved",)})
            elif e.get("k") == "Un" and e["op"] in ("pre++", "post++", "pre--", "post--"):
                k = dom.key(e["x"])
                if k is not None:
                    vals = setv(vals, k, "T")
                    facts = frozenset(f for f in facts if k not in f)
            return [(None, (vals, facts))]
        return [(None, state)]
    ex = C.explore(g, (tuple(sorted(init.items())), frozenset()), tr)
    return g, ex, dom


def run(chk, prog):
    chk.explanation = (
        "Power-of-two typestate and a divisibility fact are propagated over the CFG of TimeLine's constructors and "
        "of advance(): the stored step limits and the step that is added are powers of two >= 1, the addition is "
        "dominated on every path by the exit of the loop `remaining % step > 0`, no modulus is taken by a possibly "
        "zero value, early exits do not move time, the reported values are the images of the integers used, the "
        "result flag is time < end, every state member is round-tripped, and the driver stops stepping on false. "
        "The lifting argument (DESIGN.md C19) needs no induction over the history. The floating-point comparison that "
        "enforces `no larger than requested` is located, not evaluated.")
    chk.assumptions += ["unsigned 64-bit arithmetic; TIMELINE_MAX_INTEGER_TIMELINE_SIZE is 2^63 as defined in the header",
                        "to_physical_time is the affine map checked by T5 with a positive first factor (end > start)"]
    u = prog.umbrella
    Dom.unit = u
    Dom._memo = {}
    chk.analysed(unit="umbrella")
    rec = u.record("TimeLine")
    fields = [f["n"] for f in rec["fields"]]
    for need in ("_minimum_timestep", "_maximum_timestep", "_current_time", "_conversion_factors"):
        if need not in fields:
            raise AnalysisBroken("TimeLine::%s vanished" % need)
    methods = u.methods_of("TimeLine")
    ctors = [m for m in methods if m.get("ctor") and not m.get("copyctor")]
    prim = [m for m in ctors if not any("RestartReader" in p["t"] for p in m["params"])]
    if not prim:
        raise AnalysisBroken("TimeLine primary constructor not found")
    n = 0
    # ---- T1 ----------------------------------------------------------------------------
    for ct in prim:
        chk.analysed(function=ct["full"])
        g, ex, dom = analyse(ct, {})
        for m in ("_minimum_timestep", "_maximum_timestep"):
            vals = {dict(st[0]).get(("m", m), "T") for st in ex.at.get(g.exit.id, ())}
            n += 1
            chk.require(bool(vals) and vals <= {"P", "P2"}, "T1", "%s leaves %s a power of two >= 1" % (ct["full"], m),
                        where(ct), "at the end of the constructor %s is %s (Z zero, PZ power of two or zero, T unknown)"
                        % (m, sorted(vals)), function=ct["full"], construct=m)
        vals = {dict(st[0]).get(("m", "_current_time"), "T") for st in ex.at.get(g.exit.id, ())}
        n += 1
        chk.require(vals == {"Z"}, "T2", "%s starts the time line at integer time 0" % ct["full"], where(ct),
                    "_current_time after construction is %s" % sorted(vals), function=ct["full"],
                    construct="_current_time initial")
    # ---- who writes _current_time ----------------------------------------------------------
    writers = set()
    for m in methods:
        for x in C.walk_stmt(m["body"]):
            if x.get("k") in ("Bin", "Un"):
                tgt = x.get("a") if x["k"] == "Bin" and x["op"] in ("=", "+=", "-=", "*=", "/=", ">>=", "<<=") else \
                    (x.get("x") if x["k"] == "Un" and x["op"] in ("pre++", "post++", "pre--", "post--") else None)
                if tgt is not None and C.member_name(tgt) == "_current_time":
                    writers.add(m["name"])
    n += 1
    chk.require(writers <= {"TimeLine", "advance"}, "T2", "_current_time is written only by constructors and advance()",
                where(rec), "written by %s" % sorted(writers), function="TimeLine", construct="_current_time writers")
    # ---- advance ----------------------------------------------------------------------------
    adv = u.func("TimeLine::advance")
    chk.analysed(function=adv["full"])
    init = {("m", "_minimum_timestep"): "P", ("m", "_maximum_timestep"): "P", ("m", "_current_time"): "T"}
    g, ex, dom = analyse(adv, init)
    # a const local `new_time = _current_time + step` that is then stored (`_current_time = new_time`) is the same update
    sum_alias = {}
    for node in g.nodes:
        if node.kind == "decl":
            for d in node.ast["d"]:
                ie = C.strip_casts(d["init"]) if d.get("init") is not None else None
                if ie is not None and ie.get("k") == "Bin" and ie["op"] == "+" and (d.get("t") or "").startswith("const "):
                    for p2, q2 in ((ie["a"], ie["b"]), (ie["b"], ie["a"])):
                        if C.member_name(p2) == "_current_time" and dom.key(q2) is not None:
                            sum_alias[("l", d["id"], d["n"])] = (dom.key(q2), node)
    adds = []
    for node in g.nodes:
        if node.kind == "stmt" and node.ast.get("k") == "Bin" and C.member_name(node.ast["a"]) == "_current_time":
            adds.append(node)

    def add_step(node):
        """Key of the step that the write `node` adds to the time, and the node at which the sum is formed."""
        if node.ast["op"] == "+=":
            return dom.key(node.ast["b"]), node
        if node.ast["op"] == "=":
            k = dom.key(node.ast["b"])
            if k in sum_alias:
                return sum_alias[k]
            ie = C.strip_casts(node.ast["b"])
            if ie.get("k") == "Bin" and ie["op"] == "+":
                for p2, q2 in ((ie["a"], ie["b"]), (ie["b"], ie["a"])):
                    if C.member_name(p2) == "_current_time" and dom.key(q2) is not None:
                        return dom.key(q2), node
        return None, None
    n += 1
    okadd = len(adds) == 1 and add_step(adds[0])[0] is not None
    chk.require(okadd, "T2", "advance() moves time by exactly one `_current_time += step`", where(adv),
                "%d writes of _current_time in advance()%s" % (len(adds), "" if len(adds) != 1 else
                                                                ": `%s` is not time + step" % C.pretty(adds[0].ast)),
                function=adv["full"], construct="single time update")
    step_key = None
    time_alias = set()
    if okadd:
        node = adds[0]
        step_key, sum_node = add_step(node)
        if node.ast["op"] == "=" and dom.key(node.ast["b"]) in sum_alias:
            time_alias.add(dom.key(node.ast["b"]))
        for chk_node in ([node] if sum_node is node else [sum_node, node]):
            for st in ex.at.get(chk_node.id, ()):
                vals, facts = st
                v = dict(vals).get(step_key, "T")
                n += 1
                chk.require(v in ("P", "P2"), "T1", "the step added to the time is a power of two >= 1", where(node.ast, adv),
                            "on the path through lines %s the step is %s when it is added" %
                            (ex.path_lines(chk_node.id, st), v), function=adv["full"], construct="step typestate")
                rem = [f for f in facts if f[0] == "remaining" and f[2] == 2 ** 63]
                divs = [f for f in facts if f[0] == "div" and f[2] == step_key and any(f[1] == r[1] for r in rem)]
                n += 1
                chk.require(bool(divs), "T2", "the step divides the time remaining when it is added", where(node.ast, adv),
                            "on the path through lines %s the addition is not dominated by the exit of a loop/test "
                            "`(2^63 - _current_time) %% step == 0` with step and time unchanged since: the time line can "
                            "overshoot or miss the end time" % ex.path_lines(chk_node.id, st), function=adv["full"],
                            construct="divisibility before update")
    # ---- T3 modulus by possibly zero ---------------------------------------------------------
    for node in g.nodes:
        if node.ast is None or node.kind == "marker" or node.ast.get("k") in ("Abort",):
            continue
        body = node.ast if node.kind != "decl" else {"k": "Decl", "d": node.ast["d"]}
        for x in C.walk(body):
            if x.get("k") == "Bin" and x["op"] in ("%", "/") and "long" in x.get("t", ""):
                k = dom.key(x["b"])
                if k is None:
                    continue
                for st in ex.at.get(node.id, ()):
                    v = dict(st[0]).get(k, "T")
                    n += 1
                    chk.require(v in ("P", "P2"), "T3", "divisor of `%s` is never zero" % C.pretty(x), where(x, adv),
                                "on the path through lines %s the divisor is %s (may be zero: undefined behaviour)" %
                                (ex.path_lines(node.id, st), v), function=adv["full"], construct="modulus divisor")
    # ---- T4 the step only shrinks; early exits do not move time ---------------------------------
    if step_key is not None:
        bad = []
        first = None
        for node in g.nodes:
            if node.kind == "decl":
                for d in node.ast["d"]:
                    if ("l", d["id"], d["n"]) == step_key:
                        first = d
            if node.kind == "stmt" and node.ast.get("k") == "Bin" and dom.key(node.ast["a"]) == step_key:
                if not (node.ast["op"] == ">>=" or (node.ast["op"] == "/=" and C.const_int(node.ast["b"]) == 2)):
                    bad.append(C.pretty(node.ast))
        n += 1
        chk.require(first is not None and C.member_name(first.get("init")) == "_maximum_timestep" and not bad, "T4",
                    "the step starts at the configured maximum and is only ever halved", where(adv),
                    "initial value %s, other updates %s" % (C.pretty(first.get("init")) if first else None, bad),
                    function=adv["full"], construct="step monotone")
    const_locals = {}
    for s2 in C.walk_stmt(adv["body"]):
        if s2.get("k") == "Decl":
            for d in s2["d"]:
                if d.get("init") is not None and (d.get("t") or "").startswith("const ") and \
                        C.const_int(d["init"]) is not None:
                    const_locals[d["id"]] = C.const_int(d["init"])

    def const_local_value(e):
        e = C.strip_casts(e)
        return const_locals.get(e.get("id")) if e.get("k") == "Ref" else None

    def ret_value(e, vals):
        """Value of a returned boolean expression under the abstract state: True / False / 'lt_end' / None (unknown)."""
        e = C.strip_casts(e)
        if e.get("k") == "Bool":
            return bool(e["v"])
        v = C.const_int(e)
        if v is not None:
            return bool(v)
        if e.get("k") == "Ref":
            fv = dict(vals).get(dom.key(e))
            return True if fv == "B1" else (False if fv == "B0" else None)
        if e.get("k") == "Bin" and e["op"] == "&&":
            a2, b2 = ret_value(e["a"], vals), ret_value(e["b"], vals)
            if a2 is False or b2 is False:
                return False
            if a2 is True:
                return b2
            if b2 is True:
                return a2
            return None
        if e.get("k") == "Bin" and e["op"] == "<" and (C.member_name(e["a"]) == "_current_time" or
                                                      dom.key(e["a"]) in time_alias) and \
                (C.const_int(e["b"]) == 2 ** 63 or const_local_value(e["b"]) == 2 ** 63):
            return "lt_end"
        return None
    ret_nodes = [nd for nd in g.nodes if nd.kind == "return" and nd.ast.get("x") is not None]
    for node in ret_nodes:
        sts = ex.at.get(node.id, ())
        failing = [st for st in sts if ret_value(node.ast["x"], st[0]) is False]
        if not failing:
            continue
        moved = [st for st in failing if ("moved",) in st[1]]
        n += 1
        chk.require(not moved, "T4", "an early stop (result false, line %s) does not move time" % node.line(),
                    where(node.ast, adv), "a path returns false after _current_time was advanced (lines %s)" %
                    (ex.path_lines(node.id, moved[0]) if moved else ""), function=adv["full"], construct="early exit")
    # ---- T5 reported values ------------------------------------------------------------------
    conv = Converter()
    env = Env()
    tpi = u.func("TimeLine::to_physical_time_interval")
    tp = u.func("TimeLine::to_physical_time")
    c0, c1, t = S("cf0", real=True), S("cf1", real=True), S("t", real=True)

    def image(fn, depth=0):
        """Value returned by a conversion function for the integer argument t (const locals substituted, calls to the
        other conversion functions of the class inlined)."""
        rets = [s for s in C.walk_stmt(fn["body"]) if s.get("k") == "Return"]
        if len(rets) != 1:
            raise AnalysisBroken("%s: expected one return" % fn["full"])
        e = Env()
        e.vals[("l", fn["params"][0]["id"])] = t
        e.vals[("i", ("m", "_conversion_factors"), 0)] = c0
        e.vals[("i", ("m", "_conversion_factors"), 1)] = c1
        cv = Converter()

        def hook(call, env2, conv2):
            fq = call.get("fn") or ""
            if fq.startswith("TimeLine::") and depth < 3 and len(call.get("a", [])) == 1:
                cands = [d for d in u.functions.get(fq, []) if d.get("body")]
                if len(cands) == 1:
                    inner = image(cands[0], depth + 1)
                    return inner.xreplace({t: conv2.conv(call["a"][0], env2)})
            return None
        cv.call_hook = hook
        for s2 in fn["body"]["s"]:
            if s2.get("k") == "Decl":
                for d in s2["d"]:
                    if d.get("init") is not None:
                        e.vals[("l", d["id"])] = cv.conv(d["init"], e)
        return cv.conv(rets[0]["x"], e)
    n += 1
    chk.require(sp.simplify(image(tpi) - c0 * t) == 0, "T5", "to_physical_time_interval is the linear map cf0 * dt",
                where(tpi), "returns %s" % image(tpi), function=tpi["full"], construct="interval map")
    n += 1
    chk.require(sp.simplify(image(tp) - (c0 * t + c1)) == 0, "T5", "to_physical_time is the affine map cf0 * t + cf1",
                where(tp), "returns %s" % image(tp), function=tp["full"], construct="time map")
    if adds and step_key is not None:
        after = g.reachable(adds[0].id)
        outs = {}
        for node in g.nodes:
            if node.id in after and node.kind == "stmt" and node.ast.get("k") == "Bin" and node.ast["op"] == "=":
                tgt = C.strip_casts(node.ast["a"])
                if tgt.get("k") == "Ref" and tgt.get("dk") == "ParmVar":
                    outs[tgt["n"]] = node.ast["b"]
        ps = [p["n"] for p in adv["params"]]
        step_out, time_out = ps[1], ps[2]
        so = C.strip_casts(outs.get(step_out, {"k": "None"}))
        to = C.strip_casts(outs.get(time_out, {"k": "None"}))
        n += 1
        chk.require(C.is_call(so, name="to_physical_time_interval") and dom.key(so["a"][0]) == step_key, "T5",
                    "the reported step is the image of the integer step that was added", where(adv),
                    "reported step is %s" % C.pretty(so), function=adv["full"], construct="reported step")
        n += 1
        chk.require(C.is_call(to, name="to_physical_time") and (C.member_name(to["a"][0]) == "_current_time" or
                                                                 dom.key(to["a"][0]) in time_alias), "T5",
                    "the reported time is the image of the updated integer time", where(adv),
                    "reported time is %s" % C.pretty(to), function=adv["full"], construct="reported time")
        okr = True
        detail = ""
        seen_success = False
        for node in ret_nodes:
            for st in ex.at.get(node.id, ()):
                if ("moved",) not in st[1]:
                    continue
                seen_success = True
                rv = ret_value(node.ast["x"], st[0])
                if rv != "lt_end":
                    okr = False
                    detail = "on the path through lines %s the time was advanced but the result is `%s`" % (
                        ex.path_lines(node.id, st), C.pretty(node.ast["x"]))
        n += 1
        chk.require(okr and seen_success, "T5", "advance() returns `time < end` after the update", where(adv),
                    detail or "no path advances the time", function=adv["full"], construct="result flag")
    chk.floor("T1-T5", n, 13)

    # ---- T6: save / restore (the C09 rules, applied to TimeLine) -----------------------------------
    from . import c09
    lib = prog.library()
    W, R = c09.restart_pairs(lib)
    if "TimeLine" not in W or "TimeLine" not in R:
        raise AnalysisBroken("TimeLine restart writer/reader not found")
    wfn, rfn = W["TimeLine"][0], R["TimeLine"][0]
    wi = G.Extractor(wfn, "w", lib).run()
    ri = G.Extractor(rfn, "r", lib).run()
    before = len(chk.obligations)
    c09.compare(chk, "T6", "TimeLine", wfn, rfn, wi, ri)
    written, read = c09.members_written(wi), c09.members_written(ri)
    for f in rec["fields"]:
        m = f["n"]
        inst = "TimeLine::%s is saved and restored" % m
        if m in written and m in read:
            chk.ok("T6", inst, where(rec))
        else:
            mut = c09.mutators(lib, "TimeLine", m)
            chk.fail("T6", inst, "%s:%s" % (where(rec).split(":")[0], f["l"]),
                     "state member %s is %s: a time line restored in the middle of a run does not continue identically"
                     % (m, "modified by %s but not part of the dump" % sorted(mut) if mut else "not part of the dump"),
                     function=rfn["full"], construct=m)
    chk.floor("T6", len(chk.obligations) - before, 9)

    # ---- T7: the driver stops when advance() returns false --------------------------------------------
    ur = prog.unit("TaskBasedRadiationHydrodynamicsSimulation.cpp")
    chk.analysed(unit=ur.name)
    drv = ur.func("TaskBasedRadiationHydrodynamicsSimulation::do_simulation")
    loops = [s for s in C.walk_stmt(drv["body"]) if s.get("k") == "While" and
             any(C.is_call(x, name="advance", cls="TimeLine") for x in C.walk_stmt(s["body"]))]
    okk = False
    detail = "step loop around TimeLine::advance not found"
    if len(loops) >= 1:
        lp = loops[-1]
        flagvars = set()
        for x in C.walk_stmt(lp["body"]):
            if x.get("k") == "Bin" and x["op"] == "=" and any(C.is_call(y, name="advance", cls="TimeLine")
                                                               for y in C.walk(x["b"])):
                flagvars.add(C.ref_key(x["a"]))
            if x.get("k") == "Decl":
                for d in x["d"]:
                    if d.get("init") is not None and any(C.is_call(y, name="advance", cls="TimeLine")
                                                         for y in C.walk(d["init"])):
                        flagvars.add(("local", d["id"], d["n"]))
        # a variable that receives such a flag unchanged carries it as well (has_next_step = timeline_continues)
        grew = True
        while grew:
            grew = False
            for x in C.walk_stmt(lp["body"]):
                if x.get("k") == "Bin" and x["op"] == "=" and C.ref_key(x["b"]) in flagvars and \
                        C.ref_key(x["a"]) not in flagvars:
                    flagvars.add(C.ref_key(x["a"]))
                    grew = True
        conj = []

        def conjuncts(e):
            e = C.strip_casts(e)
            if e.get("k") == "Bin" and e["op"] == "&&":
                conjuncts(e["a"])
                conjuncts(e["b"])
            else:
                conj.append(e)
        conjuncts(lp["c"])
        okk = any(C.ref_key(c) in flagvars for c in conj if c.get("k") == "Ref")
        detail = "loop condition %s does not require the result of advance() (%s)" % (
            C.pretty(lp["c"]), sorted(str(f) for f in flagvars))
    chk.require(okk, "T7", "the RHD step loop continues only while advance() returned true", where(drv), detail,
                function=drv["qname"], construct="step loop condition")
    chk.floor("T7", 1, 1)
