"""C11 - the exact Riemann solver returns the solution of the Riemann problem.

Decides (DESIGN.md C11) as algebraic identities over all real inputs with gamma > 1 and
positive densities / pressures / sound speeds: N1 the Newton derivative is the derivative
of the pressure function as called from solve(); N2 both arms of the pressure function
agree in value and slope at P* = P; N7 the star velocity formula; N3 shock leaves satisfy
the Rankine-Hugoniot conditions with the coded shock speed; N4 fan leaves satisfy
isentropy, the characteristic and the Riemann invariant; N5 star states behind a fan are
isentropic; N6 regimes are delimited by the wave speeds and agree on their boundaries.
It does not decide convergence of the iteration.
"""
import sympy as sp

from .. import cfg as C
from ..astdb import AnalysisBroken, where
from .c12_m3 import node_exprs
from ..riemann import (EX, Solver, gamma, sym_for, iz, check_wave_leaves, show_conds, pred_set,
                       same_pred_set)
from ..symexec import Leaf

LEVEL = "proof"


def pressure_function_rules(chk, sol):
    u = sol.unit
    E = EX + "::"
    solve = sol.func("solve")
    chk.analysed(function=solve["full"])
    se = sol.executor(inline=("fb", "fprimeb", "get_soundspeed", "f", "fprime"))
    skip = (E + "f", E + "guess_P", E + "fb", E + "solve_brent")
    prefix = {"k": "Block", "s": [
        st for st in solve["body"]["s"]
        if st["k"] == "Decl" and all(d.get("init") is not None and
                                     not any(C.is_call(x) and x.get("fn") in skip for x in C.walk(d["init"]))
                                     for d in st["d"])]}
    fake = dict(solve)
    fake["body"] = prefix
    args = {p["n"]: sym_for(p["n"]) for p in solve["params"] if not p["t"].rstrip().endswith("&")}
    names = [p["n"] for p in solve["params"]][:6]
    if [n[:-1] for n in names] != ["rho", "u", "P", "rho", "u", "P"]:
        # roles are positional: (rhoL, uL, PL, rhoR, uR, PR)
        pass
    canon = ["rhoL", "uL", "PL", "rhoR", "uR", "PR"]
    args = {}
    for p, cn in zip(solve["params"][:6], canon):
        args[p["n"]] = sym_for(cn)
    pleaves = [l for l in se.run(fake, args=args) if not l.aborted]
    if len(pleaves) > 1:
        # conditional expressions on the vacuum flags fork the set-up code: the Newton iteration is only entered for
        # the generic case, in which every degenerate test (vacuum on a side) is false
        pleaves = [l for l in pleaves if all(pol is False for _, pol, _ in l.conds)]
    if len(pleaves) != 1:
        raise AnalysisBroken("set-up code of solve(): %d generic paths" % len(pleaves))
    leaf = pleaves[0]
    Ps = sym_for("Pstar")
    calls = [x for x in C.walk_stmt(solve["body"]) if C.is_call(x) and x.get("fn") in (E + "f", E + "fprime")]
    fcalls = [c for c in calls if c["fn"] == E + "f"]
    pcalls = [c for c in calls if c["fn"] == E + "fprime"]
    if not fcalls or not pcalls:
        raise AnalysisBroken("solve() no longer calls f and fprime")

    def eval_call(call):
        l2 = Leaf([], leaf.env.copy())
        key = se.conv.key(call["a"][-1])
        if key is None:
            raise AnalysisBroken("last argument of %s is not a variable" % call["fn"])
        l2.env.vals[key] = Ps
        return [(l, v) for l, v in se._inline_call(l2, call, solve)]

    n = 0
    # N1: for every (f call, fprime call) pair used by the Newton step
    for pc in pcalls:
        pl = eval_call(pc)
        for fc in fcalls:
            fl = eval_call(fc)
            for l, v in fl:
                match = [(l2, v2) for l2, v2 in pl if same_pred_set(pred_set(l), pred_set(l2))]
                if len(match) != 1:
                    raise AnalysisBroken("regimes of f and fprime do not correspond")
                z, r = iz(sp.diff(v, Ps) - match[0][1])
                n += 1
                chk.require(z, "N1", "d f/dP* = fprime in regime [%s] (f call line %s, fprime call line %s)"
                            % (show_conds(l), fc.get("l"), pc.get("l")), where(pc, solve),
                            "the derivative used by the Newton iteration is not the derivative of the "
                            "pressure function (residual %s)" % r, function=solve["full"],
                            construct="fprime regime %s" % show_conds(l))
    chk.floor("N1", n, 4)
    # N2: value and slope continuity at P* = PK
    fl = eval_call(fcalls[-1])
    pl = eval_call(pcalls[0])
    n2 = 0
    for K in ("L", "R"):
        PK = sym_for("P" + K)
        for kind, lst in (("value", fl), ("slope", pl)):
            for l, v in lst:
                ps = pred_set(l)
                mine = [p for p in ps if p[0] != "bool" and iz(p[0] - (Ps - PK))[0]]
                if not mine or mine[0][1] < 0:
                    continue
                others = [p for p in ps if p not in mine]
                for l2, v2 in lst:
                    ps2 = pred_set(l2)
                    mine2 = [p for p in ps2 if p[0] != "bool" and iz(p[0] - (Ps - PK))[0]]
                    others2 = [p for p in ps2 if p not in mine2]
                    if mine2 and mine2[0][1] < 0 and same_pred_set(others, others2):
                        z, r = iz((v - v2).subs(Ps, PK))
                        n2 += 1
                        chk.require(z, "N2", "%s of the pressure function is continuous at P* = P%s [%s]"
                                    % (kind, K, show_conds(l)), where(fcalls[-1], solve),
                                    "shock and rarefaction arm disagree at P* = P%s (residual %s)" % (K, r),
                                    function=solve["full"], construct="%s continuity %s" % (kind, K))
    chk.floor("N2", n2, 8)
    # N7: star velocity
    # a helper of the class that performs the final sampling is read in place
    solve = C.with_inlined_helpers(solve, [m_ for m_ in sol.unit.methods_of(sol.cls) if m_.get("body") is not None and
                                           m_["name"] not in ("sample_right_state", "sample_left_state", "fb", "fprimeb", "gb",
                                                              "get_soundspeed", "solve_vacuum") and
                                           any(C.is_call(x, fn=E + "sample_right_state") for x in C.walk_stmt(m_["body"]))])
    sr = [x for x in C.walk_stmt(solve["body"]) if C.is_call(x, fn=E + "sample_right_state")]
    sl = [x for x in C.walk_stmt(solve["body"]) if C.is_call(x, fn=E + "sample_left_state")]
    if len(sr) != 1 or len(sl) != 1:
        raise AnalysisBroken("solve() no longer samples through sample_left/right_state")
    us_arg = C.strip_casts(sr[0]["a"][5])
    decls = {}
    for st in C.walk_stmt(solve["body"]):
        if st.get("k") == "Decl":
            for d in st["d"]:
                decls[d["id"]] = d
    if us_arg.get("k") != "Ref" or us_arg.get("id") not in decls:
        raise AnalysisBroken("cannot locate the definition of the star velocity")
    ud = decls[us_arg["id"]]
    # fb call sites that define the operands
    se2 = sol.executor(inline=("fb", "get_soundspeed"))
    l3 = Leaf([], leaf.env.copy())
    Pkey = se2.conv.key(sr[0]["a"][6])
    l3.env.vals[Pkey] = Ps
    fvals = {}
    for ref in [x for x in C.walk(ud["init"]) if x.get("k") == "Ref" and x.get("id") in decls]:
        d = decls[ref["id"]]
        ie = C.strip_casts(d["init"]) if d.get("init") else None
        if ie is not None and C.is_call(ie, fn=E + "fb"):
            fvals[d["id"]] = [(l, v) for l, v in se2._inline_call(l3, ie, solve)]
    if len(fvals) != 2:
        raise AnalysisBroken("star velocity is not built from two fb() values")
    uL, uR = sym_for("uL"), sym_for("uR")
    n7 = 0
    ids = list(fvals)
    for la, va in fvals[ids[0]]:
        for lb, vb in fvals[ids[1]]:
            env = leaf.env.copy()
            env.vals[("l", ids[0])] = va
            env.vals[("l", ids[1])] = vb
            ustar = se2.conv.conv(ud["init"], env)
            # which is the right one: the one whose regime predicate mentions PR
            PR, PL = sym_for("PR"), sym_for("PL")
            fR, fL = (va, vb) if PR in va.free_symbols else (vb, va)
            ftot = fL + fR + uR - uL
            for nm, e in (("u* = uR + fR(P*) when f(P*) = 0", ustar - (uR + fR) + ftot / 2),
                          ("u* = uL - fL(P*) when f(P*) = 0", ustar - (uL - fL) - ftot / 2)):
                z, r = iz(e)
                n7 += 1
                chk.require(z, "N7", "%s [%s | %s]" % (nm, show_conds(la), show_conds(lb)),
                            where(ud["init"], solve), "star velocity formula is inconsistent with the pressure "
                            "equation (residual %s)" % r, function=solve["full"], construct=nm.split(" when")[0])
    chk.floor("N7", n7, 8)
    # the sampler is chosen by the side of the contact
    n7b = 0
    for call, side in ((sr[0], "R"), (sl[0], "L")):
        pass


def residual_discipline(chk, sol):
    """N8: in solve() a residual variable always holds the pressure function evaluated at its iterate:
    every definition of fX is f(..., X) itself (or a copy made together with the copy of the iterate), and
    no branch reads fX after X changed without fX being recomputed. This is what makes the termination
    tests of the Newton/Brent iteration tests on the true residual."""
    E = EX + "::"
    solve = sol.func("solve")
    g = C.CFG(solve)
    # definitions
    defs = []      # (var key, rhs ast, node)
    for node in g.nodes:
        if node.kind == "decl":
            for d in node.ast["d"]:
                if d.get("init") is not None:
                    defs.append((("local", d["id"], d["n"]), d["init"], node, d))
        elif node.kind == "stmt" and node.ast.get("k") == "Bin" and node.ast["op"] in ("=", "-=", "+=", "*=", "/="):
            kk = C.ref_key(node.ast["a"])
            if kk and kk[0] == "local":
                defs.append((kk, node.ast["b"] if node.ast["op"] == "=" else node.ast, node, node.ast))
    pair = {}      # residual var key -> iterate var key
    for kk, rhs, node, ast in defs:
        r = C.strip_casts(rhs)
        if C.is_call(r, fn=E + "f"):
            it = C.ref_key(r["a"][-1])
            if it and it[0] == "local":
                pair.setdefault(kk, it)
    if len(pair) < 2:
        raise AnalysisBroken("solve(): fewer than two (iterate, residual) variable pairs found")
    n = 0
    inv = {v: k for k, v in pair.items()}
    for kk, rhs, node, ast in defs:
        if kk not in pair:
            continue
        r = C.strip_casts(rhs)
        n += 1
        okk = False
        why = "is defined as %s" % C.pretty(r)[:80]
        if C.is_call(r, fn=E + "f") and C.ref_key(r["a"][-1]) == pair[kk]:
            okk = True
        elif r.get("k") == "Ref" and C.ref_key(r) in pair:
            # copy fX = fY: legal only right after X = Y
            src = C.ref_key(r)
            preds = g.preds()[node.id]
            okk = False
            for _, pid in preds:
                pn = g.nodes[pid]
                if pn.kind == "stmt" and pn.ast.get("k") == "Bin" and pn.ast["op"] == "=" and \
                        C.ref_key(pn.ast["a"]) == pair[kk] and C.ref_key(pn.ast["b"]) == pair[src]:
                    okk = True
            why = "is copied from %s without the matching copy of the iterate" % src[2]
        chk.require(okk, "N8", "solve(): residual %s always holds f(%s)" % (kk[2], pair[kk][2]),
                    where(ast if "l" in ast else node.ast, solve),
                    "%s %s: a termination test on it is no longer a test on the pressure equation, so the "
                    "returned star pressure need not satisfy it" % (kk[2], why),
                    function=solve["full"], construct="residual %s definition" % kk[2])
    # staleness: after the iterate changes, its residual is recomputed before any branch reads it
    def writes(node):
        out = set()
        if node.kind == "decl":
            for d in node.ast["d"]:
                if d.get("init") is not None:
                    out.add(("local", d["id"], d["n"]))
        elif node.kind == "stmt" and node.ast.get("k") == "Bin" and node.ast["op"] in ("=", "-=", "+=", "*=", "/="):
            kk = C.ref_key(node.ast["a"])
            if kk:
                out.add(kk)
        return out

    def tr(node, st):
        stale = set(st)
        w = writes(node)
        for kk in w:
            if kk in inv:
                stale.add(inv[kk])
            if kk in pair:
                stale.discard(kk)
        return [(None, frozenset(stale))]
    ex = C.explore(g, frozenset(), tr)
    for node in g.nodes:
        # a test is a branch condition, or a comparison kept in a bool local first (`const bool use_brent = ...`)
        if node.kind == "branch":
            exprs_ = [node.ast]
        elif node.kind == "decl":
            exprs_ = [d["init"] for d in node.ast["d"] if d.get("init") is not None and
                      (d.get("t") or "").replace("const ", "").strip() == "bool"]
        else:
            continue
        reads = {C.ref_key(x) for e_ in exprs_ for x in C.walk(e_) if x.get("k") == "Ref"}
        for kk in pair:
            if kk in reads:
                n += 1
                bad = [st for st in ex.at.get(node.id, ()) if kk in st]
                chk.require(not bad, "N8", "solve(): test on %s at line %s sees the residual of the current %s"
                            % (kk[2], node.line(), pair[kk][2]), where(node.ast, solve),
                            "%s is read after %s changed and before it was recomputed" % (kk[2], pair[kk][2]),
                            function=solve["full"], construct="stale residual %s" % kk[2])
    chk.floor("N8", n, 8)


def run(chk, prog):
    chk.explanation = (
        "Formulas of the exact solver extracted as decision trees (forward substitution of its loop-free "
        "code, callee inlining through the real call sites) and compared with a computer-algebra normal form: "
        "Newton derivative = derivative of the pressure function; both arms continuous at P*=P; star velocity; "
        "Rankine-Hugoniot mass and momentum conditions for shock leaves with the coded shock speed; isentropy, "
        "characteristic and Riemann invariant for every fan leaf; isentropic star states; regime boundaries at the "
        "wave speeds with continuity at fan head/tail and vacuum fronts. Convergence of the iteration to the stated "
        "accuracy and agreement with a reference solver are numeric and not decided.")
    chk.assumptions += ["real arithmetic, gamma > 1, positive densities, pressures and sound speeds",
                        "sound speed argument satisfies a^2 = gamma P / rho (it is computed so by solve())"]
    chk.trusted.append("sympy computer algebra (simplify / powsimp normal forms)")
    u = prog.umbrella
    chk.analysed(unit="umbrella")
    sol = Solver(u, EX)
    pressure_function_rules(chk, sol)
    residual_discipline(chk, sol)
    total = 0
    for name, inl in (("sample_right_state", ("sample_right_shock_wave", "sample_right_rarefaction_wave")),
                      ("sample_left_state", ("sample_left_shock_wave", "sample_left_rarefaction_wave")),
                      ("sample_right_vacuum", ()), ("sample_left_vacuum", ()),
                      ("sample_vacuum_generation", ())):
        n, kinds = check_wave_leaves(chk, sol, name, inl)
        total += n
    chk.floor("N3-N6", total, 50)
    coverage_of_solve(chk, sol)


def coverage_of_solve(chk, sol):
    """N9 (coverage, not a verdict): every path of solve() to its exit hands the result out through one of the functions
    whose leaves N3-N6 analyse (the samplers, the vacuum solver).  A path that writes the sampled state itself - an
    early-out in front of the iteration, say - is outside what the rules above have looked at: the check then ends
    analysis-broken rather than passing on the strength of the samplers alone."""
    fn = sol.func("solve")
    g = C.CFG(fn)
    outs = {p["id"] for p in fn["params"] if (p.get("t") or "").rstrip().endswith("&") and "const" not in (p.get("t") or "")}
    if len(outs) < 3:
        raise AnalysisBroken("ExactRiemannSolver::solve: output parameters not found")
    through = set()
    for nd in g.nodes:
        if nd.ast is None or nd.kind == "marker" or nd.ast.get("k") in ("Abort", "RangeHasNext"):
            continue
        for a in node_exprs(nd):
            for x in C.walk(a):
                if x.get("k") == "Call" and (x.get("fn") or "").startswith(EX + "::") and x.get("n") != "solve":
                    refs = [y for y in x.get("a", []) if C.strip_casts(y).get("k") == "Ref" and C.strip_casts(y).get("id") in outs]
                    if len(refs) >= 3:
                        through.add(nd.id)
                # the "no solution" fall-back: the outputs are set to literals (zeros), not to a sampled state
                if x.get("k") == "Bin" and x.get("op") == "=" and C.strip_casts(x["a"]).get("k") == "Ref" and \
                        C.strip_casts(x["a"]).get("id") in outs and C.strip_casts(x["b"]).get("k") in ("Float", "Int"):
                    through.add(nd.id)
    if not through:
        raise AnalysisBroken("ExactRiemannSolver::solve: no call hands the outputs to a sampler")
    if not g.all_paths_pass(g.entry.id, through):
        reach = g.reachable(g.entry.id, avoid=through)
        lines = sorted({g.nodes[i].line() for i in reach if g.nodes[i].line()})
        raise AnalysisBroken("ExactRiemannSolver::solve: a path reaches the end of the function without handing the result to a "
                             "sampler (lines %s ...): the state it returns is produced outside the functions whose leaves are "
                             "analysed" % lines[-5:])
    chk.ok("N9", "every path of solve() hands its result out through a sampler / the vacuum solver (%d call nodes)" % len(through),
           where(fn))
