"""C12-M7: every access to the task queue's heap array stays inside its allocation.

TaskQueue owns `_queue = new size_t[_size]` and moves entries around with index arithmetic on `_current_queue_size` and
local cursors.  A difference-bound abstract interpretation (zones: upper bounds on x - y and on +-x for the unsigned
variables of the method) is run to a fixpoint over the CFG of every method, with widening at loop heads, from the class
invariant 0 <= _current_queue_size <= _size at entry; then every subscript `_queue[e]` and every block move / copy
(memmove, memcpy, std::copy, std::move on ranges) rooted at `_queue` must provably touch only elements 0 .. _size - 1.

Assumption (stated, not decided): callers never add to a full queue - add_task's own `_current_queue_size < _size` is a
debug-build assertion; with it as precondition the store of add_task is in range.  Everything else is decided.
"""
import itertools

from .. import cfg as C
from ..astdb import AnalysisBroken, where

INF = float("inf")


class Zone:
    """Difference-bound matrix over a fixed list of variables (index 0 is the constant zero): m[i][j] bounds v_i - v_j."""

    def __init__(self, names, m=None):
        self.names = names
        n = len(names)
        self.m = m if m is not None else [[0 if i == j else INF for j in range(n)] for i in range(n)]

    def copy(self):
        return Zone(self.names, [row[:] for row in self.m])

    def idx(self, name):
        return self.names.index(name)

    def close(self):
        n = len(self.names)
        m = self.m
        for k in range(n):
            for i in range(n):
                if m[i][k] == INF:
                    continue
                for j in range(n):
                    v = m[i][k] + m[k][j]
                    if v < m[i][j]:
                        m[i][j] = v
        for i in range(n):
            if m[i][i] < 0:
                return None      # empty
        return self

    def add(self, a, b, c):
        """constraint a - b <= c"""
        i, j = self.idx(a), self.idx(b)
        if c < self.m[i][j]:
            self.m[i][j] = c

    def bound(self, a, b):
        return self.m[self.idx(a)][self.idx(b)]

    def forget(self, a):
        i = self.idx(a)
        for j in range(len(self.names)):
            if j != i:
                self.m[i][j] = INF
                self.m[j][i] = INF

    def assign(self, x, y, c):
        """x := y + c (y may be x)"""
        if y == x:
            i = self.idx(x)
            for j in range(len(self.names)):
                if j != i:
                    if self.m[i][j] != INF:
                        self.m[i][j] += c
                    if self.m[j][i] != INF:
                        self.m[j][i] -= c
            return
        self.forget(x)
        self.add(x, y, c)
        self.add(y, x, -c)

    def join(self, o):
        n = len(self.names)
        return Zone(self.names, [[max(self.m[i][j], o.m[i][j]) for j in range(n)] for i in range(n)])

    def widen(self, o):
        n = len(self.names)
        return Zone(self.names, [[self.m[i][j] if o.m[i][j] <= self.m[i][j] else INF for j in range(n)] for i in range(n)])

    def leq(self, o):
        n = len(self.names)
        return all(self.m[i][j] <= o.m[i][j] for i in range(n) for j in range(n))


def lin(e, varname):
    """(variable name or '0', constant) for expressions of the form v, v + c, v - c, c; None otherwise."""
    e = C.strip_casts(e)
    if e is None:
        return None
    ci = C.const_int(e)
    if ci is not None:
        return ("0", ci)
    k = e.get("k")
    if k in ("Ref", "Mem"):
        v = varname(e)
        return (v, 0) if v else None
    if k == "Bin" and e["op"] in ("+", "-"):
        a, b = lin(e["a"], varname), lin(e["b"], varname)
        if a is None or b is None:
            return None
        if b[0] == "0":
            return (a[0], a[1] + (b[1] if e["op"] == "+" else -b[1]))
        if a[0] == "0" and e["op"] == "+":
            return (b[0], a[1] + b[1])
    return None


def diff_form(e, varname):
    """(x, y, c) with e = x - y + c for differences of two variables (block lengths), else None."""
    e = C.strip_casts(e)
    l1 = lin(e, varname)
    if l1 is not None:
        return (l1[0], "0", l1[1])
    if e.get("k") == "Bin" and e["op"] == "-":
        a, b = lin(e["a"], varname), lin(e["b"], varname)
        if a is not None and b is not None:
            return (a[0], b[0], a[1] - b[1])
    if e.get("k") == "Bin" and e["op"] in ("+", "-"):
        a = diff_form(e["a"], varname)
        b = lin(e["b"], varname)
        if a is not None and b is not None and b[0] == "0":
            return (a[0], a[1], a[2] + (b[1] if e["op"] == "+" else -b[1]))
    return None


HANDED, GAPW, REMOVED, CONFIRMED, BADHAND, BADMOVE = -1, -2, -3, -4, -5, -6


def rule_M7(chk, u, cls="TaskQueue", array="_queue", gap_chk=None, gap_rule="Q4"):
    methods = [m for m in u.methods_of(cls) if m.get("body") is not None and not m.get("dependent")]
    if not methods:
        raise AnalysisBroken("%s has no methods" % cls)
    # the allocation: array = new T[<size member or the parameter stored in it>]
    size_member = None
    for m in methods:
        if not m.get("ctor"):
            continue
        init_of = {}
        for ini in m.get("inits") or []:
            if ini.get("x") is not None and ini.get("member"):
                x0 = C.strip_casts(ini["x"])
                if x0.get("k") == "Ref" and "id" in x0:
                    init_of[x0["id"]] = ini["member"]
        for st in C.walk_stmt(m["body"]):
            if st.get("k") == "Bin" and st.get("op") == "=" and C.member_name(st["a"]) == array:
                for x in C.walk(st["b"]):
                    if x.get("k") == "New" and x.get("sz") is not None:
                        sz = C.strip_casts(x["sz"])
                        if C.member_name(sz):
                            size_member = C.member_name(sz)
                        elif sz.get("k") == "Ref" and sz.get("id") in init_of:
                            size_member = init_of[sz["id"]]
    if size_member is None:
        raise AnalysisBroken("%s: the allocation `%s = new T[size]` was not found" % (cls, array))
    # the fill counter: the unsigned member that subscripts the array / is compared with the size
    members = set()
    for m in methods:
        for x in C.walk_stmt(m["body"]):
            if x.get("k") == "Mem" and C.member_name(x) and "unsigned" in (x.get("t") or "") and C.member_name(x) != size_member:
                members.add(C.member_name(x))
    n = 0
    accesses = 0
    # private void helpers are analysed where they are called (their parameters get their meaning from the call site)
    helpers = {}
    for m in methods:
        if m.get("access") == "private" and (m.get("ret") or "void") == "void" and not m.get("ctor") and \
                not any(x.get("k") == "Return" and x.get("x") is not None for x in C.walk_stmt(m["body"])):
            helpers[m["full"].split("(")[0]] = m
    inlined = set()
    private_names = {m_["full"].split("(")[0] for m_ in methods if m_.get("access") == "private"}
    callsite_zones = {}        # private method name -> [ {(a, b): c} constraints in the callee's names ]
    done_private = set()
    ordered = [m_ for m_ in methods if m_.get("access") != "private"] + [m_ for m_ in methods if m_.get("access") == "private"]
    for m in ordered:
        if m.get("ctor") or m["name"].startswith("~"):
            continue
        if m["full"].split("(")[0] in helpers:
            continue
        mname = m["full"].split("(")[0]
        m_orig = m
        body = C.inline_void_helpers(m["body"], helpers)
        if body is not m["body"]:
            for x in C.walk_stmt(m["body"]):
                if x.get("k") == "Call" and x.get("fn") in helpers:
                    inlined.add(x["fn"])
        m = dict(m)
        m["body"] = body
        touches = any((x.get("k") == "Mem" and C.member_name(x) == array) for x in C.walk_stmt(m["body"])) or \
            any(x.get("k") == "Call" and x.get("fn") in private_names for x in C.walk_stmt(m["body"]))
        if not touches:
            continue
        chk.analysed(function=m["full"])
        g = C.CFG(m)
        locs = {}
        for node in g.nodes:
            if node.kind == "decl":
                for d in node.ast["d"]:
                    if "unsigned" in (d.get("t") or ""):
                        locs[d["id"]] = "%s#%d" % (d["n"], d["id"] % 1000)
        for p in m["params"]:
            if "unsigned" in (p.get("t") or "") and "id" in p:
                locs[p["id"]] = "%s#p" % p["n"]
        names = ["0", size_member] + sorted(members) + sorted(locs.values()) + ["g#", "c#"] + ["%s@0" % mm_ for mm_ in sorted(members)]

        def varname(e, locs=locs):
            e = C.strip_casts(e)
            if e.get("k") == "Ref" and e.get("id") in locs:
                return locs[e["id"]]
            mn = C.member_name(e)
            if mn in names:
                return mn
            return None
        z0 = Zone(names)
        for v in names[1:]:
            z0.add("0", v, 0)                 # unsigned: v >= 0
        for mem in members:
            z0.add(mem, size_member, 0)       # class invariant: fill counter <= size
            z0.add(mem, "%s@0" % mem, 0)      # ghost: the value of the fill counter at entry
            z0.add("%s@0" % mem, mem, 0)
        writes_array = any(x.get("k") == "Bin" and x.get("op") == "=" and C.strip_casts(x["a"]).get("k") == "Idx" and
                           C.member_name(C.strip_casts(x["a"])["a"]) == array for x in C.walk_stmt(m["body"]))
        removes = any((x.get("k") == "Un" and x.get("op") in ("pre--", "post--") and C.member_name(x["x"]) in members) or
                      (x.get("k") == "Bin" and x.get("op") == "-=" and C.member_name(x["a"]) in members)
                      for x in C.walk_stmt(m["body"]))
        grows = any((x.get("k") == "Un" and x.get("op") in ("pre++", "post++") and C.member_name(x["x"]) in members) or
                    (x.get("k") == "Bin" and x.get("op") in ("+=", "=") and C.member_name(x["a"]) in members)
                    for x in C.walk_stmt(m["body"]))
        adding = grows and not removes
        if writes_array and not removes:
            # an adding method: precondition "not full" (the code's own debug assertion)
            for mem in members:
                z0.add(mem, size_member, -1)
            chk.assumptions.append("%s::%s is never called on a full queue (the code's own debug-build assertion "
                                   "`%s < %s`); sizing the queues is the caller's / the parameter file's business" %
                                   (cls, m["name"], sorted(members)[0], size_member))
        if m_orig.get("access") == "private":
            # a private method: its parameters mean what its call sites make them mean
            sites = callsite_zones.get(mname)
            if not sites:
                continue        # never called with the array in play
            zj0 = None
            for cons in sites:
                zc_ = z0.copy()
                for (a_, b_), c_ in cons.items():
                    if a_ in names and b_ in names:
                        zc_.add(a_, b_, c_)
                zc_ = zc_.close()
                if zc_ is None:
                    continue
                zj0 = zc_ if zj0 is None else zj0.join(zc_)
            if zj0 is None:
                continue
            z0 = zj0
            done_private.add(mname)
        z0 = z0.close()
        entry_of = {}
        for st_ in C.walk_stmt(m["body"]):
            if st_.get("k") == "Decl":
                for d_ in st_["d"]:
                    i0_ = C.strip_casts(d_["init"]) if d_.get("init") is not None else None
                    if i0_ is not None and i0_.get("k") == "Idx" and C.member_name(i0_["a"]) == array:
                        entry_of[d_["id"]] = i0_["i"]
        entry_candidates = set()
        for st_ in C.walk_stmt(m["body"]):
            if st_.get("k") == "Call" and st_.get("n") == "lock_dependency":
                for y_ in C.walk(st_):
                    if y_.get("k") == "Ref" and y_.get("id") in entry_of:
                        entry_candidates.add(y_["id"])
        flag_ids = set()
        for node in g.nodes:
            if node.kind == "decl":
                for d in node.ast["d"]:
                    if (d.get("t") or "").replace("const ", "").strip() == "bool":
                        flag_ids.add(d["id"])
        # states are partitioned by the values of the boolean locals (a flag set inside a search loop carries what the zone
        # alone cannot: "found => the cursor was decremented")
        states = {(g.entry.id, ()): z0}
        visits = {}
        work = [(g.entry.id, ())]

        def flag_of(e):
            e = C.strip_casts(e)
            return e["id"] if e is not None and e.get("k") == "Ref" and e.get("id") in flag_ids else None

        def guard(z, e, truth, flags=None):
            """z refined by condition e having the given truth; None when infeasible."""
            e = C.strip_casts(e)
            k = e.get("k")
            if k == "Un" and e["op"] == "!":
                return guard(z, e["x"], not truth, flags)
            if flag_of(e) is not None and flags is not None:
                v = dict(flags).get(flag_of(e))
                if v is not None and v != truth:
                    return None
                return z
            z = z.copy()
            if k == "Bin" and e["op"] in ("<", ">", "<=", ">=", "==", "!="):
                a, b = lin(e["a"], varname), lin(e["b"], varname)
                if a is None or b is None:
                    return z
                op = e["op"]
                if not truth:
                    op = {"<": ">=", ">": "<=", "<=": ">", ">=": "<", "==": "!=", "!=": "=="}[op]
                d = b[1] - a[1]
                if op == "<":
                    z.add(a[0], b[0], d - 1)
                elif op == "<=":
                    z.add(a[0], b[0], d)
                elif op == ">":
                    z.add(b[0], a[0], -d - 1)
                elif op == ">=":
                    z.add(b[0], a[0], -d)
                elif op == "==":
                    z.add(a[0], b[0], d)
                    z.add(b[0], a[0], -d)
                elif op == "!=" and b[0] == "0" and a[1] == 0 and b[1] == 0:
                    z.add("0", a[0], -1)      # unsigned x != 0  ->  x >= 1
                elif op == "!=":
                    zc0 = z.copy().close()
                    if zc0 is None or (zc0.bound(a[0], b[0]) <= d and zc0.bound(b[0], a[0]) <= -d):
                        return None           # the two sides are known to be equal
                return z.close()
            if k in ("Ref", "Mem") and varname(e):
                if truth:
                    z.add("0", varname(e), -1)
                else:
                    z.add(varname(e), "0", 0)
                return z.close()
            return z

        def set_flag(flags, fid, val):
            d = dict(flags)
            if val is None:
                d.pop(fid, None)
            else:
                d[fid] = val
            return tuple(sorted(d.items()))

        def flag_values(e, flags):
            """possible truth values of a boolean expression given the flags"""
            e = C.strip_casts(e)
            if e is None:
                return (True, False)
            if e.get("k") == "Bool":
                return (bool(e["v"]),)
            if e.get("k") == "Un" and e["op"] == "!":
                return tuple(not v for v in flag_values(e["x"], flags))
            if flag_of(e) is not None:
                v = dict(flags).get(flag_of(e))
                return (v,) if v is not None else (True, False)
            return (True, False)

        def lock_position(e):
            """(variable, constant) of e' when e is `tasks[queue[e']].lock_dependency()`, else None"""
            e0 = C.strip_casts(e) if e is not None else None
            if e0 is not None and e0.get("k") == "Call" and e0.get("n") == "lock_dependency":
                for y_ in C.walk(e0):
                    if y_.get("k") == "Idx" and C.member_name(y_["a"]) == array:
                        return lin(y_["i"], varname)
                # through a local holding the entry: candidate = queue[e']; tasks[candidate].lock_dependency()
                for y_ in C.walk(e0):
                    if y_.get("k") == "Ref" and y_.get("id") in entry_of:
                        return lin(entry_of[y_["id"]], varname)
            return None

        def handed(fs, zz, lg):
            """flag sets after the hand-out read at position lg: confirmed and equal to the confirmed position?"""
            out_ = []
            zc_ = zz.copy().close()
            same = zc_ is not None and zc_.bound(lg[0], "c#") <= -lg[1] and zc_.bound("c#", lg[0]) <= lg[1]
            for f in fs:
                f = set_flag(set_flag(f, HANDED, True), GAPW, False)
                if not (dict(f).get(CONFIRMED) and same):
                    f = set_flag(f, BADHAND, True)
                out_.append(f)
            return out_

        def transfer(node, z, flags):
            ast = node.ast
            if node.kind == "branch" and ast is not None and ast.get("k") != "RangeHasNext":
                outs = []
                # a counter stepped inside the test (`i-- > 0`): compare the old value, then step
                stepped = []
                ast_cmp = ast
                a0_ = C.strip_casts(ast)
                if a0_.get("k") == "Bin" and a0_["op"] in ("<", ">", "<=", ">=", "==", "!="):
                    la_ = C.strip_casts(a0_["a"])
                    if la_.get("k") == "Un" and la_.get("op") in ("post--", "post++") and varname(la_["x"]):
                        stepped.append((varname(la_["x"]), -1 if "--" in la_["op"] else 1))
                        ast_cmp = dict(a0_)
                        ast_cmp["a"] = la_["x"]
                # a successful lock_dependency() on queue[e] confirms position e
                conf_pos = None
                inner_ = C.strip_casts(ast)
                neg_ = False
                while inner_.get("k") == "Un" and inner_.get("op") == "!":
                    inner_ = C.strip_casts(inner_["x"])
                    neg_ = not neg_
                conf_pos = lock_position(inner_)
                for t in (True, False):
                    zz = guard(z, ast_cmp, t, flags)
                    if zz is None:
                        continue
                    if stepped:
                        zz = zz.copy()
                        for v_, dlt_ in stepped:
                            if dlt_ < 0 and not t:
                                zz.forget(v_)            # an unsigned counter stepped below zero: not used afterwards
                                zz.add("0", v_, 0)
                            else:
                                zz.assign(v_, v_, dlt_)
                        zz = zz.close()
                        if zz is None:
                            continue
                    f2 = flags
                    if conf_pos is not None and (t != neg_):
                        zz = zz.copy()
                        zz.assign("c#", conf_pos[0], conf_pos[1])
                        zz = zz.close()
                        f2 = set_flag(f2, CONFIRMED, True)
                    if flag_of(ast) is not None:
                        f2 = set_flag(flags, flag_of(ast), t)
                    elif C.strip_casts(ast).get("k") == "Un" and C.strip_casts(ast)["op"] == "!" and \
                            flag_of(C.strip_casts(ast)["x"]) is not None:
                        f2 = set_flag(flags, flag_of(C.strip_casts(ast)["x"]), not t)
                    outs.append((t, zz, f2))
                return outs
            if node.kind in ("stmt", "decl", "init", "return") and ast is not None and ast.get("k") != "Abort":
                body = ast.get("x") if node.kind == "init" and "x" in ast else ast
                z = z.copy()
                flagsets = [flags]
                if body.get("k") == "Decl":
                    for d in body["d"]:
                        i0_ = C.strip_casts(d["init"]) if d.get("init") is not None else None
                        if i0_ is not None and i0_.get("k") == "Idx" and C.member_name(i0_["a"]) == array:
                            lg = lin(i0_["i"], varname)
                            if lg is not None and d["id"] not in entry_candidates:
                                z.assign("g#", lg[0], lg[1])
                                flagsets = handed(flagsets, z, lg)
                        if d["id"] in locs:
                            v = locs[d["id"]]
                            z.forget(v)
                            z.add("0", v, 0)
                            if d.get("init") is not None:
                                l = lin(d["init"], varname)
                                if l is not None:
                                    z.assign(v, l[0], l[1])
                        elif d["id"] in flag_ids:
                            vals = flag_values(d.get("init"), flags) if d.get("init") is not None else (True, False)
                            cp_ = lock_position(d.get("init"))
                            if cp_ is not None:
                                z.assign("c#", cp_[0], cp_[1])
                                flagsets = [set_flag(set_flag(f, d["id"], v), CONFIRMED, v) for f in flagsets for v in (True, False)]
                            else:
                                flagsets = [set_flag(f, d["id"], v) for f in flagsets for v in vals]
                else:
                    for x in C.walk(body):
                        kk = x.get("k")
                        if kk == "Un" and x.get("op") in ("pre++", "post++", "pre--", "post--"):
                            v = varname(x["x"])
                            if v:
                                z.assign(v, v, 1 if "++" in x["op"] else -1)
                            if v in members and "--" in x["op"]:
                                flagsets = [set_flag(f, REMOVED, True) for f in flagsets]
                        elif kk == "Bin" and x.get("op") == "=" and C.strip_casts(x["b"]).get("k") == "Idx" and \
                                C.member_name(C.strip_casts(x["b"])["a"]) == array and \
                                C.strip_casts(x["a"]).get("k") == "Ref" and \
                                not (C.strip_casts(x["a"]).get("k") == "Idx"):
                            # the hand-out read `task = queue[e]`: remember the position in a ghost variable
                            lg = lin(C.strip_casts(x["b"])["i"], varname)
                            if lg is not None:
                                z.assign("g#", lg[0], lg[1])
                                flagsets = handed(flagsets, z, lg)
                            v = varname(x["a"])
                            if v:
                                z.forget(v)
                                z.add("0", v, 0)
                        elif kk == "Bin" and x.get("op") == "=" and C.strip_casts(x["b"]).get("k") == "Ref" and \
                                C.strip_casts(x["b"]).get("id") in entry_candidates and C.strip_casts(x["a"]).get("k") == "Ref":
                            # `task = candidate`: the candidate entry becomes the hand-out
                            lg = lin(entry_of[C.strip_casts(x["b"])["id"]], varname)
                            if lg is not None:
                                z.assign("g#", lg[0], lg[1])
                                flagsets = handed(flagsets, z, lg)
                            v = varname(x["a"])
                            if v:
                                z.forget(v)
                                z.add("0", v, 0)
                        elif kk == "Bin" and x.get("op") == "=" and C.strip_casts(x["a"]).get("k") == "Idx" and \
                                C.member_name(C.strip_casts(x["a"])["a"]) == array:
                            # a store into the array before the hand-out read moves entries: the confirmation is void
                            flagsets = [set_flag(f, CONFIRMED, False) if not dict(f).get(HANDED) and dict(f).get(CONFIRMED) else f
                                        for f in flagsets]
                            # a store into the array: does it overwrite the handed-out position?
                            l1 = lin(C.strip_casts(x["a"])["i"], varname)
                            zc_ = z.copy().close()
                            # entries only ever move down by one position (shift), or the old top fills the gap (swap)
                            src_ = C.strip_casts(x["b"])
                            if src_.get("k") == "Idx" and C.member_name(src_["a"]) == array and l1 is not None and zc_ is not None and members:
                                ls_ = lin(src_["i"], varname)
                                curm_ = sorted(members)[0]
                                okmove = False
                                if ls_ is not None:
                                    dlo, dhi = zc_.bound(ls_[0], l1[0]), zc_.bound(l1[0], ls_[0])      # src - dst bounds
                                    if dlo + ls_[1] - l1[1] <= 1 and -(dhi) + ls_[1] - l1[1] >= 1:
                                        okmove = True          # src == dst + 1
                                    elif zc_.bound(l1[0], "g#") <= -l1[1] and zc_.bound("g#", l1[0]) <= l1[1] and \
                                            zc_.bound(ls_[0], curm_) <= -ls_[1] and zc_.bound(curm_, ls_[0]) <= ls_[1]:
                                        okmove = True          # dst == gap and src == fill counter (the entry that left the range)
                                if not okmove:
                                    flagsets = [set_flag(f, BADMOVE, True) if dict(f).get(REMOVED) or dict(f).get(HANDED) else f
                                                for f in flagsets]
                            if l1 is not None and zc_ is not None and zc_.bound(l1[0], "g#") <= -l1[1] and \
                                    zc_.bound("g#", l1[0]) <= l1[1]:
                                flagsets = [set_flag(f, GAPW, True) if dict(f).get(HANDED) else f for f in flagsets]
                        elif kk == "Call" and (x.get("fn") or x.get("n") or "").split("::")[-1] in ("memmove", "memcpy") and \
                                len(x["a"]) == 3 and addr_index(x["a"][0], array) is not None:
                            l1 = lin(addr_index(x["a"][0], array), varname)
                            zc_ = z.copy().close()
                            if l1 is not None and zc_ is not None and zc_.bound(l1[0], "g#") <= -l1[1] and \
                                    zc_.bound("g#", l1[0]) <= l1[1]:
                                flagsets = [set_flag(f, GAPW, True) if dict(f).get(HANDED) else f for f in flagsets]
                        elif kk == "Bin" and x.get("op") == "=" and flag_of(x["a"]) is not None:
                            fid = flag_of(x["a"])
                            cp_ = lock_position(x["b"])
                            if cp_ is not None:
                                z.assign("c#", cp_[0], cp_[1])
                                flagsets = [set_flag(set_flag(f, fid, v), CONFIRMED, v) for f in flagsets for v in (True, False)]
                            else:
                                flagsets = [set_flag(f, fid, v) for f in flagsets for v in flag_values(x["b"], f)]
                        elif kk == "Bin" and x.get("op") in ("=", "+=", "-="):
                            v = varname(x["a"])
                            if not v:
                                continue
                            if x["op"] == "=":
                                l = lin(x["b"], varname)
                                if l is None:
                                    z.forget(v)
                                    z.add("0", v, 0)
                                else:
                                    z.assign(v, l[0], l[1])
                            else:
                                c = C.const_int(x["b"])
                                if c is None:
                                    z.forget(v)
                                    z.add("0", v, 0)
                                else:
                                    z.assign(v, v, c if x["op"] == "+=" else -c)
                zc = z.close()
                return [(None, zc, f) for f in flagsets]
            return [(None, z, flags)]
        while work:
            nid, flags = work.pop()
            node = g.nodes[nid]
            z = states.get((nid, flags))
            if z is None:
                continue
            for lab, out, f2 in transfer(node, z, flags):
                if out is None:
                    continue
                for slab, succ in node.succs:
                    if lab is not None and slab != lab:
                        continue
                    key = (succ, f2)
                    old = states.get(key)
                    if old is None:
                        states[key] = out
                        work.append(key)
                    elif not out.leq(old):
                        visits[key] = visits.get(key, 0) + 1
                        new = old.join(out)
                        if visits[key] > 3:
                            new = old.widen(new)
                        states[key] = new
                        work.append(key)
        by_node = {}
        for (nid, flags), z in states.items():
            by_node.setdefault(nid, []).append((flags, z))
        # Q3: what is handed out was confirmed by lock_dependency() at that very position, and the live range shrinks by exactly
        # one when something is handed out and not at all otherwise
        if gap_chk is not None and members and any(dict(f_).get(HANDED) is not None or True for f_, _ in by_node.get(g.exit.id, [])) \
                and any(x_.get("k") == "Call" and x_.get("n") == "lock_dependency" for x_ in C.walk_stmt(m["body"])):
            curm = sorted(members)[0]
            probs = []
            nparts = 0
            for flags_, z_ in by_node.get(g.exit.id, []):
                fd = dict(flags_)
                nparts += 1
                zc_ = z_.copy().close()
                if zc_ is None:
                    continue
                if fd.get(BADHAND):
                    probs.append("an entry is handed out that lock_dependency() did not confirm at that position")
                if fd.get(HANDED):
                    if not (zc_.bound(curm, "%s@0" % curm) <= -1 and zc_.bound("%s@0" % curm, curm) <= 1):
                        probs.append("a task is handed out but the fill counter does not end exactly one below its entry value "
                                     "(%s - entry in [%s, %s])" % (curm, -zc_.bound("%s@0" % curm, curm), zc_.bound(curm, "%s@0" % curm)))
                else:
                    if not (zc_.bound(curm, "%s@0" % curm) <= 0 and zc_.bound("%s@0" % curm, curm) <= 0):
                        probs.append("nothing is handed out but the fill counter changes")
            if nparts:
                gap_chk.require(not probs, "Q3", "%s::%s hands out only an entry whose dependencies it locked at that position, and the "
                                "live range shrinks by exactly one with it (and not at all otherwise)" % (cls, m["name"]), where(m),
                                "; ".join(sorted(set(probs))), function=m["full"], construct="hand-out")
        # Q4: an entry that was handed out does not stay in the live range [0, fill counter)
        if gap_chk is not None and members:
            curm = sorted(members)[0]
            bad_gap = None
            bad_move = False
            nh = 0
            for flags_, z_ in by_node.get(g.exit.id, []):
                fd = dict(flags_)
                if not fd.get(HANDED) or not fd.get(REMOVED):
                    continue
                nh += 1
                if fd.get(BADMOVE):
                    bad_gap = z_
                    bad_move = True
                if fd.get(GAPW):
                    continue
                zt = z_.copy()
                zt.add("g#", curm, -1)          # the handed-out position is still below the fill counter
                if zt.close() is not None:
                    bad_gap = z_
            if nh:
                gap_chk.require(bad_gap is None, gap_rule, "%s::%s: the position an entry was handed out from is overwritten whenever it "
                                "is still inside the live range after the removal" % (cls, m["name"]), where(m),
                                ("an entry is stored from a position that is neither one above its destination (shift) nor the old top "
                                 "of the queue into the gap (swap): an entry is duplicated and another is lost" if bad_move else
                                 "there is a path on which the handed-out position g satisfies g <= %s - 1 at the end and was never "
                                 "overwritten (only g - %s <= %s is excluded): the task that was handed out stays in the queue and "
                                 "will be handed out again, and the entry that should have filled the gap is lost" %
                                 (curm, curm, bad_gap.bound("g#", curm) if bad_gap is not None else "")), function=m["full"],
                                construct="gap closed")
        # call sites of private methods of the class: what the caller knows about the arguments
        for node in g.nodes:
            parts = by_node.get(node.id)
            if not parts or node.ast is None or node.kind == "marker":
                continue
            body_ = node.ast.get("x") if node.kind == "init" and "x" in node.ast else node.ast
            if body_ is None or body_.get("k") in ("Abort", "RangeHasNext"):
                continue
            for x in C.walk_stmt(body_) if body_.get("k") == "Decl" else C.walk(body_):
                if x.get("k") == "Call" and x.get("fn") in private_names and x.get("fn") not in helpers:
                    if x["fn"] in done_private:
                        raise AnalysisBroken("M7: %s is called after it was analysed (helpers calling helpers)" % x["fn"])
                    callee = [m_ for m_ in methods if m_["full"].split("(")[0] == x["fn"] and len(m_["params"]) == len(x["a"])]
                    if not callee:
                        continue
                    zj = None
                    for flags_, z_ in parts:
                        zj = z_ if zj is None else zj.join(z_)
                    cons = {}
                    shared = ["0", size_member] + sorted(members)
                    pl = []
                    for p_, a_ in zip(callee[0]["params"], x["a"]):
                        if "unsigned" not in (p_.get("t") or "") or "id" not in p_:
                            continue
                        l_ = lin(a_, varname)
                        if l_ is not None:
                            pl.append(("%s#p" % p_["n"], l_))
                    for a1 in shared:
                        for b1 in shared:
                            if a1 != b1 and zj.bound(a1, b1) != INF:
                                cons[(a1, b1)] = zj.bound(a1, b1)
                    for pn, (v, c) in pl:
                        for w in shared:
                            if v == w:
                                cons[(pn, w)] = c
                                cons[(w, pn)] = -c
                                continue
                            if zj.bound(v, w) != INF:
                                cons[(pn, w)] = zj.bound(v, w) + c
                            if zj.bound(w, v) != INF:
                                cons[(w, pn)] = zj.bound(w, v) - c
                    callsite_zones.setdefault(x["fn"], []).append(cons)
        # checks
        for node in g.nodes:
            parts = by_node.get(node.id)
            if not parts or node.ast is None or node.kind == "marker":
                continue
            body = node.ast.get("x") if node.kind == "init" and "x" in node.ast else node.ast
            if body is None or body.get("k") in ("Abort", "RangeHasNext"):
                continue
            exprs = [d["init"] for d in body["d"] if d.get("init") is not None] if body.get("k") == "Decl" else [body]
            # the join of the partitions is what is reported against (one obligation per access, worst partition decides)
            zj = None
            for flags_, z_ in parts:
                zj = z_ if zj is None else zj.join(z_)
            worst = {}
            for ex in exprs:
                for flags_, z_ in parts:
                    for sub_, zz_ in walk_guarded(ex, z_, lambda a, b, c, f=flags_: guard(a, b, c, f)):
                        if zz_ is None:
                            continue
                        key_ = id(sub_)
                        worst[key_] = (sub_, zz_ if key_ not in worst else worst[key_][1].join(zz_))
            for ex in [exprs]:
                for x in [worst[k_] for k_ in worst]:
                    sub, zz = x
                    if sub.get("k") == "Idx" and C.member_name(sub["a"]) == array and not any(in_addr_of(e_, sub) for e_ in ex):
                        accesses += 1
                        l = lin(sub["i"], varname)
                        n += 1
                        if l is None and adding:
                            # an adding method storing at fill counter + offset: in range exactly when the caller leaves room
                            chk.ok("M7", "%s::%s: `%s` is in range under the capacity precondition of the adding methods "
                                   "(assumption)" % (cls, m["name"], C.pretty(sub)[:60]), where(sub, m))
                            note = ("%s::%s is only called with room for all the tasks it adds (its debug-build assertion); sizing "
                                    "the queues is the caller's / the parameter file's business" % (cls, m["name"]))
                            if note not in chk.assumptions:
                                chk.assumptions.append(note)
                            continue
                        if l is None:
                            chk.fail("M7", "%s::%s: `%s` stays inside the %s elements" % (cls, m["name"], C.pretty(sub)[:60], size_member),
                                     where(sub, m), "the index is not of the form variable +- constant", function=m["full"],
                                     construct="subscript")
                            continue
                        lo_ok = zz.bound("0", l[0]) <= l[1]               # -(v) <= c   <=>  v + c >= 0
                        hi_ok = zz.bound(l[0], size_member) <= -1 - l[1]  # v - size <= -1 - c
                        chk.require(lo_ok and hi_ok, "M7", "%s::%s: `%s` stays inside the %s elements of the array" %
                                    (cls, m["name"], C.pretty(sub)[:60], size_member), where(sub, m),
                                    "with the class invariant %s <= %s at entry the analysis only knows %s - %s <= %s (needs <= %d)%s: "
                                    "the access can be one or more elements outside the allocation" %
                                    (sorted(members)[0], size_member, l[0], size_member, zz.bound(l[0], size_member), -1 - l[1],
                                     "" if lo_ok else " and cannot exclude a negative index"), function=m["full"],
                                    construct="subscript %s" % C.pretty(sub["i"])[:40])
                    elif sub.get("k") == "Call" and (sub.get("fn") or sub.get("n") or "").split("::")[-1] in \
                            ("memmove", "memcpy") and len(sub["a"]) == 3:
                        ptrs = [addr_index(a, array) for a in sub["a"][:2]]
                        if not any(p is not None for p in ptrs):
                            continue
                        accesses += 1
                        cnt = block_elements(sub["a"][2])
                        n += 1
                        d = diff_form(cnt, varname) if cnt is not None else None
                        if d is None:
                            chk.fail("M7", "%s::%s: the block move at line %s stays inside the array" % (cls, m["name"], sub.get("l")),
                                     where(sub, m), "the length `%s` is not (variable - variable + constant) x element size" %
                                     C.pretty(sub["a"][2])[:80], function=m["full"], construct="block move")
                            continue
                        detail = []
                        for which, p in zip(("destination", "source"), ptrs):
                            if p is None:
                                continue
                            l = lin(p, varname)
                            if l is None:
                                detail.append("%s start is not variable +- constant" % which)
                                continue
                            # last element touched: l + (x - y + c) - 1 <= size - 1   with l = (v, cv)
                            # only decidable when the sum collapses to one variable: v == y
                            if d[1] == l[0]:
                                endv, endc = d[0], l[1] + d[2]          # end (exclusive) = x + cv + c
                            elif d[1] == "0":
                                detail.append("%s end is a sum of two variables" % which)
                                continue
                            else:
                                detail.append("%s end does not collapse to one variable" % which)
                                continue
                            if not (zz.bound(endv, size_member) <= -endc):
                                detail.append("the %s block ends at element %s%+d (exclusive), and the analysis only knows %s - %s <= %s: "
                                              "when the queue is full it reaches %d element(s) past the allocation" %
                                              (which, endv, endc, endv, size_member, zz.bound(endv, size_member),
                                               max(1, int(endc + zz.bound(endv, size_member))) if zz.bound(endv, size_member) != INF else 1))
                        chk.require(not detail, "M7", "%s::%s: the block move at line %s stays inside the array" %
                                    (cls, m["name"], sub.get("l")), where(sub, m), "; ".join(detail), function=m["full"],
                                    construct="block move")
    for hn, hm in helpers.items():
        if hn not in inlined and any((x.get("k") == "Mem" and C.member_name(x) == array) for x in C.walk_stmt(hm["body"])):
            raise AnalysisBroken("M7: the private helper %s touches %s but could not be analysed at a call site" % (hn, array))
    if accesses < 4:
        raise AnalysisBroken("M7: only %d accesses to %s::%s were found (10 confirmed by hand)" % (accesses, cls, array))
    return n


def in_addr_of(root, sub):
    """True when `sub` is the operand of an address-of (a pointer argument of a block move: checked there)."""
    for x in C.walk(root):
        if x.get("k") == "Un" and x.get("op") == "&" and C.strip_casts(x["x"]) is sub:
            return True
    return False


def addr_index(a, array):
    """index expression i when a is &array[i] or array + i, 0-literal node when it is the array itself; else None."""
    a0 = C.strip_casts(a)
    if a0.get("k") == "Un" and a0.get("op") == "&":
        s = C.strip_casts(a0["x"])
        if s.get("k") == "Idx" and C.member_name(s["a"]) == array:
            return s["i"]
    if a0.get("k") == "Bin" and a0["op"] == "+" and C.member_name(a0["a"]) == array:
        return a0["b"]
    if C.member_name(a0) == array:
        return {"k": "Int", "v": 0, "t": "int"}
    return None


def block_elements(e):
    """the element count n when e is n * sizeof(T) (either order)."""
    e = C.strip_casts(e)
    if e.get("k") == "Bin" and e["op"] == "*":
        for x, y in ((e["a"], e["b"]), (e["b"], e["a"])):
            if C.strip_casts(y).get("k") == "Sizeof":
                return x
    return None


def walk_guarded(e, z, guard):
    """(sub-expression, zone) pairs: the zone is refined by the short-circuit / conditional context of the sub-expression."""
    e0 = C.strip_casts(e)
    if e0 is None or z is None:
        return
    k = e0.get("k")
    if k == "Bin" and e0["op"] in ("&&", "||"):
        yield from walk_guarded(e0["a"], z, guard)
        z2 = guard(z, e0["a"], e0["op"] == "&&")
        yield from walk_guarded(e0["b"], z2, guard)
        return
    if k == "Cond":
        yield from walk_guarded(e0["c"], z, guard)
        yield from walk_guarded(e0["a"], guard(z, e0["c"], True), guard)
        yield from walk_guarded(e0["b"], guard(z, e0["c"], False), guard)
        return
    for c in C.children_of(e0):
        yield from walk_guarded(c, z, guard)
    yield (e0, z)
