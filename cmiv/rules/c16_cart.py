"""C16, Cartesian part: N3 wall intersection, N4 periodic wrap, N5 index maps, N6 neighbour mutuality.

Everything here is a loop-free function (or one iteration of a constant loop) evaluated symbolically per axis and per
class of the quantities it compares; see c16.py for the statement of the rules."""
import itertools

import sympy as sp

from .. import cfg as C
from ..astdb import AnalysisBroken, where
from ..sym import Converter, Env

AX = "xyz"
INT_T = ("int", "long", "unsigned int", "unsigned long", "short", "unsigned short", "char", "unsigned char", "signed char",
         "long long", "unsigned long long")


def subst_ref(node, vid, value):
    """Copy of an AST fragment with every reference to local `vid` replaced by the integer literal `value`."""
    if isinstance(node, list):
        return [subst_ref(x, vid, value) for x in node]
    if isinstance(node, dict):
        if node.get("k") == "Ref" and node.get("id") == vid:
            return {"k": "Int", "v": value, "t": "int", "l": node.get("l"), "c": node.get("c")}
        return {k: subst_ref(v, vid, value) for k, v in node.items()}
    return node


def const_loop(s):
    """(variable id, start, stop) of `for (T i = a; i < b; ++i)` with literal a, b and b - a <= 8, else None."""
    if s.get("k") != "For":
        return None
    init, c, inc = s.get("init"), C.strip_casts(s.get("c")) if s.get("c") else None, C.strip_casts(s.get("inc")) if s.get("inc") else None
    if init is None or init.get("k") != "Decl" or len(init["d"]) != 1 or c is None or inc is None:
        return None
    d = init["d"][0]
    a = C.const_int(d.get("init")) if d.get("init") is not None else None
    if a is None or not (c.get("k") == "Bin" and c["op"] == "<" and C.strip_casts(c["a"]).get("id") == d["id"]):
        return None
    b = C.const_int(c["b"])
    if b is None or not (0 <= b - a <= 8):
        return None
    if not (inc.get("k") == "Un" and inc.get("op") in ("pre++", "post++") and C.strip_casts(inc["x"]).get("id") == d["id"]):
        return None
    body_writes = [x for x in C.walk_stmt(s["body"]) if (x.get("k") == "Bin" and x.get("op", "").endswith("=") and
                   x.get("op") not in ("==", "!=", "<=", ">=") and C.strip_casts(x["a"]).get("id") == d["id"]) or
                   (x.get("k") == "Un" and "++" in x.get("op", "") + "--" and x.get("op") in ("pre++", "post++", "pre--", "post--")
                    and C.strip_casts(x["x"]).get("id") == d["id"])]
    if body_writes:
        return None
    return d["id"], a, b


def flat(stmts, unroll=True):
    """Statements with blocks flattened, macro expansions and null statements dropped, and loops with literal bounds (the
    three-axis loops of the grid code) unrolled by substituting the counter."""
    out = []
    for s in stmts:
        if s is None:
            continue
        if s.get("k") == "Block":
            if s.get("mac"):
                continue
            out += flat(s["s"], unroll)
        elif s.get("k") == "Null":
            continue
        elif unroll and const_loop(s) is not None:
            vid, a, b = const_loop(s)
            for i in range(a, b):
                out += flat([subst_ref(s["body"], vid, i)], unroll)
        else:
            out.append(s)
    return out


def axis_of(e):
    """(base expression, axis) of `base.x()`, `base[c]`."""
    e = C.strip_casts(e)
    if e.get("k") == "Call" and e.get("obj") is not None and not e["a"] and e.get("n") in ("x", "y", "z"):
        return e["obj"], AX.index(e["n"])
    if e.get("k") == "Call" and e.get("op") == "[]" and e.get("obj") is not None and e["a"]:
        i = C.const_int(e["a"][0])
        if i is not None:
            return e["obj"], i
    if e.get("k") == "Idx":
        i = C.const_int(e["i"])
        if i is not None:
            return e["a"], i
    return None, None


_ALIASES = {}


def load_aliases(fn):
    """Reference / copy locals that merely name an accessor chain (`const CoordinateVector<> &sides = _box.get_sides();`)."""
    for st in C.walk_stmt(fn["body"]):
        if st.get("k") == "Decl":
            for d in st["d"]:
                init = d.get("init")
                t = d.get("t") or ""
                if init is None or not (t.rstrip().endswith("&") or "CoordinateVector" in t or "Box" in t):
                    continue
                i0 = C.strip_casts(init)
                while i0 is not None and i0.get("k") == "Ctor" and len(i0["a"]) == 1:
                    i0 = C.strip_casts(i0["a"][0])
                chain = i0
                ok = True
                while chain is not None and chain.get("k") != "This":
                    if chain.get("k") == "Mem":
                        chain = C.strip_casts(chain["b"])
                    elif chain.get("k") == "Call" and chain.get("obj") is not None and not chain["a"]:
                        chain = C.strip_casts(chain["obj"])
                    elif chain.get("k") == "Ref" and chain.get("dk") == "ParmVar":
                        break
                    else:
                        ok = False
                        break
                if ok and i0 is not None and i0.get("k") in ("Mem", "Call"):
                    _ALIASES[d["id"]] = i0


def base_name(b):
    """Stable name of the base of a component access: local name, member name, or the accessor chain."""
    b = C.strip_casts(b)
    if b.get("k") == "Ref" and b.get("id") in _ALIASES:
        return base_name(_ALIASES[b["id"]])
    if b.get("k") == "Ref":
        return b.get("n")
    if b.get("k") == "Mem":
        return b.get("n")
    if b.get("k") == "Call" and b.get("obj") is not None and not b["a"]:
        return "%s.%s" % (base_name(b["obj"]), b.get("n"))
    return C.pretty(b)


_LIB = [None]


def fn_value(callee, args, conv, depth=0):
    """Value of a loop-free scalar helper as a (piecewise) formula of its arguments."""
    if depth > 3:
        raise AnalysisBroken("helper chain too deep below %s" % callee["full"])
    env = Env()
    for p_, a_ in zip(callee["params"], args):
        env.vals[("l", p_["id"])] = a_

    def truth(c):
        return c if isinstance(c, (sp.Basic,)) or c in (True, False) else sp.sympify(c)

    def ev(stmts):
        for i, st in enumerate(stmts):
            k = st.get("k")
            if k == "Decl":
                for d in st["d"]:
                    if d.get("init") is not None:
                        env.vals[("l", d["id"])] = conv.conv(d["init"], env)
            elif k == "Bin" and st["op"] == "=" and C.strip_casts(st["a"]).get("k") == "Ref":
                env.vals[("l", C.strip_casts(st["a"])["id"])] = conv.conv(st["b"], env)
            elif k == "If":
                c = conv.conv(st["c"], env)
                saved = dict(env.vals)
                tv = ev(flat([st["th"]]) + stmts[i + 1:])
                env.vals = dict(saved)
                fv = ev(flat([st["el"]] if st.get("el") is not None else []) + stmts[i + 1:])
                env.vals = saved
                if c in (sp.true, True):
                    return tv
                if c in (sp.false, False):
                    return fv
                return sp.Piecewise((tv, c), (fv, True))
            elif k == "Return":
                return conv.conv(st["x"], env)
            else:
                raise AnalysisBroken("%s: statement kind %s in a scalar helper" % (callee["full"], k))
        raise AnalysisBroken("%s: a path without return" % callee["full"])
    return ev(flat(callee["body"]["s"]))


class CompConv(Converter):
    """Converter naming vector components `<base>_<axis>`; integer `/` is floor division; loop-free scalar helpers of the
    library (free functions, static members) are inlined."""

    def __init__(self, **kw):
        self.kw = kw
        super().__init__(atoms=self._atoms, call_hook=self._inline)
        self.syms = {}
        self._depth = 0

    def _inline(self, e, env, conv):
        lib = _LIB[0]
        if lib is None or e.get("obj") is not None or e.get("op"):
            return None
        name = e.get("fn") or ""
        if not name or name.startswith("std::"):
            return None
        cands = [d for d in lib.decls if d["kind"] == "function" and d.get("body") is not None and
                 d["full"].split("(")[0] == name and len(d["params"]) == len(e["a"])]
        if not cands or self._depth > 3:
            return None
        callee = cands[0]
        if any(x.get("k") in ("For", "While", "Do", "Switch") for x in C.walk_stmt(callee["body"])):
            return None
        if any("&" in (p_.get("t") or "") and "const" not in (p_.get("t") or "") for p_ in callee["params"]):
            return None
        try:
            args = [self.conv(a, env) for a in e["a"]]
        except AnalysisBroken:
            return None
        self._depth += 1
        try:
            return fn_value(callee, args, self)
        finally:
            self._depth -= 1

    def csym(self, base, a, integer=False):
        key = (base, a)
        if key not in self.syms:
            self.syms[key] = sp.Symbol("%s_%s" % (base, AX[a] if a is not None else ""), real=True) if not integer else \
                sp.Symbol("%s_%s" % (base, AX[a]), integer=True)
        return self.syms[key]

    def _atoms(self, key, e):
        b, a = axis_of(e)
        if b is not None:
            return self.csym(base_name(b), a)
        e = C.strip_casts(e)
        if e.get("k") == "Ref" and "v" not in e:
            return self.csym(e.get("n"), None) if False else sp.Symbol(e.get("n"), real=True)
        return None

    def binop(self, op, a, b, e=None):
        if op == "/" and e is not None and (e.get("t") or "").replace("const ", "").strip() in INT_T:
            return sp.floor(a / b)
        if op == "%":
            return a - b * sp.floor(a / b)
        return super().binop(op, a, b, e)


# ------------------------------------------------------------------------------------------------ N3
def rule_wall(chk, lib):
    fn = one(lib, "CartesianDensityGrid::get_wall_intersection")
    chk.analysed(function=fn["full"])
    ps = fn["params"]
    if len(ps) != 6:
        raise AnalysisBroken("get_wall_intersection: unexpected signature")
    o_p, d_p, id_p, cell_p, ni_p, ds_p = ps
    conv = CompConv()
    o = [sp.Symbol("o_%s" % c, real=True) for c in AX]
    d = [sp.Symbol("d_%s" % c, real=True) for c in AX]
    idr = [sp.Symbol("invd_%s" % c, real=True) for c in AX]
    lo = [sp.Symbol("lo_%s" % c, real=True) for c in AX]
    hi = [sp.Symbol("hi_%s" % c, real=True) for c in AX]
    Osh, Dsh = sp.Symbol("O", real=True), sp.Symbol("D", real=True)
    env = Env()
    for a in range(3):
        env.vals[("i", ("l", o_p["id"]), a)] = o[a]
        env.vals[("i", ("l", d_p["id"]), a)] = d[a]
        env.vals[("i", ("l", id_p["id"]), a)] = idr[a]
    env.vals[("l", o_p["id"])] = Osh
    env.vals[("l", d_p["id"])] = Dsh
    dist = {}
    X = [sp.Symbol("X_%s" % c, real=True) for c in AX]
    ni = {}
    ret = None
    dsval = None
    for st in flat(fn["body"]["s"]):
        k = st.get("k")
        if k == "Decl":
            for dd in st["d"]:
                init = dd.get("init")
                if init is None:
                    continue
                t = (dd.get("t") or "")
                if "CoordinateVector" in t:
                    names = [x.get("n") for x in C.walk(init) if x.get("k") == "Call"]
                    src = lo if "get_anchor" in names else (hi if "get_top_anchor" in names else None)
                    if src is None:
                        raise AnalysisBroken("get_wall_intersection: vector local %s is not a corner of the cell" % dd["n"])
                    for a in range(3):
                        env.vals[("i", ("l", dd["id"]), a)] = src[a]
                    continue
                v = conv.conv(init, env)
                axes = {a for a in range(3) if v.free_symbols & {o[a], d[a], idr[a], lo[a], hi[a]}}
                if len(axes) == 1 and d[list(axes)[0]] in v.free_symbols:
                    a = axes.pop()
                    dist[a] = (v, dd, st)
                    env.vals[("l", dd["id"])] = X[a]
                else:
                    env.vals[("l", dd["id"])] = v
        elif k == "Bin" and st["op"] == "=":
            lhs = C.strip_casts(st["a"])
            if lhs.get("k") == "Ref" and lhs.get("id") == ds_p["id"]:
                dsval = conv.conv(st["b"], env)
                env.vals[("l", ds_p["id"])] = dsval
                continue
            b, a = axis_of(lhs)
            if b is not None and C.strip_casts(b).get("id") == ni_p["id"]:
                ni[a] = (conv.conv(st["b"], env), st)
                continue
            raise AnalysisBroken("get_wall_intersection: assignment not understood (line %s)" % st.get("l"))
        elif k == "Call" and st.get("op") == "=" and st.get("obj") is not None:
            b, a = axis_of(st["obj"])
            if b is not None and C.strip_casts(b).get("id") == ni_p["id"]:
                ni[a] = (conv.conv(st["a"][0], env), st)
                continue
            raise AnalysisBroken("get_wall_intersection: assignment not understood (line %s)" % st.get("l"))
        elif k == "Return":
            ret = (conv.conv(st["x"], env), st)
        else:
            raise AnalysisBroken("get_wall_intersection: statement kind %s not understood (line %s)" % (k, st.get("l")))
    if set(dist) != {0, 1, 2} or set(ni) != {0, 1, 2} or ret is None or dsval is None:
        raise AnalysisBroken("get_wall_intersection: distances %s, index steps %s, ds %s" % (sorted(dist), sorted(ni), dsval))
    n = 0
    p = sp.Symbol("p", positive=True)
    for a in range(3):
        v, dd, st = dist[a]
        for sign, sub, expect in (("+", p, (hi[a] - o[a]) * idr[a]), ("-", -p, (lo[a] - o[a]) * idr[a]), ("0", sp.Integer(0), None)):
            got = sp.simplify(v.subs(d[a], sub))
            n += 1
            if expect is not None:
                chk.require(sp.simplify(got - expect) == 0, "N3", "wall distance along %s for a %s direction component is "
                            "(%s wall - position) x inverse direction" % (AX[a], "positive" if sign == "+" else "negative",
                                                                         "upper" if sign == "+" else "lower"),
                            where(st, fn), "the distance is %s" % got, function=fn["full"], construct="wall distance %s%s" % (AX[a], sign))
            else:
                chk.require(got.is_number and got > 1e300, "N3", "wall distance along %s for a zero direction component is DBL_MAX "
                            "(never the minimum)" % AX[a], where(st, fn), "the distance is %s" % got, function=fn["full"],
                            construct="wall distance %s0" % AX[a])
    # ds = min of the three
    n += 1
    chk.require(dsval == sp.Min(*X), "N3", "the step is the minimum of the three wall distances", where(fn),
                "ds = %s" % dsval, function=fn["full"], construct="ds minimum")
    # index steps over the 13 weak orderings of the three distances
    orders = sorted(set(itertools.product((1, 2, 3), repeat=3)))
    orders = [t for t in orders if min(t) == 1]
    for a in range(3):
        v, st = ni[a]
        bad = None
        for t in orders:
            for sgn, sub in ((1, p), (-1, -p)):
                got = v.subs({X[0]: t[0], X[1]: t[1], X[2]: t[2], d[a]: sub})
                got = sp.simplify(got)
                want = sgn if t[a] == 1 else 0
                if got != want:
                    bad = (t, sgn, got, want)
                    break
            if bad:
                break
        n += 1
        chk.require(bad is None, "N3", "the index step along %s is sign(direction) exactly when its wall distance attains the minimum "
                    "(13 orderings of the distances incl. ties x 2 signs)" % AX[a], where(st, fn),
                    "for distances ordered %s and direction sign %s the step is %s, expected %s" % (bad or ("", "", "", ""))[:4],
                    function=fn["full"], construct="index step %s" % AX[a])
    n += 1
    rv, rst = ret
    chk.require(sp.expand(rv - (Osh + sp.Min(*X) * Dsh)) == 0, "N3", "the returned wall point is position + ds x direction",
                where(rst, fn), "returned: %s" % rv, function=fn["full"], construct="wall point")
    return n


def one(lib, name):
    fns = [d for d in lib.decls if d["kind"] == "function" and d["full"].split("(")[0] == name and d.get("body")]
    if not fns:
        raise AnalysisBroken("%s not found" % name)
    load_aliases(fns[0])
    return fns[0]


# ------------------------------------------------------------------------------------------------ N4
class CaseEval:
    """Straight-line evaluation with comparisons decided per index class (dual representation of 'inside')."""

    def __init__(self, fn, conv, subs_sets):
        self.fn, self.conv, self.subs_sets = fn, conv, subs_sets

    def cmp(self, e, env):
        e = C.strip_casts(e)
        k = e.get("k")
        if k == "Bool":
            return bool(e["v"])
        if k == "Un" and e["op"] == "!":
            return not self.cmp(e["x"], env)
        if k == "Bin" and e["op"] == "&&":
            return self.cmp(e["a"], env) and self.cmp(e["b"], env)
        if k == "Bin" and e["op"] == "||":
            return self.cmp(e["a"], env) or self.cmp(e["b"], env)
        if k == "Bin" and e["op"] in ("<", ">", "<=", ">=", "==", "!="):
            diff = self.conv.conv(e["a"], env) - self.conv.conv(e["b"], env)
            for subs in self.subs_sets:
                dd = sp.expand(diff.subs(subs))
                r = decide_sign(dd, e["op"])
                if r is not None:
                    return r
            # not uniform over the class?  split a class parameter p into p = 0 and p >= 1
            params = [x for x in diff.subs(self.subs_sets[0]).free_symbols if str(x) in ("k", "m")]
            for par in params:
                p1 = sp.Symbol("p1", integer=True, nonnegative=True)
                outcomes = set()
                for rep in (sp.Integer(0), 1 + p1):
                    got = None
                    for subs in self.subs_sets:
                        dd = sp.expand(diff.subs(subs).subs(par, rep))
                        got = decide_sign(dd, e["op"])
                        if got is not None:
                            break
                    outcomes.add(got)
                if outcomes == {True, False}:
                    raise NonUniform("`%s` is true for some indices / sizes of this class and false for others (an off-by-one at "
                                     "the class boundary)" % C.pretty(e))
            raise AnalysisBroken("%s: cannot decide `%s` in this index class" % (self.fn["full"], C.pretty(e)))
        v = self.conv.conv(e, env)
        if v in (sp.true, True, 1):
            return True
        if v in (sp.false, False, 0):
            return False
        raise AnalysisBroken("%s: condition `%s` is not a comparison" % (self.fn["full"], C.pretty(e)))


class NonUniform(Exception):
    pass


def decide_sign(d, op):
    if op == "<":
        return True if d.is_negative else (False if d.is_nonnegative else None)
    if op == ">":
        return True if d.is_positive else (False if d.is_nonpositive else None)
    if op == "<=":
        return True if d.is_nonpositive else (False if d.is_positive else None)
    if op == ">=":
        return True if d.is_nonnegative else (False if d.is_negative else None)
    if op == "==":
        return True if d.is_zero else (False if (d.is_positive or d.is_negative or d.is_zero is False) else None)
    if op == "!=":
        r = decide_sign(d, "==")
        return None if r is None else not r
    return None


def rule_inside(chk, lib):
    fn = one(lib, "CartesianDensityGrid::is_inside")
    chk.analysed(function=fn["full"])
    idx_p, pos_p = fn["params"][0], fn["params"][1]
    n = 0
    nsym = [sp.Symbol("n_%s" % c, integer=True, positive=True) for c in AX]
    k = sp.Symbol("k", integer=True, nonnegative=True)
    classes = ("below", "inside", "above")
    for cls in itertools.product(classes, repeat=3):
        for flags in itertools.product((False, True), repeat=3):
            conv = CompConv()
            I = [sp.Symbol("I_%s" % c, integer=True) for c in AX]
            P = [sp.Symbol("P_%s" % c, real=True) for c in AX]
            env = Env()
            for a in range(3):
                env.vals[("i", ("l", idx_p["id"]), a)] = I[a]
                env.vals[("i", ("l", pos_p["id"]), a)] = P[a]
            # name the members through the converter's component symbols, then substitute classes
            def subs_for(rep):
                m = {}
                for a in range(3):
                    na = conv.csym("_ncell", a)
                    m[na] = nsym[a]
                    if cls[a] == "below":
                        m[I[a]] = -1 - k
                    elif cls[a] == "above":
                        m[I[a]] = nsym[a] + k
                    else:
                        m[I[a]] = k if rep == 0 else nsym[a] - 1 - k
                return m
            ce = CaseEval(fn, conv, [subs_for(0), subs_for(1)])
            exp_inside = all(flags[a] or cls[a] == "inside" for a in range(3))
            try:
                result = run_inside(fn, conv, ce, env, flags)
            except NonUniform as ex:
                n += 1
                chk.fail("N4", "is_inside with index classes %s and periodic flags %s: result, wrapped index and shifted position" %
                         ("/".join(cls), "/".join("p" if f else "o" for f in flags)), where(fn), str(ex), function=fn["full"],
                         construct="periodic wrap")
                continue
            ok = result == exp_inside
            detail = []
            if not ok:
                detail.append("returns %s, expected %s" % (result, exp_inside))
            for a in range(3):
                iv = env.vals[("i", ("l", idx_p["id"]), a)]
                pv = env.vals[("i", ("l", pos_p["id"]), a)]
                na = conv.csym("_ncell", a)
                if flags[a] and cls[a] == "below":
                    wi, shift = na - 1, +1
                elif flags[a] and cls[a] == "above":
                    wi, shift = sp.Integer(0), -1
                else:
                    wi, shift = I[a], 0
                if sp.expand(iv - wi) != 0:
                    ok = False
                    detail.append("index %s becomes %s, expected %s" % (AX[a], iv, wi))
                dp = sp.expand(pv - P[a])
                if shift == 0:
                    if dp != 0:
                        ok = False
                        detail.append("position %s is changed by %s" % (AX[a], dp))
                else:
                    side = [s for s in dp.free_symbols] if hasattr(dp, "free_symbols") else []
                    good = len(side) == 1 and "get_sides" in str(side[0]) and str(side[0]).endswith("_" + AX[a]) and \
                        sp.expand(dp - shift * side[0]) == 0
                    if not good:
                        ok = False
                        detail.append("position %s is shifted by %s, expected %s one box length along %s" %
                                      (AX[a], dp, "+" if shift > 0 else "-", AX[a]))
            n += 1
            chk.require(ok, "N4", "is_inside with index classes %s and periodic flags %s: result, wrapped index and shifted position" %
                        ("/".join(cls), "/".join("p" if f else "o" for f in flags)), where(fn), "; ".join(detail),
                        function=fn["full"], construct="periodic wrap")
    return n


def run_inside(fn, conv, ce, env, flags):
    """Execute is_inside for one case; returns the boolean result; env holds the final index / position components."""
    bools = {}

    def flag_axis(e):
        b, a = axis_of(e)
        if b is not None and base_name(b) == "_periodicity_flags":
            return a
        return None

    def cond(e):
        e0 = C.strip_casts(e)
        if e0.get("k") == "Un" and e0["op"] == "!":
            return not cond(e0["x"])
        a = flag_axis(e0)
        if a is not None:
            return flags[a]
        if e0.get("k") == "Ref" and e0.get("id") in bools:
            return bools[e0["id"]]
        if e0.get("k") == "Bin" and e0["op"] in ("&&", "||"):
            l = cond(e0["a"])
            if e0["op"] == "&&":
                return l and cond(e0["b"])
            return l or cond(e0["b"])
        return ce.cmp(e0, env)

    def assign(lhs, op, rhs):
        b, a = axis_of(lhs)
        if b is None or C.strip_casts(b).get("k") != "Ref":
            raise AnalysisBroken("is_inside: assignment to `%s` not understood" % C.pretty(lhs))
        key = ("i", ("l", C.strip_casts(b)["id"]), a)
        val = conv.conv(rhs, env)
        old = env.vals[key]
        env.vals[key] = {"=": val, "+=": old + val, "-=": old - val}[op]

    def run(stmts):
        for st in flat(stmts):
            k = st.get("k")
            if k == "Decl":
                for d in st["d"]:
                    if (d.get("t") or "").replace("const ", "").strip() == "bool" and d.get("init") is not None:
                        bools[d["id"]] = cond(d["init"])
                    elif d.get("init") is not None:
                        env.vals[("l", d["id"])] = conv.conv(d["init"], env)
            elif k == "Bin" and st["op"] in ("&=", "|=", "=") and C.strip_casts(st["a"]).get("k") == "Ref" and \
                    C.strip_casts(st["a"]).get("id") in bools:
                i = C.strip_casts(st["a"])["id"]
                v = cond(st["b"])
                bools[i] = v if st["op"] == "=" else ((bools[i] and v) if st["op"] == "&=" else (bools[i] or v))
            elif k == "Bin" and st["op"] in ("=", "+=", "-="):
                assign(st["a"], st["op"], st["b"])
            elif k == "Call" and st.get("op") in ("=", "+=", "-=") and st.get("obj") is not None:
                assign(st["obj"], st["op"], st["a"][0])
            elif k == "If":
                if cond(st["c"]):
                    r = run([st["th"]])
                else:
                    r = run([st["el"]]) if st.get("el") is not None else None
                if r is not None:
                    return r
            elif k == "Return":
                return cond(st["x"])
            else:
                raise AnalysisBroken("is_inside: statement kind %s not understood (line %s)" % (k, st.get("l")))
        return None
    r = run(fn["body"]["s"])
    if r is None:
        raise AnalysisBroken("is_inside: no return reached")
    return r


# ------------------------------------------------------------------------------------------------ N5
def straight(fn, conv, env):
    """Straight-line evaluation of a loop-free, branch-free function; returns the Return node."""
    for st in flat(fn["body"]["s"]):
        k = st.get("k")
        if k == "Decl":
            for d in st["d"]:
                if d.get("init") is None:
                    continue
                init = C.strip_casts(d["init"])
                if "CoordinateVector" in (d.get("t") or "") or "Box" in (d.get("t") or ""):
                    vec_assign(conv, env, ("l", d["id"]), init)
                else:
                    env.vals[("l", d["id"])] = conv.conv(init, env)
        elif k == "Bin" and st["op"] in ("=", "+=", "-=", "*=", "/=") and C.strip_casts(st["a"]).get("k") == "Ref":
            key = ("l", C.strip_casts(st["a"])["id"])
            v = conv.conv(st["b"], env)
            old = env.vals.get(key)
            if st["op"] != "=" and old is None:
                old = conv.conv(st["a"], env)
            env.vals[key] = {"=": v, "+=": (old or 0) + v, "-=": (old or 0) - v, "*=": (old or 0) * v}.get(st["op"]) \
                if st["op"] != "/=" else conv.binop("/", old, v, st)
        elif k in ("Bin", "Call") and st.get("op") in ("=", "+=", "-=") and \
                axis_of(st["a"] if k == "Bin" else st.get("obj"))[0] is not None:
            lhs = st["a"] if k == "Bin" else st["obj"]
            rhs = st["b"] if k == "Bin" else st["a"][0]
            b, a = axis_of(lhs)
            b0 = C.strip_casts(b)
            if b0.get("k") != "Ref" or "id" not in b0:
                raise AnalysisBroken("%s: component assignment to `%s` (line %s)" % (fn["full"], C.pretty(lhs), st.get("l")))
            key = ("i", ("l", b0["id"]), a)
            v = conv.conv(rhs, env)
            old = env.vals.get(key, sp.Integer(0))
            env.vals[key] = {"=": v, "+=": old + v, "-=": old - v}[st["op"]]
        elif k == "Return":
            return st
        else:
            raise AnalysisBroken("%s: statement kind %s not understood (line %s)" % (fn["full"], k, st.get("l")))
    raise AnalysisBroken("%s: no return" % fn["full"])


def vec_of(conv, env, e):
    """Three components of a vector-valued expression."""
    e = C.strip_casts(e)
    k = e.get("k")
    if k == "Ctor" and len(e["a"]) == 3:
        return [conv.conv(a, env) for a in e["a"]]
    if k == "Ctor" and len(e["a"]) == 1:
        return vec_of(conv, env, e["a"][0])
    if k == "Ctor" and not e["a"] and "CoordinateVector" in (e.get("cls") or e.get("t") or ""):
        return [sp.Integer(0)] * 3
    if k in ("Ref", "Mem"):
        key = conv.key(e)
        if ("i", key, 0) in env.vals:
            return [env.vals[("i", key, a)] for a in range(3)]
        return [conv.csym(base_name(e), a) for a in range(3)]
    if k == "Call" and e.get("op") in ("+", "-") and (e.get("obj") is not None or len(e["a"]) == 2):
        l, r = ([e["obj"]] + e["a"]) if e.get("obj") is not None else e["a"]
        lv, rv = vec_of(conv, env, l), vec_of(conv, env, r)
        return [(x + y) if e["op"] == "+" else (x - y) for x, y in zip(lv, rv)]
    if k == "Call" and e.get("op") == "*" and len(([e["obj"]] if e.get("obj") is not None else []) + e["a"]) == 2:
        l, r = ([e["obj"]] + e["a"]) if e.get("obj") is not None else e["a"]
        if "CoordinateVector" in (C.strip_casts(l).get("t") or ""):
            l, r = r, l
        s = conv.conv(l, env)
        return [s * x for x in vec_of(conv, env, r)]
    if k == "Call" and e.get("obj") is not None and not e["a"]:
        ob = C.strip_casts(e["obj"])
        okey = conv.key(ob) if ob.get("k") in ("Ref", "Mem") else None
        if okey is not None and ("box", okey, e.get("n")) in env.vals:
            return env.vals[("box", okey, e.get("n"))]
        return [conv.csym(base_name(e), a) for a in range(3)]
    raise AnalysisBroken("vector expression not understood: %s (line %s)" % (C.pretty(e), e.get("l")))


def vec_assign(conv, env, key, init):
    init = C.strip_casts(init)
    t = init.get("t") or ""
    if init.get("k") == "Ctor" and "Box" in (init.get("cls") or "") and len(init["a"]) == 2:
        env.vals[("box", key, "get_anchor")] = vec_of(conv, env, init["a"][0])
        env.vals[("box", key, "get_sides")] = vec_of(conv, env, init["a"][1])
        return
    v = vec_of(conv, env, init)
    for a in range(3):
        env.vals[("i", key, a)] = v[a]


def floor_certificate(expr, ranges):
    """Rewrite floor(num/den) as q when num = q den + r with 0 <= r <= den - 1 over the given variable ranges
    (variables in [0, max]); returns the rewritten expression or raises when a floor cannot be discharged."""
    def fix(fl):
        arg = sp.together(fl.args[0])
        num, den = sp.fraction(arg)
        num = sp.expand(num)
        q = r = sp.Integer(0)
        for term in sp.Add.make_args(num):
            t = sp.cancel(term / den)
            if sp.fraction(t)[1] == 1:
                q += t
            else:
                r += term
        # bounds of r over the box: coefficients must be non-negative
        rmax = r
        for v, vmax in ranges.items():
            co = sp.expand(r).coeff(v, 1) if r.has(v) else 0
            if r.has(v) and sp.degree(sp.expand(r), v) != 1:
                raise AnalysisBroken("floor certificate: remainder not linear in %s" % v)
            if r.has(v) and not co.is_nonnegative:
                raise AnalysisBroken("floor certificate: sign of the coefficient of %s unknown" % v)
            rmax = rmax.subs(v, vmax)
        rmin = r
        for v in ranges:
            rmin = rmin.subs(v, 0)
        if not sp.expand(rmin).is_nonnegative or not sp.expand(den - 1 - rmax).is_nonnegative:
            raise AnalysisBroken("floor certificate fails: remainder %s is not in [0, %s)" % (r, den))
        return sp.expand(q)
    guard = 0
    while expr.has(sp.floor):
        guard += 1
        if guard > 20:
            raise AnalysisBroken("floor certificate: nested floors")
        inner = [f for f in expr.atoms(sp.floor) if not f.args[0].has(sp.floor)]
        if not inner:
            raise AnalysisBroken("floor certificate: no innermost floor")
        expr = expr.xreplace({f: fix(f) for f in inner})
    return sp.expand(expr)


def rule_index_maps(chk, lib, prog):
    n = 0
    g_long = one(lib, "CartesianDensityGrid::get_long_index")
    g_ind = one(lib, "CartesianDensityGrid::get_indices")
    g_num = one(lib, "CartesianDensityGrid::get_number_of_cells")
    for f in (g_long, g_ind, g_num):
        chk.analysed(function=f["full"])
    N = [sp.Symbol("n_%s" % c, integer=True, positive=True) for c in AX]
    I = [sp.Symbol("i_%s" % c, integer=True, nonnegative=True) for c in AX]
    conv = CompConv()
    nm = {conv.csym("_ncell", a): N[a] for a in range(3)}
    env = Env()
    for a in range(3):
        env.vals[("i", ("l", g_long["params"][0]["id"]), a)] = I[a]
    r = straight(g_long, conv, env)
    L = sp.expand(conv.conv(r["x"], env).xreplace(nm))
    ranges = {I[a]: N[a] - 1 for a in range(3)}
    # range of the long index
    Lmax = L
    for v, vm in ranges.items():
        Lmax = Lmax.subs(v, vm)
    env2 = Env()
    total = sp.expand(conv.conv(straight(g_num, conv, env2)["x"], env2).xreplace(nm))
    n += 1
    coeffs_ok = all(sp.expand(L).coeff(I[a], 1).is_positive for a in range(3))
    chk.require(coeffs_ok and sp.expand(total - 1 - Lmax) == 0 and L.subs({v: 0 for v in I}) == 0, "N5",
                "get_long_index maps [0,nx)x[0,ny)x[0,nz) into [0, number of cells): smallest 0, largest nx ny nz - 1", where(r, g_long),
                "long index %s: largest value %s, number of cells %s" % (L, sp.expand(Lmax), total), function=g_long["full"],
                construct="long index range")
    # inverse
    env3 = Env()
    Ls = sp.Symbol("L", integer=True, nonnegative=True)
    env3.vals[("l", g_ind["params"][0]["id"])] = Ls
    r3 = straight(g_ind, conv, env3)
    comps = vec_of(conv, env3, r3["x"])
    for a in range(3):
        n += 1
        try:
            got = floor_certificate(sp.expand(comps[a].xreplace(nm).subs(Ls, L)), ranges)
            ok, det = sp.expand(got - I[a]) == 0, "component %s of get_indices(get_long_index(i)) is %s" % (AX[a], got)
        except AnalysisBroken as ex:
            ok, det = False, str(ex)
        chk.require(ok, "N5", "get_indices(get_long_index(i)) returns i along %s for every index in range (mixed-radix certificate)" % AX[a],
                    where(r3, g_ind), det, function=g_ind["full"], construct="index round trip %s" % AX[a])
    # geometry: get_cell_indices and get_cell are inverse affine maps, volumes add up
    ctor = [d for d in lib.decls if d["kind"] == "function" and d.get("ctor") and d.get("body") and
            d["full"].startswith("CartesianDensityGrid::CartesianDensityGrid") and not d.get("delegating") and
            not d.get("copyctor") and
            any(s.get("k") in ("Bin", "Call") and s.get("op") == "=" for s in flat(d["body"]["s"]))]
    if not ctor:
        raise AnalysisBroken("CartesianDensityGrid constructor not found")
    ctor = ctor[0]
    load_aliases(ctor)
    chk.analysed(function=ctor["full"])
    cenv = Env()
    for st in flat(ctor["body"]["s"]):
        k = st.get("k")
        if k == "Decl":
            for d in st["d"]:
                if d.get("init") is not None and "CoordinateVector" not in (d.get("t") or ""):
                    try:
                        cenv.vals[("l", d["id"])] = conv.conv(d["init"], cenv)
                    except AnalysisBroken:
                        pass
        elif k in ("Bin", "Call") and (st.get("op") == "="):
            lhs = st["a"] if k == "Bin" else st.get("obj")
            rhs = st["b"] if k == "Bin" else (st["a"][0] if st["a"] else None)
            if lhs is None or rhs is None:
                continue
            m = C.member_name(lhs)
            if m:
                v = vec_of(conv, cenv, rhs)
                for a in range(3):
                    cenv.vals[("i", ("m", m), a)] = v[a]
                continue
            b, a = axis_of(lhs)
            if b is not None and C.member_name(b):
                cenv.vals[("i", ("m", C.member_name(b)), a)] = conv.conv(rhs, cenv)
    member_defs = {}
    for key, v in cenv.vals.items():
        if key[0] == "i" and key[1][0] == "m":
            member_defs[conv.csym(key[1][1], key[2])] = v
    g_ci = one(lib, "CartesianDensityGrid::get_cell_indices")
    g_cell = [d for d in lib.decls if d["kind"] == "function" and d["full"].split("(")[0] == "CartesianDensityGrid::get_cell" and
              d.get("body") and "CoordinateVector" in (d["params"][0].get("t") or "")]
    if not g_cell:
        raise AnalysisBroken("CartesianDensityGrid::get_cell(indices) not found")
    g_cell = g_cell[0]
    g_vol = [d for d in lib.decls if d["kind"] == "function" and d["full"].split("(")[0] == "CartesianDensityGrid::get_cell_volume" and
             d.get("body") and "CoordinateVector" in (d["params"][0].get("t") or "")][0]
    for f in (g_ci, g_cell, g_vol):
        chk.analysed(function=f["full"])
    Pp = [sp.Symbol("p_%s" % c, real=True) for c in AX]
    Ii = [sp.Symbol("j_%s" % c, real=True) for c in AX]
    e1 = Env()
    for a in range(3):
        e1.vals[("i", ("l", g_ci["params"][0]["id"]), a)] = Pp[a]
    r1 = straight(g_ci, conv, e1)
    fcomp = vec_of(conv, e1, r1["x"])
    e2 = Env()
    for a in range(3):
        e2.vals[("i", ("l", g_cell["params"][0]["id"]), a)] = Ii[a]
    r2 = straight(g_cell, conv, e2)
    rx = C.strip_casts(r2["x"])
    while rx.get("k") == "Ctor" and len(rx["a"]) == 1:
        rx = C.strip_casts(rx["a"][0])
    if not (rx.get("k") == "Ctor" and len(rx["a"]) == 2):
        raise AnalysisBroken("get_cell does not return Box(anchor, sides)")
    anchor, sides = vec_of(conv, e2, rx["a"][0]), vec_of(conv, e2, rx["a"][1])

    def full(x):
        for _ in range(4):
            x = x.xreplace(member_defs)
        return x
    for a in range(3):
        n += 1
        fa = full(fcomp[a])
        lo_img = sp.simplify(fa.subs(Pp[a], full(anchor[a])))
        hi_img = sp.simplify(fa.subs(Pp[a], full(anchor[a] + sides[a])))
        chk.require(sp.simplify(lo_img - Ii[a]) == 0 and sp.simplify(hi_img - Ii[a] - 1) == 0, "N5",
                    "along %s the cell [anchor, anchor + side) of index j is exactly the set of positions that get_cell_indices maps "
                    "to j (given the constructor's cell sizes)" % AX[a], where(r1, g_ci),
                    "index function at the cell's lower corner: %s (expected j), at its upper corner: %s (expected j + 1)" %
                    (lo_img, hi_img), function=g_ci["full"], construct="cell geometry %s" % AX[a])
    e4 = Env()
    r4 = straight(g_vol, conv, e4)
    vol = full(conv.conv(r4["x"], e4))
    box_sides = [conv.csym("_box.get_sides", a) for a in range(3)]
    n += 1
    totc = conv.conv(straight(g_num, conv, Env())["x"], Env())
    chk.require(sp.simplify(vol * totc - box_sides[0] * box_sides[1] * box_sides[2]) == 0, "N5",
                "cell volume x number of cells = box volume", where(r4, g_vol), "cell volume %s, number of cells %s" % (vol, totc),
                function=g_vol["full"], construct="volume sum")
    return n


def run(chk, prog, lib):
    _LIB[0] = lib
    n3 = rule_wall(chk, lib)
    chk.floor("N3", n3, 14)
    n4 = rule_inside(chk, lib)
    chk.floor("N4", n4, 216)
    n5 = rule_index_maps(chk, lib, prog)
    chk.floor("N5", n5, 8)
    n6 = rule_neighbours(chk, lib)
    chk.floor("N6", n6, 8)


# ------------------------------------------------------------------------------------------------ N6
def rule_neighbours(chk, lib):
    fn = one(lib, "CartesianDensityGrid::get_neighbours")
    chk.analysed(function=fn["full"])
    loops = [s for s in flat(fn["body"]["s"], unroll=False) if s.get("k") == "For"]
    if len(loops) != 1:
        raise AnalysisBroken("get_neighbours: expected one loop over the axes")
    loop = loops[0]
    init = loop.get("init")
    lv = None
    if init is not None and init.get("k") == "Decl" and len(init["d"]) == 1 and C.const_int(init["d"][0].get("init")) == 0:
        lv = init["d"][0]["id"]
    cond = C.strip_casts(loop.get("c"))
    if lv is None or not (cond.get("k") == "Bin" and cond["op"] == "<" and C.const_int(cond["b"]) == 3):
        raise AnalysisBroken("get_neighbours: the loop is not `for (i = 0; i < 3; ++i)`")

    def comp_name(e):
        """base name when e is <vector>[i] with i the loop variable."""
        e = C.strip_casts(e)
        idx = base = None
        if e.get("k") == "Idx":
            base, idx = e["a"], e["i"]
        elif e.get("k") == "Call" and e.get("op") == "[]" and e.get("obj") is not None and e["a"]:
            base, idx = e["obj"], e["a"][0]
        if idx is None:
            return None
        idx = C.strip_casts(idx)
        if idx.get("k") == "Ref" and idx.get("id") == lv:
            return base
        return None
    m = sp.Symbol("m", integer=True, nonnegative=True)
    k = sp.Symbol("k", integer=True, nonnegative=True)
    csym, nsym = sp.Symbol("c", integer=True), sp.Symbol("n", integer=True)
    cases = [("n = 1, c = 0", [{nsym: 1, csym: 0}]),
             ("n >= 2, c = 0", [{nsym: m + 2, csym: 0}]),
             ("n >= 2, c = n-1", [{nsym: m + 2, csym: m + 1}]),
             ("n >= 3, 0 < c < n-1", [{nsym: m + 3, csym: 1 + k}, {nsym: m + 3, csym: m + 1 - k}])]
    n = 0
    for cname, subs_sets in cases:
        for flag in (False, True):
            vec = {}       # local id -> value of component i
            iters = {}     # local id -> ("cell", value) | ("end",)
            pushes = []

            def atoms(key, e, vec=vec):
                b = comp_name(e)
                if b is not None:
                    b0 = C.strip_casts(b)
                    if b0.get("k") == "Ref" and b0.get("id") in vec:
                        return vec[b0["id"]]
                    nm = base_name(b0)
                    if nm == "cellindices" or "indices" in nm:
                        return csym
                    if nm == "_ncell":
                        return nsym
                    return sp.Symbol("%s_i" % nm, real=True)
                e0 = C.strip_casts(e)
                if e0.get("k") == "Ref" and "v" not in e0:
                    return sp.Symbol(e0.get("n"), real=True)
                return None
            conv = Converter(atoms=atoms)
            ce = CaseEval(fn, conv, subs_sets)
            env = Env()

            def is_flag(e):
                b = comp_name(e)
                return b is not None and base_name(C.strip_casts(b)) == "_periodicity_flags"

            bools = {}

            def cond_val(e):
                e0 = C.strip_casts(e)
                if e0.get("k") == "Un" and e0["op"] == "!":
                    return not cond_val(e0["x"])
                if is_flag(e0):
                    return flag
                if e0.get("k") == "Ref" and e0.get("id") in bools:
                    return bools[e0["id"]]
                if e0.get("k") == "Bool":
                    return bool(e0["v"])
                if e0.get("k") == "Bin" and e0["op"] in ("&&", "||"):
                    l = cond_val(e0["a"])
                    return (l and cond_val(e0["b"])) if e0["op"] == "&&" else (l or cond_val(e0["b"]))
                return ce.cmp(e0, env)

            def iter_of(e):
                """('cell', index component) / ('end',) / None for an iterator-valued expression."""
                e0 = C.strip_casts(e)
                for x in C.walk(e0):
                    if x.get("k") == "Call" and x.get("n") == "get_long_index" and x["a"]:
                        a = C.strip_casts(x["a"][0])
                        while a.get("k") == "Ctor" and len(a["a"]) == 1:
                            a = C.strip_casts(a["a"][0])
                        if a.get("k") == "Ref" and a.get("id") in vec:
                            return ("cell", vec[a["id"]])
                        raise AnalysisBroken("get_neighbours: get_long_index of something that is not a tracked index vector (line %s)" % x.get("l"))
                for x in C.walk(e0):
                    if x.get("k") == "Call" and x.get("n") == "end" and not x["a"]:
                        return ("end",)
                if e0.get("k") == "Ref" and e0.get("id") in iters:
                    return iters[e0["id"]]
                return None

            def run(stmts):
                for st in flat(stmts):
                    kk = st.get("k")
                    if kk == "Decl":
                        for d in st["d"]:
                            t = d.get("t") or ""
                            init = d.get("init")
                            if "CoordinateVector" in t:
                                src = None
                                if init is not None:
                                    for x in C.walk(init):
                                        if x.get("k") == "Ref" and "id" in x:
                                            src = x
                                if src is not None and src.get("id") in vec:
                                    vec[d["id"]] = vec[src["id"]]
                                elif src is not None and ("indices" in src.get("n", "")) and "int" in t or (src is not None and "long" in t and "indices" in src.get("n", "")):
                                    vec[d["id"]] = csym
                                elif src is None:
                                    vec[d["id"]] = sp.Integer(0)
                                else:
                                    vec[d["id"]] = sp.Symbol("%s_i" % d["n"], real=True)
                            elif "iterator" in t and init is not None:
                                it = iter_of(init)
                                if it is not None:
                                    iters[d["id"]] = it
                            elif t.replace("const ", "").strip() == "bool" and init is not None:
                                bools[d["id"]] = cond_val(init)
                    elif kk in ("Bin", "Call") and st.get("op") in ("=", "+=", "-="):
                        lhs = st["a"] if kk == "Bin" else st.get("obj")
                        rhs = st["b"] if kk == "Bin" else (st["a"][0] if st["a"] else None)
                        b = comp_name(lhs) if lhs is not None else None
                        if b is not None and C.strip_casts(b).get("k") == "Ref" and C.strip_casts(b).get("id") in vec:
                            i = C.strip_casts(b)["id"]
                            r0 = C.strip_casts(rhs)
                            while r0 is not None and r0.get("k") == "Cond":
                                r0 = C.strip_casts(r0["a"] if cond_val(r0["c"]) else r0["b"])
                            try:
                                v = conv.conv(r0, env)
                            except AnalysisBroken:
                                v = sp.Symbol("opaque_%s" % st.get("l"), real=True)
                            vec[i] = {"=": v, "+=": vec[i] + v, "-=": vec[i] - v}[st["op"]]
                    elif kk == "If":
                        if cond_val(st["c"]):
                            run([st["th"]])
                        elif st.get("el") is not None:
                            run([st["el"]])
                    elif kk == "Call" and st.get("n") == "push_back" and st["a"]:
                        tup = None
                        for x in C.walk(st["a"][0]):
                            if x.get("k") == "Call" and x.get("n") == "make_tuple":
                                tup = x
                        if tup is None or len(tup["a"]) < 3:
                            raise AnalysisBroken("get_neighbours: push_back without make_tuple (line %s)" % st.get("l"))
                        it = iter_of(tup["a"][0])
                        nrm = C.strip_casts(tup["a"][2])
                        while nrm.get("k") == "Ctor" and len(nrm["a"]) == 1:
                            nrm = C.strip_casts(nrm["a"][0])
                        nv = vec.get(nrm.get("id")) if nrm.get("k") == "Ref" else None
                        if it is None or nv is None:
                            raise AnalysisBroken("get_neighbours: cannot read the neighbour / normal of the tuple at line %s" % st.get("l"))
                        pushes.append((it, nv, st))
                    elif kk in ("For", "While", "Do", "Switch"):
                        raise AnalysisBroken("get_neighbours: nested loop in the per-axis body")
            # the index vector of the cell itself
            for st in flat(fn["body"]["s"], unroll=False):
                if st.get("k") == "Decl":
                    for d in st["d"]:
                        if "CoordinateVector<int" in (d.get("t") or "") or "CoordinateVector<long" in (d.get("t") or ""):
                            vec[d["id"]] = csym
            try:
                run([loop["body"]])
            except NonUniform as ex:
                n += 1
                chk.fail("N6", "get_neighbours, %s, %s boundary: low neighbour c-1 (wrap n-1 / none), high neighbour c+1 "
                         "(wrap 0 / none), normals -1 / +1" % (cname, "periodic" if flag else "open"), where(loop, fn), str(ex),
                         function=fn["full"], construct="neighbour table")
                continue
            cval, nval = csym, nsym

            def norm(x):
                outs = {sp.expand(sp.sympify(x).subs(s)) for s in subs_sets}
                return outs
            want = {}
            want[-1] = ("cell", cval - 1) if cname != "n = 1, c = 0" and cname != "n >= 2, c = 0" else \
                (("cell", nval - 1) if flag else ("end",))
            want[1] = ("cell", cval + 1) if cname in ("n >= 2, c = 0", "n >= 3, 0 < c < n-1") else \
                (("cell", sp.Integer(0)) if flag else ("end",))
            got = {}
            detail = []
            for it, nv, st in pushes:
                nvs = norm(nv)
                if nvs == {sp.Integer(-1)} or nvs == {sp.Float(-1.0)} or all(x == -1 for x in nvs):
                    side = -1
                elif all(x == 1 for x in nvs):
                    side = 1
                else:
                    detail.append("a neighbour with normal component %s (line %s)" % (nv, st.get("l")))
                    continue
                if side in got:
                    detail.append("two neighbours on the %s side" % ("low" if side < 0 else "high"))
                got[side] = it
            for side in (-1, 1):
                w = want[side]
                g = got.get(side)
                sname = "low" if side < 0 else "high"
                if g is None:
                    detail.append("no %s neighbour entry" % sname)
                elif w[0] == "end":
                    if g[0] != "end":
                        detail.append("%s side: a cell (%s) where the box ends" % (sname, g[1]))
                elif g[0] != "cell" or any(sp.expand((sp.sympify(g[1]) - w[1]).subs(s_)) != 0 for s_ in subs_sets):
                    detail.append("%s side: neighbour index %s, expected %s" % (sname, g[1] if g[0] == "cell" else "end()", w[1]))
            n += 1
            chk.require(not detail, "N6", "get_neighbours, %s, %s boundary: low neighbour c-1 (wrap n-1 / none), high neighbour c+1 "
                        "(wrap 0 / none), normals -1 / +1" % (cname, "periodic" if flag else "open"), where(loop, fn),
                        "; ".join(detail), function=fn["full"], construct="neighbour table")
    return n
