"""C12-M8: a container handed to a task context is as long as the loops that index it there.

The drivers allocate per-block containers (`std::vector<ThreadLock> locks(n)`) and hand them by reference to task contexts,
which index them with loop counters bounded by *their own* idea of the block count (`_queues.size()`).  "No out-of-bounds
access" needs the two to agree.  Interprocedural size agreement:

  * for every `new K(args)` / `K obj(args)` in a function of the library whose class K stores constructor parameters in
    reference members, each such member is bound to the argument expression at the construction site;
  * in every method of K, a loop `for (v = A; v < B; ++v)` (B through const locals) that indexes a bound member `M[v]`
    gives the obligation  size(M) >= B, both written in the constructing function's terms: B with the members of K
    replaced by their bound arguments, size(M) from the declaration `std::vector<T> m(S)` of the bound local (S through
    const locals);
  * identical terms hold.  If they differ and size(M) is a function of the inputs of B only, the two are evaluated over
    small values of those inputs; an assignment with size(M) < B is a run that indexes past the end - reported with the
    assignment.  Anything else (a container sized elsewhere, terms over unrelated inputs) is not an instance.
"""
import itertools

import sympy as sp

from .. import cfg as C
from ..astdb import AnalysisBroken, where


def _decls_of(fn):
    out = {}
    for s in C.walk_stmt(fn["body"]):
        ds = []
        if s.get("k") == "Decl":
            ds = s["d"]
        elif s.get("k") == "For" and s.get("init") is not None and s["init"].get("k") == "Decl":
            ds = s["init"]["d"]
        for d in ds:
            out[d["id"]] = d
    return out


class Term:
    """an integer expression as a sympy term over named atoms"""

    def __init__(self):
        self.atoms = {}

    def atom(self, text):
        if text not in self.atoms:
            self.atoms[text] = sp.Symbol("a%d" % len(self.atoms), integer=True, nonnegative=True)
        return self.atoms[text]


def to_term(e, decls, T, member_map=None, depth=0):
    """sympy term of an integer AST expression; const locals are resolved; members are atoms `this.<m>` or, with member_map,
    the term of the bound argument (member_map: name -> sympy term or None)"""
    e = C.strip_casts(e)
    k = e.get("k")
    if depth > 10:
        return None
    if k == "Int":
        return sp.Integer(int(e["v"]))
    if k == "Ref" and e.get("id") in decls:
        d = decls[e["id"]]
        if d.get("init") is not None and "const" in (d.get("t") or "") and "vector" not in (d.get("t") or ""):
            return to_term(d["init"], decls, T, member_map, depth + 1)
        return T.atom("local %s#%s" % (e.get("n"), e["id"]))
    if k == "Ref":
        return T.atom("ref %s" % e.get("n"))
    m = C.member_name(e)
    if m:
        if member_map is not None and m in member_map:
            return T.atom(member_map[m]) if member_map[m] else None
        return T.atom("this.%s" % m)
    if k == "Bin" and e.get("op") in ("+", "-", "*"):
        a, b = to_term(e["a"], decls, T, member_map, depth + 1), to_term(e["b"], decls, T, member_map, depth + 1)
        if a is None or b is None:
            return None
        return a + b if e["op"] == "+" else (a - b if e["op"] == "-" else a * b)
    if k == "Call" and (e.get("fn") or "").split("::")[-1] in ("min", "max") and len(e.get("a", [])) == 2:
        a, b = to_term(e["a"][0], decls, T, member_map, depth + 1), to_term(e["a"][1], decls, T, member_map, depth + 1)
        if a is None or b is None:
            return None
        return sp.Min(a, b) if e["fn"].endswith("min") else sp.Max(a, b)
    if k == "Call" and e.get("n") == "size" and e.get("obj") is not None and not e.get("a"):
        o = C.strip_casts(e["obj"])
        om = C.member_name(o)
        if om:
            if member_map is not None and om in member_map:
                inner = member_map[om]
                if inner is None:
                    return None
                return T.atom("size(%s)" % inner)
            return T.atom("size(this.%s)" % om)
        if o.get("k") == "Ref":
            return T.atom("size(local %s#%s)" % (o.get("n"), o.get("id")))
        return None
    if k == "Ctor" and len(e.get("a", [])) == 1:
        return to_term(e["a"][0], decls, T, member_map, depth + 1)
    return None


def rule_M8(chk, lib):
    # classes with reference members bound to constructor parameters
    ctors = {}
    for d in lib.decls:
        if d["kind"] == "function" and d.get("ctor") and d.get("body") is not None and not d.get("dependent") and d.get("cls"):
            p2m = {}
            pid = {p["id"]: i for i, p in enumerate(d["params"]) if "id" in p}
            for ini in d.get("inits") or []:
                x0 = C.strip_casts(ini["x"]) if ini.get("x") is not None else None
                if x0 is not None and x0.get("k") == "Ref" and x0.get("id") in pid and ini.get("member"):
                    p2m[pid[x0["id"]]] = ini["member"]
            if p2m:
                ctors.setdefault(d["cls"], []).append((d, p2m))
    methods = {}
    for d in lib.decls:
        if d["kind"] == "function" and d.get("body") is not None and not d.get("dependent") and d.get("cls") in ctors and \
                not d.get("ctor"):
            methods.setdefault(d["cls"], []).append(d)
    n = 0
    sites = 0
    seen = set()
    for fn in lib.decls:
        if fn["kind"] != "function" or fn.get("body") is None or fn.get("dependent"):
            continue
        key = (fn["full"], fn.get("file"), fn.get("line"))
        if key in seen:
            continue
        cons = []
        for x in C.walk_stmt(fn["body"]):
            c = None
            if x.get("k") == "New" and isinstance(x.get("init"), dict) and x["init"].get("k") == "Ctor":
                c = x["init"]
            if c is not None and c.get("cls") in ctors and not any(c is y for y in cons):
                cons.append(c)
        if not cons:
            continue
        seen.add(key)
        decls = _decls_of(fn)
        for c in cons:
            cands = [(d, p2m) for d, p2m in ctors[c["cls"]] if len(d["params"]) == len(c["a"])]
            if len(cands) != 1:
                continue
            ctor, p2m = cands[0]
            T = Term()
            # members of K in the constructing function's terms: the argument itself (for .size()) and, for vector locals,
            # their allocated length
            bound_text = {}
            length = {}
            for i, mname in p2m.items():
                a = C.strip_casts(c["a"][i])
                while a.get("k") == "Un" and a.get("op") == "*":
                    a = C.strip_casts(a["x"])
                am = C.member_name(a)
                if am:
                    bound_text[mname] = "this.%s" % am
                elif a.get("k") == "Ref" and a.get("id") in decls:
                    bound_text[mname] = "local %s#%s" % (a.get("n"), a["id"])
                    d = decls[a["id"]]
                    i0 = C.strip_casts(d["init"]) if d.get("init") is not None else None
                    if "vector" in (d.get("t") or "") and i0 is not None and i0.get("k") == "Ctor" and i0.get("a") and \
                            len(i0["a"]) in (1, 2):
                        length[mname] = to_term(i0["a"][0], decls, T)
                else:
                    bound_text[mname] = None
            sites += 1
            # a range-for over a bound container visits exactly its elements: an instance that holds by construction
            for meth in methods.get(c["cls"], []):
                for lp in C.walk_stmt(meth["body"]):
                    if lp.get("k") == "ForRange" and C.member_name(lp.get("range")) in p2m.values():
                        n += 1
                        chk.ok("M8", "%s::%s walks %s with a range-for (bounded by the container itself)" %
                               (c["cls"], meth["name"], C.member_name(lp["range"])), where(lp, meth))
            if not length:
                continue
            mm = {m_: bound_text.get(m_) for m_ in p2m.values()}
            for meth in methods.get(c["cls"], []):
                mdecls = _decls_of(meth)
                for lp in C.walk_stmt(meth["body"]):
                    if lp.get("k") not in ("For", "While") or lp.get("c") is None:
                        continue
                    cnd = C.strip_casts(lp["c"])
                    if cnd.get("k") != "Bin" or cnd.get("op") not in ("<", "!="):
                        continue
                    iv = None
                    if lp.get("k") == "For" and lp.get("init") is not None and lp["init"].get("k") == "Decl":
                        iv = lp["init"]["d"][0]
                    else:
                        # the counter of a while loop: the local on the left of the condition that the body steps by one
                        a0 = C.strip_casts(cnd["a"])
                        stepped = {C.strip_casts(x["x"]).get("id") for x in C.walk_stmt(lp["body"])
                                   if x.get("k") == "Un" and x.get("op") in ("pre++", "post++")}
                        if a0.get("k") == "Ref" and a0.get("id") in stepped and a0.get("id") in mdecls:
                            iv = mdecls[a0["id"]]
                    if iv is None or C.strip_casts(cnd["a"]).get("id") != iv["id"]:
                        continue
                    used = set()
                    for x in C.walk_stmt(lp["body"]):
                        base = idx = None
                        if x.get("k") == "Call" and x.get("op") == "[]" and x.get("obj") is not None and x.get("a"):
                            base, idx = x["obj"], x["a"][0]
                        elif x.get("k") == "Idx":
                            base, idx = x["a"], x["i"]
                        if base is not None and C.member_name(base) in length and C.strip_casts(idx).get("id") == iv["id"]:
                            used.add(C.member_name(base))
                    if not used:
                        continue
                    # the bound in the constructing function's terms
                    mterm = {}
                    for m_, txt in mm.items():
                        mterm[m_] = txt
                    B = to_term(cnd["b"], mdecls, T, member_map=mterm)
                    for m_ in sorted(used):
                        S = length[m_]
                        if B is None or S is None:
                            continue
                        n += 1
                        inst = "%s::%s indexes %s up to its loop bound; %s allocates it" % (
                            c["cls"], meth["name"], m_, fn["full"].split("(")[0])
                        inv = {v: k_ for k_, v in T.atoms.items()}

                        def show(t):
                            return str(t.xreplace({s_: sp.Symbol("<%s>" % inv[s_]) for s_ in t.free_symbols if s_ in inv}))
                        own = T.atoms.get("size(%s)" % mm.get(m_)) if mm.get(m_) else None
                        if own is not None and B == own:
                            chk.ok("M8", inst + ": the loop is bounded by the container's own size", where(lp, meth))
                            continue
                        if sp.simplify(S - B) == 0:
                            chk.ok("M8", inst + ": both are %s" % show(S), where(lp, meth))
                            continue
                        fs, fb = S.free_symbols, B.free_symbols
                        witness = None
                        if fs <= fb and len(fb) <= 3:
                            syms = sorted(fb, key=str)
                            for vals in itertools.product(range(0, 13), repeat=len(syms)):
                                env = {k_: sp.Integer(v_) for k_, v_ in zip(syms, vals)}
                                sv, bv = sp.sympify(S.xreplace(env)), sp.sympify(B.xreplace(env))
                                if sv.is_number and bv.is_number and sv >= 0 and bv >= 1 and sv < bv:
                                    witness = {inv.get(s_, str(s_)): v_ for s_, v_ in env.items()}
                                    break
                        if witness is None:
                            chk.note("M8 %s: allocated %s, indexed below %s - terms over unrelated inputs, not compared" %
                                     (inst, show(S), show(B)))
                            continue
                        chk.fail("M8", inst, where(lp, meth),
                                 "the container is allocated with %s elements but the loop indexes it for every counter below %s; "
                                 "with %s the loop runs past the end (a lock / buffer that does not exist is handed to a task)" %
                                 (show(S), show(B), witness), function=meth["full"], construct="size agreement %s" % m_)
    return n, sites
