"""C04-F7 / F8: the reflecting-wall clause, as far as it is algebra.

"With reflecting walls total mass and energy are conserved as long as gas does not run into a wall faster than 1.5 times
its sound speed."  Two parts of that clause are visible in the code:

 F8  the ghost state of ReflectiveHydroBoundary is the mirror image of the wall cell: every primitive is copied, the
     velocity component along the interface axis changes sign, every gradient component along the axis changes sign except
     that of the normal velocity (evaluated for the three axes with concrete indices);
 F7  for a mirror pair of face states (rho, u, P | rho, u - 2 (u.n) n, P) and a wall at rest the HLLC solver returns a mass
     flux and an energy flux that vanish identically on every branch that can be taken while the gas moves into the wall
     with Mach number M = (u.n)/a in [0, 1.5], for every adiabatic index in (1, 2]:
       * every leaf of the decision tree of HLLCRiemannSolver::solve_for_flux is specialised to the mirror pair (the
         solver's own wave-speed estimates included), written in (M, gamma) after a homogeneity check in the density and
         sound-speed scales;
       * a leaf is *excluded* when two of its conditions are the same expression with opposite outcome, or when a
         branch-and-bound interval evaluation over [0, 1.5] x [1, 2] shows on every sub-box that one of its conditions
         fails (outward-rounded intervals; the dependency problem is met by subdivision);
       * every leaf that is not excluded must have mass flux == 0 and energy flux == 0 as formulas.
     The other direction (gas moving into a wall on its left) is the mirror image, which C05-S2 decides.

Not decided: that the second-order face reconstruction (gradients + slope limiter) maps mirror cell states to mirror face
states (it does when the limiter is an odd function of its arguments - not analysed), round-off, and momentum (a wall
takes up momentum by design).
"""
import math

import sympy as sp

from .. import cfg as C
from ..astdb import AnalysisBroken, where
from ..riemann import Solver, flux_leaves, gamma, sym_for, sign_pred, show_conds, rat_is_zero
from .c18 import IV, iv_add, iv_mul, iv_div, iv_pow

M_MAX = 1.5


# ------------------------------------------------------------------------------------------------ interval evaluation
def iv_eval(e, box):
    if e.is_Number:
        f = float(e)
        if e.is_Integer and abs(int(e)) < 2 ** 53:
            return IV(f)
        return IV(math.nextafter(f, -math.inf), math.nextafter(f, math.inf))
    if e.is_Symbol:
        if e not in box:
            raise AnalysisBroken("F7: symbol %s has no range" % e)
        return box[e]
    if e.is_Add:
        r = IV(0.0)
        for a in e.args:
            r = iv_add(r, iv_eval(a, box))
        return r
    if e.is_Mul:
        r = IV(1.0)
        for a in e.args:
            r = iv_mul(r, iv_eval(a, box))
        return r
    if e.is_Pow:
        b, ex = e.as_base_exp()
        if not ex.is_Rational:
            raise AnalysisBroken("F7: exponent %s" % ex)
        bi = iv_eval(b, box)
        if ex.is_Integer and int(ex) > 0:
            r = IV(1.0)
            n = int(ex)
            if n % 2 == 0 and bi.lo <= 0 <= bi.hi:
                m = max(abs(bi.lo), abs(bi.hi))
                return IV(0.0, iv_pow(IV(m), float(n)).hi if m > 0 else 0.0)
            for _ in range(n):
                r = iv_mul(r, bi)
            return r
        if ex.is_Integer and int(ex) < 0:
            return iv_div(IV(1.0), iv_eval(sp.Pow(b, -ex), box))
        # fractional: base must be non-negative
        if bi.hi < 0:
            raise AnalysisBroken("F7: root of a negative range")
        lo = max(bi.lo, 0.0)
        if float(ex) > 0:
            if lo == 0.0:
                hi = iv_pow(IV(bi.hi), float(ex)).hi if bi.hi > 0 else 0.0
                return IV(0.0, hi)
            return iv_pow(IV(lo, bi.hi), float(ex))
        if lo == 0.0:
            return IV(-math.inf, math.inf)
        return iv_pow(IV(lo, bi.hi), float(ex))
    if isinstance(e, sp.Max):
        vs = [iv_eval(a, box) for a in e.args]
        return IV(max(v.lo for v in vs), max(v.hi for v in vs))
    if isinstance(e, sp.Min):
        vs = [iv_eval(a, box) for a in e.args]
        return IV(min(v.lo for v in vs), min(v.hi for v in vs))
    if isinstance(e, sp.Abs):
        v = iv_eval(e.args[0], box)
        if v.lo >= 0:
            return v
        if v.hi <= 0:
            return IV(-v.hi, -v.lo)
        return IV(0.0, max(-v.lo, v.hi))
    raise AnalysisBroken("F7: interval evaluation does not know %s" % type(e).__name__)


def sign_on(e, box):
    """+1 / -1 if e is definitely positive / negative on the box, 0 if undetermined.  Quotients are decided through
    numerator and denominator, so that a denominator that only vanishes on the border of the domain (gamma - 1) does not
    blur the sign."""
    num, den = sp.fraction(sp.together(e))
    n = iv_eval(num, box)
    d = iv_eval(den, box) if den != 1 else IV(1.0)
    sn = 1 if n.lo > 0 else (-1 if n.hi < 0 else 0)
    sd = 1 if d.lo >= 0 and d.hi > 0 else (-1 if d.hi <= 0 and d.lo < 0 else 0)
    return sn * sd


# ------------------------------------------------------------------------------------------------ F8
class _Return(Exception):
    def __init__(self, v):
        Exception.__init__(self)
        self.v = v


def ghost_state(u, fn, axis, depth=0, argvals=None):
    """Symbolic ghost state {('primitives', k): expr, ('primitive_gradients', k): [3 exprs]} returned by a ghost-state
    function of ReflectiveHydroBoundary for a concrete interface axis; the wall cell's primitives are w0..w4 and its
    gradients g<k>_<c>.  Index arithmetic is concrete, loops with literal bounds are unrolled, branches on indices taken;
    helper functions that take the wall state (of this class or a base class) are evaluated with their arguments bound."""
    if depth > 4:
        raise AnalysisBroken("%s: recursion" % fn["full"])
    env = {}
    if argvals is not None:
        for p_, v_ in zip(fn["params"], argvals):
            env[p_["id"]] = v_
    else:
        pi = [p for p in fn["params"] if "HydroVariables" not in (p.get("t") or "") and
              "CoordinateVector" not in (p.get("t") or "")]
        left = [p for p in fn["params"] if "HydroVariables" in (p.get("t") or "")]
        if not pi or len(left) != 1:
            raise AnalysisBroken("%s: axis / left state parameters not found" % fn["full"])
        env = {pi[0]["id"]: axis, left[0]["id"]: "L"}
        for p in pi[1:]:
            env[p["id"]] = 1          # orientation: not used for the mirror image

    def L(kind, k):
        if kind == "primitives":
            return sp.Symbol("w%d" % k)
        return [sp.Symbol("g%d_%d" % (k, c)) for c in range(3)]

    def ival(e):
        e = C.strip_casts(e)
        if e.get("k") == "Int":
            return int(e["v"])
        if e.get("k") == "Ref" and isinstance(env.get(e.get("id")), int):
            return env[e["id"]]
        if e.get("k") == "Bin" and e.get("op") in ("+", "-", "*"):
            a, b = ival(e["a"]), ival(e["b"])
            return a + b if e["op"] == "+" else (a - b if e["op"] == "-" else a * b)
        if e.get("k") == "Bin" and e.get("op") in ("==", "!=", "<", ">", "<=", ">="):
            a, b = ival(e["a"]), ival(e["b"])
            return {"==": a == b, "!=": a != b, "<": a < b, ">": a > b, "<=": a <= b, ">=": a >= b}[e["op"]]
        if e.get("k") == "Bin" and e.get("op") in ("&&", "||"):
            a, b = ival(e["a"]), ival(e["b"])
            return (a and b) if e["op"] == "&&" else (a or b)
        if e.get("k") == "Un" and e.get("op") == "!":
            return not ival(e["x"])
        raise AnalysisBroken("%s: `%s` is not a concrete index expression" % (fn["full"], C.pretty(e)))

    def lval(e):
        """('state', id, kind, k, comp) | ('vec', id, comp)"""
        e = C.strip_casts(e)
        comp = None
        if e.get("k") == "Call" and e.get("op") == "[]" and e.get("obj") is not None:
            comp = ival(e["a"][0])
            e = C.strip_casts(e["obj"])
        if e.get("k") == "Call" and e.get("n") in ("primitives", "primitive_gradients") and e.get("obj") is not None:
            o = C.strip_casts(e["obj"])
            if o.get("k") == "Ref" and "id" in o:
                return ("state", o["id"], e["n"], ival(e["a"][0]), comp)
        if e.get("k") == "Ref" and isinstance(env.get(e.get("id")), list):
            return ("vec", e["id"], comp)
        return None

    def val(e):
        e0 = C.strip_casts(e)
        while e0.get("k") == "Ctor" and len(e0.get("a", [])) == 1:
            e0 = C.strip_casts(e0["a"][0])
        if e0.get("k") == "Un" and e0.get("op") == "-":
            v = val(e0["x"])
            return [-x for x in v] if isinstance(v, list) else -v
        if e0.get("k") == "Cond":
            return val(e0["a"]) if ival(e0["c"]) else val(e0["b"])
        lv = lval(e0)
        if lv is not None and lv[0] == "vec":
            v = env[lv[1]]
            return list(v) if lv[2] is None else v[lv[2]]
        if lv is not None:
            _, sid, kind, k, comp = lv
            st = env.get(sid)
            if st == "L":
                v = L(kind, k)
            elif isinstance(st, dict):
                v = st.get((kind, k))
                if v is None:
                    raise AnalysisBroken("%s: %s(%d) of the ghost state is read before it is set" % (fn["full"], kind, k))
            else:
                raise AnalysisBroken("%s: `%s`" % (fn["full"], C.pretty(e0)))
            if comp is not None:
                return v[comp]
            return list(v) if isinstance(v, list) else v
        if e0.get("k") == "Ref" and isinstance(env.get(e0.get("id")), dict):
            return {k: (list(v) if isinstance(v, list) else v) for k, v in env[e0["id"]].items()}
        if e0.get("k") == "Call" and e0.get("fn") and not e0.get("op"):
            cands = [m for m in u.decls if m["kind"] == "function" and m.get("body") and not m.get("dependent") and
                     m["full"].split("(")[0] == e0["fn"] and len(m["params"]) == len(e0["a"]) and
                     "HydroVariables" in (m.get("ret") or m.get("t") or "HydroVariables")]
            if cands:
                av = []
                for a_, p_ in zip(e0["a"], cands[0]["params"]):
                    t_ = p_.get("t") or ""
                    a0 = C.strip_casts(a_)
                    if "HydroVariables" in t_:
                        av.append("L" if env.get(a0.get("id")) == "L" else val(a_))
                    elif "CoordinateVector" in t_:
                        av.append(None)
                    else:
                        try:
                            av.append(ival(a_))
                        except AnalysisBroken:
                            av.append(None)
                return ghost_state(u, cands[0], axis, depth + 1, av)
        raise AnalysisBroken("%s: value `%s` not understood" % (fn["full"], C.pretty(e0)[:80]))

    def assign(tgt, v):
        lv = lval(tgt)
        if lv is None:
            t0 = C.strip_casts(tgt)
            if t0.get("k") == "Ref" and isinstance(env.get(t0.get("id")), dict) and isinstance(v, dict):
                env[t0["id"]] = v
                return
            raise AnalysisBroken("%s: assignment to `%s`" % (fn["full"], C.pretty(tgt)))
        if lv[0] == "vec":
            if lv[2] is None:
                env[lv[1]] = list(v)
            else:
                env[lv[1]][lv[2]] = v
            return
        _, sid, kind, k, comp = lv
        st = env.get(sid)
        if not isinstance(st, dict):
            raise AnalysisBroken("%s: write to `%s`" % (fn["full"], C.pretty(tgt)))
        if comp is None:
            st[(kind, k)] = list(v) if isinstance(v, list) else v
        else:
            if (kind, k) not in st:
                raise AnalysisBroken("%s: component of an unset gradient is written" % fn["full"])
            st[(kind, k)][comp] = v

    def run(s):
        if s is None:
            return
        k = s.get("k")
        if k == "Block":
            for x in s["s"]:
                run(x)
        elif k == "Decl":
            for d in s["d"]:
                t = d.get("t") or ""
                if "HydroVariables" in t:
                    env[d["id"]] = val(d["init"]) if d.get("init") is not None and \
                        C.strip_casts(d["init"]).get("k") != "Ctor" or (d.get("init") is not None and
                                                                        C.strip_casts(d["init"]).get("a")) else {}
                    if not isinstance(env[d["id"]], dict):
                        raise AnalysisBroken("%s: initialiser of %s" % (fn["full"], d["n"]))
                elif "CoordinateVector" in t and d.get("init") is not None:
                    v = val(d["init"])
                    env[d["id"]] = list(v)
                elif d.get("init") is not None and any(x in t for x in ("int", "long", "char", "short", "size_t")):
                    env[d["id"]] = ival(d["init"])
        elif k == "For":
            d = s["init"]["d"][0] if s.get("init") and s["init"].get("k") == "Decl" else None
            c = C.strip_casts(s["c"]) if s.get("c") else None
            if d is None or c is None or c.get("op") not in ("<", "<="):
                raise AnalysisBroken("%s: loop form" % fn["full"])
            hi = ival(c["b"]) + (1 if c["op"] == "<=" else 0)
            for j in range(ival(d["init"]), hi):
                env[d["id"]] = j
                run(s["body"])
        elif k == "If":
            if ival(s["c"]):
                run(s["th"])
            else:
                run(s.get("el"))
        elif k == "Bin" and s.get("op") == "=":
            assign(s["a"], val(s["b"]))
        elif k == "Call" and s.get("op") == "=" and s.get("obj") is not None:
            assign(s["obj"], val(s["a"][0]))
        elif k == "Return":
            raise _Return(val(s["x"]))
        elif k == "Null":
            return
        else:
            raise AnalysisBroken("%s: statement at line %s" % (fn["full"], s.get("l")))
    try:
        run(fn["body"])
    except _Return as r:
        if not isinstance(r.v, dict):
            raise AnalysisBroken("%s: does not return a state" % fn["full"])
        return r.v
    raise AnalysisBroken("%s: no return" % fn["full"])


def rule_F8(chk, u):
    fns = [m for m in u.methods_of("ReflectiveHydroBoundary") if m["name"] in
           ("get_right_state_flux_variables", "get_right_state_gradient_variables") and m.get("body")]
    if len(fns) != 2:
        raise AnalysisBroken("ReflectiveHydroBoundary: ghost-state functions not found")
    n = 0
    for fn in sorted(fns, key=lambda f: f["name"]):
        chk.analysed(function=fn["full"])
        for axis in (0, 1, 2):
            st = ghost_state(u, fn, axis)
            for kq in range(5):
                want = -sp.Symbol("w%d" % kq) if kq == 1 + axis else sp.Symbol("w%d" % kq)
                got = st.get(("primitives", kq))
                n += 1
                chk.require(got is not None and sp.simplify(got - want) == 0, "F8",
                            "%s, axis %d: ghost primitive %d is the mirror image" % (fn["name"], axis, kq), where(fn),
                            "ghost primitive %d = %s, the mirror state has %s: the wall is not a mirror and the HLLC mass "
                            "and energy flux through it do not vanish" % (kq, got, want), function=fn["full"],
                            construct="ghost primitive %d axis %d" % (kq, axis))
            if fn["name"] == "get_right_state_flux_variables":
                for kq in range(5):
                    whole = st.get(("primitive_gradients", kq))
                    if whole is None:
                        raise AnalysisBroken("%s: gradient %d of the ghost is not set" % (fn["full"], kq))
                    # (components across the axis are not used by the face reconstruction along the axis)
                    sgn = 1 if kq == 1 + axis else -1
                    want = sgn * sp.Symbol("g%d_%d" % (kq, axis))
                    n += 1
                    chk.require(sp.simplify(whole[axis] - want) == 0, "F8",
                                "%s, axis %d: ghost gradient (%d)[%d] is the mirror image" % (fn["name"], axis, kq, axis),
                                where(fn), "ghost gradient = %s, mirror image = %s" % (whole[axis], want),
                                function=fn["full"], construct="ghost gradient %d axis %d" % (kq, axis))
    return n


# ------------------------------------------------------------------------------------------------ F7
def rule_F7(chk, u):
    solh = Solver(u, "HLLCRiemannSolver")
    fn, res, se = flux_leaves(solh, "solve_for_flux", (),
                              {"solve_vacuum_flux": {"outs": ["mvac", "pvac", "Evac"], "ret": "none"}})
    chk.analysed(function=fn["full"])
    rhoL, PL, rhoR, PR = sym_for("rhoL"), sym_for("PL"), sym_for("rhoR"), sym_for("PR")
    Mach = sp.Symbol("Mach", nonnegative=True)
    a = sp.Symbol("a_wall", positive=True)
    r = sp.Symbol("rho_wall", positive=True)
    u2 = sp.Symbol("usq_wall", nonnegative=True)     # |u|^2 of the wall cell
    delta = sp.Symbol("delta_gamma", positive=True)
    vL = Mach * a
    names = {}
    for l, o in res:
        for e in [c for c, _, _ in l.conds] + [o["m"], o["E"]]:
            if hasattr(e, "free_symbols"):
                for s in e.free_symbols:
                    names[s.name] = s
    sub = {}
    for nm, s in names.items():
        if not nm.startswith("<"):
            continue
        parts = sorted(nm.strip("<>").split("."))
        if "vface" in parts:
            sub[s] = sp.Integer(0)
        elif parts == ["normal", "normal"]:
            sub[s] = sp.Integer(1)
        elif parts == ["normal", "uL"]:
            sub[s] = vL
        elif parts == ["normal", "uR"]:
            sub[s] = -vL
        elif parts in (["uL", "uL"], ["uR", "uR"]):
            sub[s] = u2
        elif parts == ["uL", "uR"]:
            sub[s] = u2 - 2 * vL ** 2
        else:
            raise AnalysisBroken("F7: scalar product %s has no value for a mirror pair" % nm)
    sub.update({rhoL: r, rhoR: r, PL: r * a ** 2 / gamma, PR: r * a ** 2 / gamma})
    if getattr(solh, "eps", None) is not None:
        sub[solh.eps] = sp.Integer(0)

    def special(e):
        e = e.xreplace(sub)
        # non-vacuum premise: 1 / (rho + DBL_MIN) and 1 / (P + DBL_MIN) are finite
        e = e.replace(lambda x: getattr(x, "func", None) is not None and x.func.__name__ == "isinf", lambda x: sp.Integer(0))
        return e

    def reduce_scale(e):
        """e(M, gamma, a, rho, |u|^2) -> e(M, gamma) when e is homogeneous in a and rho (positive scales) and free of |u|^2"""
        e = sp.simplify(e)
        for s_ in (a, r):
            if s_ in e.free_symbols:
                t = sp.Symbol("t_scale", positive=True)
                ok = False
                for kx in (1, 2, 3, -1, -2, 0):
                    if sp.simplify(e.xreplace({s_: t * s_}) - t ** kx * e) == 0:
                        ok = True
                        break
                if not ok:
                    raise AnalysisBroken("F7: a branch condition is not homogeneous in %s: %s" % (s_, str(e)[:120]))
                e = e.xreplace({s_: sp.Integer(1)})
        if u2 in e.free_symbols:
            raise AnalysisBroken("F7: a branch condition depends on the transverse velocity: %s" % str(e)[:120])
        # gamma = 1 + delta, delta in (0, 1]: denominators `gamma - 1` become the plain symbol delta, whose range [0, 1] is
        # exact (no outward rounding across zero)
        return sp.simplify(e.xreplace({gamma: 1 + delta}))

    leaves = []
    for l, o in res:
        if getattr(l, "opaque", []):
            # the vacuum path: excluded below by its own trigger condition
            conds = l.conds
        else:
            conds = l.conds
        preds = []
        dead = False
        for c, pol, node in conds:
            cs = special(c) if hasattr(c, "xreplace") else c
            cs = sp.simplify(cs) if not isinstance(cs, sp.logic.boolalg.BooleanAtom) else cs
            if cs in (sp.true, sp.false) or isinstance(cs, bool):
                if bool(cs) != bool(pol):
                    dead = "condition `%s` is %s for a mirror pair" % (str(c)[:60], bool(cs))
                continue
            if isinstance(cs, (sp.Or, sp.And)):
                # disjunction / conjunction of relationals: evaluated clause-wise below
                preds.append(("bool", cs, pol, node))
                continue
            t = sign_pred(cs, True)
            if t[0] == "bool":
                raise AnalysisBroken("F7: condition %s not understood" % str(cs)[:100])
            strict = isinstance(cs, (sp.StrictGreaterThan, sp.StrictLessThan))
            preds.append(("rel", reduce_scale(t[0]), pol, strict, node))
        leaves.append((l, o, preds, dead))

    box0 = {Mach: IV(0.0, M_MAX), delta: IV(0.0, 1.0)}

    def violated(p, box):
        """the predicate is definitely false on the box"""
        if p[0] == "rel":
            _, e, pol, strict, _n = p
            s = sign_on(e, box)
            # the condition reads `e > 0` (strict) or `e >= 0`; with polarity False its negation
            return (s < 0) if pol else (s > 0)
        _, cs, pol, _n = p
        # boolean combination: decide every relational, then the connective
        def tv(x):
            if isinstance(x, sp.Or):
                vs = [tv(y) for y in x.args]
                return True if any(v is True for v in vs) else (False if all(v is False for v in vs) else None)
            if isinstance(x, sp.And):
                vs = [tv(y) for y in x.args]
                return False if any(v is False for v in vs) else (True if all(v is True for v in vs) else None)
            if x in (sp.true, sp.false):
                return bool(x)
            t = sign_pred(x, True)
            if t[0] == "bool":
                return None
            s = sign_on(reduce_scale(t[0]), box)
            return True if s > 0 else (False if s < 0 else None)
        v = tv(cs)
        return v is not None and v != bool(pol)

    def excluded(preds, box, depth=0):
        if any(violated(p, box) for p in preds):
            return True
        if depth >= 12:
            return False
        # split the longer side (relative to its range)
        mi, gi = box[Mach], box[delta]
        if (mi.hi - mi.lo) / M_MAX >= (gi.hi - gi.lo):
            mid = 0.5 * (mi.lo + mi.hi)
            b1, b2 = dict(box), dict(box)
            b1[Mach], b2[Mach] = IV(mi.lo, mid), IV(mid, mi.hi)
        else:
            mid = 0.5 * (gi.lo + gi.hi)
            b1, b2 = dict(box), dict(box)
            b1[delta], b2[delta] = IV(gi.lo, mid), IV(mid, gi.hi)
        return excluded(preds, b1, depth + 1) and excluded(preds, b2, depth + 1)

    n = 0
    live = 0
    for l, o, preds, dead in leaves:
        inst = "solve_for_flux regime [%s]" % show_conds(l)[-110:]
        loc = where(l.conds[-1][2], fn) if l.conds else where(fn)
        why = dead
        if not why:
            # the same expression with opposite outcomes
            seen = {}
            for p in preds:
                if p[0] != "rel":
                    continue
                key = sp.srepr(p[1])
                if key in seen and seen[key] != p[2]:
                    why = "two of its conditions are the same expression for a mirror pair and have opposite outcomes"
                seen.setdefault(key, p[2])
                neg = sp.srepr(sp.simplify(-p[1]))
                if neg in seen and seen[neg] == p[2] and p[1] != 0:
                    # e > 0 and -e > 0 with the same outcome: only on the boundary (measure zero, not owned)
                    why = why or "two of its conditions are opposite expressions with the same outcome"
        if not why and excluded(preds, box0):
            why = "on every sub-box of M in [0, %.1f], gamma in [1, 2] one of its conditions fails (interval evaluation)" % M_MAX
        n += 1
        if why:
            chk.ok("F7", "%s: not taken by gas moving into a reflecting wall at M <= %.1f (%s)" % (inst, M_MAX, why), loc)
            continue
        live += 1
        if getattr(l, "opaque", []):
            chk.fail("F7", "%s: the vacuum path is not taken at a reflecting wall" % inst, loc,
                     "the vacuum flux could be taken for a mirror pair moving into the wall", function=fn["full"],
                     construct="wall flux: vacuum path")
            continue
        for nm, key in (("mass", "m"), ("energy", "E")):
            v = special(o[key])
            z, rr = rat_is_zero(sp.together(v))
            if not z:
                z = sp.simplify(v) == 0
            n += 1
            chk.require(z, "F7", "%s: %s flux through a reflecting wall vanishes" % (inst, nm), loc,
                        "this branch can be taken by gas moving into a reflecting wall with Mach number <= %.1f, and for the "
                        "mirror pair of states its %s flux is %s, not 0: the wall cell loses %s through the wall" %
                        (M_MAX, nm, str(sp.simplify(v))[:160], nm), function=fn["full"],
                        construct="wall flux %s" % nm)
    if live == 0:
        raise AnalysisBroken("F7: no branch of the HLLC solver is taken at a reflecting wall")
    return n
