"""C10-S5: the sweeps of one phase commute.

"Same cell states for every subgrid layout and thread count" needs the face operations of one phase (all gradient
sweeps, or all flux sweeps, touching a cell) to commute: the task graph does not order them.  They commute when

  (a) every write to a cell or to a limiter array is an accumulation  x += e, x -= e, x = min(x, e), x = max(x, e), and
  (b) nothing else in the face operation reads a quantity that the phase accumulates into.

Effect analysis over Hydro::do_{gradient,flux}_calculation and their ghost variants: the accessors of HydroVariables are
resolved to the members they expose (from their bodies), so `left_state.delta_conserved(0)` read inside a flux function is
seen as a read of `_delta_conserved` whatever it is wrapped in.  Round-off of the order of the accumulations is not decided.
"""
from .. import cfg as C
from ..astdb import AnalysisBroken, where

PHASES = {
    "gradient": ("Hydro::do_gradient_calculation", "Hydro::do_ghost_gradient_calculation"),
    "flux": ("Hydro::do_flux_calculation", "Hydro::do_ghost_flux_calculation"),
}
ACC_OPS = ("+=", "-=")


def accessor_members(lib, cls):
    """method name -> set of members of cls its body mentions."""
    out = {}
    for d in lib.decls:
        if d["kind"] == "function" and d.get("cls") == cls and d.get("body") is not None:
            ms = set()
            for x in C.walk_stmt(d["body"]):
                m = C.member_name(x) if x.get("k") == "Mem" else None
                if m:
                    ms.add(m)
            out.setdefault(d["name"], set()).update(ms)
    return out


def state_root(e, states):
    """(param id, accessor name or None) when e is (a subscript of) an accessor call on / a reference to a state parameter."""
    e = C.strip_casts(e)
    while e is not None:
        k = e.get("k")
        if k == "Idx":
            e = C.strip_casts(e["a"])
        elif k == "Call" and e.get("op") == "[]" and e.get("obj") is not None:
            e = C.strip_casts(e["obj"])
        elif k == "Call" and e.get("obj") is not None and C.strip_casts(e["obj"]).get("k") == "Ref" and \
                C.strip_casts(e["obj"]).get("id") in states:
            return C.strip_casts(e["obj"])["id"], e.get("n")
        elif k == "Ref" and e.get("id") in states:
            return e["id"], None
        else:
            return None
    return None


def collect(lib, acc, fn, states, depth=0):
    """Writes to and reads of cell state in fn (and, through calls that are handed a state, in its callees).
    states: local / parameter id -> ("state" | "array", display name).
    Returns (writes, reads) with writes = [(fn, stmt, lhs, op, rhs, target, label)], reads = [(fn, node, what-it-exposes)]."""
    if depth > 4:
        raise AnalysisBroken("%s: helper chain deeper than 4 below a face operation" % fn["full"])
    states = dict(states)
    # local aliases: pointers / references into a state
    for st in C.walk_stmt(fn["body"]):
        if st.get("k") == "Decl":
            for d in st["d"]:
                t = d.get("t") or ""
                if d.get("init") is not None and ("*" in t or t.rstrip().endswith("&")) and "const double" not in t.replace("*const", "*"):
                    for x in C.walk(d["init"]):
                        if x.get("k") == "Ref" and x.get("id") in states and states[x["id"]][0] == "array":
                            states[d["id"]] = states[x["id"]]
                            break
    writes, reads = [], []
    skip = set()
    alias_inits = set()
    for st in C.walk_stmt(fn["body"]):
        if st.get("k") == "Decl":
            for d in st["d"]:
                if d["id"] in states and d.get("init") is not None:
                    for x in C.walk(d["init"]):
                        alias_inits.add(id(x))
    for st in C.walk_stmt(fn["body"]):
        lhs = op = rhs = None
        if st.get("k") == "Bin" and st.get("op") in ("=",) + ACC_OPS + ("*=", "/="):
            lhs, op, rhs = st["a"], st["op"], st["b"]
        elif st.get("k") == "Call" and st.get("op") in ("=",) + ACC_OPS + ("*=", "/=") and st.get("obj") is not None and st["a"]:
            lhs, op, rhs = st["obj"], st["op"], st["a"][0]
        elif st.get("k") == "Un" and st.get("op") in ("pre++", "post++", "pre--", "post--"):
            lhs, op, rhs = st["x"], "+=", None
        if lhs is not None:
            r = state_root(lhs, states)
            if r is not None:
                pid, accessor = r
                kind, pname = states[pid]
                if kind == "array":
                    target, label = ("array", pname), pname
                else:
                    ms = acc.get(accessor, set()) if accessor else set()
                    if len(ms) != 1:
                        raise AnalysisBroken("%s: cannot resolve the member written through `%s` (line %s)" %
                                             (fn["full"], C.pretty(lhs), st.get("l")))
                    target = label = next(iter(ms))
                writes.append((fn, st, lhs, op, rhs, target, label))
                for x in C.walk(lhs):
                    skip.add(id(x))
                if op == "=" and rhs is not None:
                    rr = C.strip_casts(rhs)
                    for a in rr.get("a", []) if rr.get("k") == "Call" else []:
                        if C.pretty(a) == C.pretty(lhs):
                            for x in C.walk(a):
                                skip.add(id(x))
        # a state handed to a helper: follow it
        if st.get("k") == "Call" and not st.get("op") and st.get("a"):
            callee = st.get("fn") or ""
            cands = [d for d in lib.decls if d["kind"] == "function" and d.get("body") is not None and
                     d["full"].split("(")[0] == callee and len(d["params"]) == len(st["a"])]
            handed = {}
            for i, a in enumerate(st["a"]):
                a0 = C.strip_casts(a)
                if a0 is not None and a0.get("k") == "Ref" and a0.get("id") in states:
                    handed[i] = (a0, states[a0["id"]])
            if handed and cands:
                d = cands[0]
                sub_states = {}
                for i, (a0, stt) in handed.items():
                    pt = d["params"][i].get("t") or ""
                    if stt[0] == "state" and "const" in pt:
                        continue            # read-only view: reads inside are examined below through the accessors
                    sub_states[d["params"][i]["id"]] = stt
                    skip.add(id(a0))
                if sub_states:
                    w2, r2 = collect(lib, acc, d, sub_states, depth + 1)
                    writes += w2
                    reads += r2
            elif handed and not cands and any(stt[0] == "array" for _, stt in handed.values()):
                raise AnalysisBroken("%s: a limiter array is handed to `%s`, which has no body in the library (line %s)" %
                                     (fn["full"], callee, st.get("l")))
    # reads
    allstates = dict(states)
    for p in fn["params"]:
        if "HydroVariables" in (p.get("t") or ""):
            allstates.setdefault(p["id"], ("state", p["n"]))
    seen = set()
    for st in C.walk_stmt(fn["body"]):
        if st.get("mac") or id(st) in skip or id(st) in alias_inits or id(st) in seen:
            continue
        seen.add(id(st))
        if st.get("k") == "Call" and st.get("obj") is not None and C.strip_casts(st["obj"]).get("k") == "Ref" and \
                C.strip_casts(st["obj"]).get("id") in allstates and allstates[C.strip_casts(st["obj"])["id"]][0] == "state":
            reads.append((fn, st, ("accessor", C.strip_casts(st["obj"])["n"], st.get("n"))))
        elif st.get("k") == "Ref" and st.get("id") in states and states[st["id"]][0] == "array":
            reads.append((fn, st, ("array", st["n"])))
    return writes, reads


def rule_S5(chk, lib):
    acc = accessor_members(lib, "HydroVariables")
    if not acc:
        raise AnalysisBroken("HydroVariables accessors not found")
    n = 0
    for phase, names in PHASES.items():
        fns = []
        for nm in names:
            f = [d for d in lib.decls if d["kind"] == "function" and d["full"].split("(")[0] == nm and d.get("body")]
            if not f:
                raise AnalysisBroken("%s not found" % nm)
            fns.append(f[0])
        per_fn = []
        accumulated = set()
        for fn in fns:
            chk.analysed(function=fn["full"])
            states = {}
            for p in fn["params"]:
                t = p.get("t") or ""
                if "HydroVariables" in t and "const" not in t:
                    states[p["id"]] = ("state", p["n"])
                elif ("double *" in t or "double[" in t or "double [" in t) and "const" not in t:
                    states[p["id"]] = ("array", p["n"])
            if not states:
                raise AnalysisBroken("%s: no cell state parameter" % fn["full"])
            writes, reads = collect(lib, acc, fn, states)
            if not writes:
                raise AnalysisBroken("%s: no write to a cell state found" % fn["full"])
            per_fn.append((fn, writes, reads))
            for w in writes:
                accumulated.add(w[5])
        # (a) every write is an accumulation
        for fn, writes, reads in per_fn:
            for wfn, st, lhs, op, rhs, target, label in writes:
                n += 1
                ok = op in ACC_OPS
                if op == "=" and rhs is not None:
                    r = C.strip_casts(rhs)
                    base = (r.get("fn") or r.get("n") or "").split("::")[-1] if r.get("k") == "Call" else ""
                    if base in ("min", "max", "fmin", "fmax") and len(r["a"]) == 2 and \
                            C.pretty(lhs) in (C.pretty(r["a"][0]), C.pretty(r["a"][1])):
                        ok = True
                chk.require(ok, "S5", "%s phase, %s line %s: the write to %s is an accumulation (+=, -=, min, max)" %
                            (phase, wfn["name"], st.get("l"), label), where(st, wfn),
                            "`%s` overwrites or rescales a quantity that the other sweeps of the phase also update: the result "
                            "depends on the order of the sweeps" % C.pretty(st)[:100], function=wfn["full"],
                            construct="accumulation %s" % label)
        # (b) nothing else reads an accumulated quantity
        members = {a for a in accumulated if isinstance(a, str)}
        for fn, writes, reads in per_fn:
            bad = []
            for rfn, node, what in reads:
                if what[0] == "array":
                    bad.append((node, "limiter array %s" % what[1]))
                else:
                    hit = acc.get(what[2], set()) & members
                    if hit:
                        bad.append((node, "%s.%s() exposes %s" % (what[1], what[2], sorted(hit))))
            n += 1
            chk.require(not bad, "S5", "%s phase, %s: nothing but the accumulations themselves reads a quantity the phase accumulates "
                        "into" % (phase, fn["name"]), where(bad[0][0] if bad else fn, fn),
                        "; ".join("line %s reads %s" % (b[0].get("l"), b[1]) for b in bad[:4]) +
                        ": the face operation depends on what the other sweeps touching the cell have already added, so the result "
                        "depends on the subgrid layout and on the task order", function=fn["full"],
                        construct="reads accumulated state")
            chk.note("S5 %s: %d reads of cell state examined in %s" % (phase, len(reads), fn["name"]))
        # (c) the sweep functions themselves (the task bodies of the phase): whatever they write directly into the cell
        # states, outside the face operations, to a member the phase accumulates into must be an accumulation too - a sweep
        # that *resets* an accumulator wipes what a sweep scheduled before it has deposited
        sweeps = [d for d in lib.decls if d["kind"] == "function" and d.get("body") is not None and not d.get("dependent") and
                  d.get("cls") == "HydroDensitySubGrid" and d["name"].endswith("%s_sweep" % phase)]
        seen_sw = set()
        nsw = 0
        for sw in sweeps:
            if sw["full"] in seen_sw:
                continue
            seen_sw.add(sw["full"])
            nsw += 1
            chk.analysed(function=sw["full"])
            bad = []
            for st in C.walk_stmt(sw["body"]):
                lhs = op = None
                if st.get("k") == "Bin" and (st.get("op") == "=" or st.get("op") in ("*=", "/=")):
                    lhs, op = st["a"], st["op"]
                elif st.get("k") == "Call" and st.get("op") in ("=", "*=", "/=") and st.get("obj") is not None and st.get("a"):
                    lhs, op = st["obj"], st["op"]
                if lhs is None:
                    continue
                # the member exposed by the written lvalue: _hydro_variables[i].accessor(k)[c] or a limiter array member
                e = C.strip_casts(lhs)
                exposed = None
                while e is not None:
                    k_ = e.get("k")
                    if k_ == "Idx":
                        m_ = C.member_name(e["a"])
                        if m_ and "limiter" in m_:
                            exposed = {m_}
                            break
                        e = C.strip_casts(e["a"])
                    elif k_ == "Call" and e.get("op") == "[]" and e.get("obj") is not None:
                        e = C.strip_casts(e["obj"])
                    elif k_ == "Call" and e.get("obj") is not None and e.get("cls") == "HydroVariables":
                        exposed = acc.get(e.get("n"), set())
                        break
                    else:
                        break
                if exposed and (exposed & members):
                    bad.append((st, sorted(exposed & members)))
            n += 1
            chk.require(not bad, "S5", "%s phase, %s: the sweep itself only accumulates into what the phase accumulates" %
                        (phase, sw["name"]), where(bad[0][0] if bad else sw, sw),
                        "; ".join("line %s `%s` overwrites %s" % (b[0].get("l"), C.pretty(b[0])[:60], b[1]) for b in bad[:3]) +
                        ": the task graph does not order the sweeps of one phase that touch a cell, so a sweep scheduled earlier "
                        "loses what it has added there (its partner cell keeps its half: the exchange no longer cancels)",
                        function=sw["full"], construct="sweep overwrites accumulator")
        if nsw < 3:
            raise AnalysisBroken("S5: fewer than three %s sweeps of HydroDensitySubGrid found" % phase)
    return n
