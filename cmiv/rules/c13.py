"""C13 - same seed, same input: identical output; the random stream is RANLUX.

Decides, by abstract interpretation of RandomGenerator (dyadic-grid intervals, cmiv/absint.py), the clauses of
C13 that are invariants of the generator's state rather than facts about particular numbers:
 X1 seeding: for EVERY seed, set_seed leaves the twelve state words in {n 2^-48 : 0 <= n < 2^48}, the carry at 0 and the
    indices inside the state array; seed 0 is replaced by 1 before it is used;
 X2 the refill (increment_state, with ranlux_step inlined at its eleven call sites) preserves that invariant, with the
    carry in {0, 2^-48};
 X3 every value returned by get_uniform_random_double is a state word, hence in [0, 1 - 2^-48]: never 1, so -log(u) > 0;
 X4 every floating-point operation of the generator is exact (all operands and results are dyadic rationals with at
    most 53 significant bits): the double code computes an integer recurrence modulo 2^48 without rounding, which is
    what makes the stream independent of compiler, optimisation level and platform;
 X5 every index into the state array and into the seeding shift register is in bounds;
 X7 every freshly drawn target optical depth is -log(u) of a direct draw u (so it is positive by X3);
 X6 the restart round trip of the complete generator state (C09 rules R1 / R3 on RandomGenerator).
Not decided: that the sequence IS the ranlxd2 sequence (no reference on disk), that different seeds give different
streams, byte-identical snapshots of whole runs.
"""
from .. import cfg as C
from ..absint import G, I, TOP, Interp, join
from ..astdb import AnalysisBroken, where
from . import c13_seed

LEVEL = "other"
W = 48


def leq(a, b):
    """a is a subset of b."""
    if isinstance(b, type(TOP)):
        return True
    if isinstance(a, type(TOP)):
        return False
    if isinstance(a, I) and isinstance(b, I):
        return b.lo <= a.lo and a.hi <= b.hi
    if isinstance(a, G) and isinstance(b, G):
        if a.lo == a.hi == 0:
            bl, bh = b.lo, b.hi
            return bl <= 0 <= bh
        if a.e < b.e:
            return False       # finer grid than allowed
        lo, hi = a.on(b.e)
        return b.lo <= lo and hi <= b.hi
    return False


def run(chk, prog):
    chk.explanation = (
        "Abstract interpretation of RandomGenerator with dyadic-grid intervals: for every seed the seeding code leaves "
        "the state in the invariant {words in [0,1) on the 2^-48 grid, carry in {0, 2^-48}, indices in range}; the refill "
        "preserves it; returned values are state words, hence in [0,1); every floating-point operation is exact (no "
        "rounding), so the stream is a pure function of the seed on every platform; all array indices are in bounds. With "
        "C09's round trip of the full state this decides the range, determinism-of-arithmetic and restart clauses of C13. "
        "Equality with the published ranlxd2 sequence, distinctness of streams and byte-identical snapshots are not decided.")
    chk.assumptions += ["IEEE-754 binary64 arithmetic (exact results are returned unrounded)",
                        "a restarted generator was written by write_restart_file from a state satisfying the invariant (C09)"]
    u = prog.umbrella
    chk.analysed(unit="umbrella")
    cls = "RandomGenerator"
    rec = u.record(cls)
    sizes = {}
    for f in rec["fields"]:
        t = f.get("t") or ""
        if t.endswith("]") and "[" in t:
            sizes[("m", f["n"])] = int(t[t.rindex("[") + 1:-1])
    words = [k for k, v in sizes.items()]
    if len(words) != 1:
        raise AnalysisBroken("RandomGenerator: expected exactly one state array, found %s" % words)
    xkey = words[0]
    nwords = sizes[xkey]
    scalars = [f["n"] for f in rec["fields"] if ("m", f["n"]) not in sizes]
    dbl = [f["n"] for f in rec["fields"] if (f.get("t") or "").strip() == "double"]
    ints = [n for n in scalars if n not in dbl]
    if len(dbl) != 1 or len(ints) < 3:
        raise AnalysisBroken("RandomGenerator: state layout changed (double scalars %s, integer scalars %s)" % (dbl, ints))
    carry = ("m", dbl[0])

    def interp():
        it = Interp(u, cls)
        it.array_sizes.update(sizes)
        return it

    def report(it, what, fn, rule_exact="X4", rule_index="X5"):
        inexact = [f for f in it.findings if f.kind == "inexact"]
        index = [f for f in it.findings if f.kind == "index"]
        other = [f for f in it.findings if f.kind in ("unknown", "uninit")]
        if other:
            f = other[0]
            raise AnalysisBroken("%s: %s (line %s)" % (what, f.text, f.node.get("l")))
        chk.require(not inexact, rule_exact, "%s: all %d floating-point operations are exact" % (what, it.checked_ops),
                    where(fn), "; ".join("line %s: %s" % (f.node.get("l"), f.text) for f in inexact[:4]),
                    function=fn["full"], construct="exact arithmetic")
        chk.require(not index, rule_index, "%s: all %d array accesses are in bounds" % (what, it.checked_indices), where(fn),
                    "; ".join("line %s: %s" % (f.node.get("l"), f.text) for f in index[:4]), function=fn["full"],
                    construct="index bounds")

    # ---- X1: seeding ---------------------------------------------------------------------
    seedfn = u.func(cls + "::set_seed")
    chk.analysed(function=seedfn["full"])
    it = interp()
    st = {}
    p = seedfn["params"][0]
    st[("l", p["id"])] = I(-2 ** 63, 2 ** 63 - 1) if "long" in p["t"] else I(-2 ** 31, 2 ** 31 - 1)
    it.block(seedfn["body"], st, {})
    report(it, "set_seed", seedfn)
    inv = {xkey: G(0, 2 ** W - 1, -W), carry: G(0, 1, -W)}
    got = st.get(xkey)
    chk.require(got is not None and leq(got, inv[xkey]), "X1",
                "for every seed the state words are in {n 2^-48 : 0 <= n < 2^48}", where(seedfn),
                "set_seed leaves the state words in %s" % (got,), function=seedfn["full"], construct="seeded words")
    chk.require(st.get(carry) is not None and leq(st[carry], G(0, 0, 0)), "X1", "seeding clears the carry", where(seedfn),
                "carry after seeding: %s" % (st.get(carry),), function=seedfn["full"], construct="seeded carry")
    idx_members = []
    for n in ints:
        v = st.get(("m", n))
        if v is None:
            chk.fail("X1", "seeding sets %s" % n, where(seedfn), "%s is not assigned by set_seed" % n,
                     function=seedfn["full"], construct="seeded %s" % n)
            continue
        inv[("m", n)] = v
    # which integer members index the state array (from the accesses in the class)
    for m in u.methods_of(cls):
        if not m.get("body"):
            continue
        for s in C.walk_stmt(m["body"]):
            for x in (C.walk(s) if s.get("k") not in ("Block", "If", "For", "While", "Do", "Decl") else ()):
                if x.get("k") == "Idx":
                    i = C.strip_casts(x["i"])
                    if i.get("k") == "Mem" and i["n"] in ints:
                        idx_members.append(i["n"])
    # index-like members may take any position of the buffer; the others keep their seeded value
    via_local = set()
    incfn = u.func(cls + "::increment_state")
    for s in C.walk_stmt(incfn["body"]):
        if s.get("k") == "Decl":
            for d in s["d"]:
                i = C.strip_casts(d["init"]) if d.get("init") is not None else None
                if i is not None and i.get("k") == "Mem" and i["n"] in ints:
                    via_local.add(i["n"])
    for s in C.walk_stmt(incfn["body"]):
        for x in (C.walk(s) if s.get("k") not in ("Block", "If", "For", "While", "Do", "Decl") else ()):
            if x.get("k") == "Bin" and x["op"] == "=" and C.strip_casts(x["a"]).get("k") == "Mem" and \
                    C.strip_casts(x["a"])["n"] in ints:
                via_local.add(C.strip_casts(x["a"])["n"])
    for n in sorted(set(idx_members) | via_local):
        inv[("m", n)] = I(0, nwords - 1)
        v = st.get(("m", n))
        chk.require(v is not None and leq(v, inv[("m", n)]), "X1", "seeding leaves the buffer index %s inside the state "
                    "array" % n, where(seedfn), "%s after seeding: %s" % (n, v), function=seedfn["full"],
                    construct="seeded %s" % n)
    # seed 0 -> 1: after the statements in front of the first loop, seed 0 and seed 1 are indistinguishable to the rest of
    # the function (every variable that is read later holds the same value)
    first = seedfn["body"]["s"]
    cut = next((i for i, s2 in enumerate(first) if s2.get("k") in ("For", "While", "Do")), len(first))
    later_reads = {x.get("id") for s2 in first[cut:] for x in C.walk_stmt(s2) if x.get("k") == "Ref" and "id" in x}
    envs = []
    for sv in (0, 1):
        itz = interp()
        stz = {("l", p["id"]): I(sv, sv)}
        for s2 in first[:cut]:
            itz.block(s2, stz, {})
        envs.append({k2: v for k2, v in stz.items() if k2[0] == "l" and k2[1] in later_reads})
    okz = envs[0] == envs[1] and all(isinstance(v, (I, G)) for v in envs[0].values())
    chk.require(okz, "X1", "seed 0 is replaced by 1 before it is used", where(seedfn),
                "after the statements in front of the bit loop the seeds 0 and 1 leave different values in the variables read "
                "later: %s vs %s" % (envs[0], envs[1]), function=seedfn["full"], construct="seed zero")
    # ---- X2: the refill preserves the invariant --------------------------------------------
    chk.analysed(function=incfn["full"])
    it = interp()
    st = dict(inv)
    it.block(incfn["body"], st, {})
    report(it, "increment_state", incfn)
    for key, want in sorted(inv.items(), key=str):
        v = st.get(key)
        chk.require(v is not None and leq(v, want), "X2", "the refill keeps %s inside %s" % (key[1], want), where(incfn),
                    "after increment_state %s is %s" % (key[1], v), function=incfn["full"], construct="invariant %s" % key[1])
    steps = [x for s in C.walk_stmt(incfn["body"]) for x in (C.walk(s) if s.get("k") not in
             ("Block", "If", "For", "While", "Do", "Decl") else ()) if C.is_call(x, name="ranlux_step")]
    chk.floor("X2-steps", len(steps), 11)
    # ---- X3: returned values --------------------------------------------------------------
    getfn = u.func(cls + "::get_uniform_random_double")
    chk.analysed(function=getfn["full"])
    it = interp()
    st = dict(inv)
    it._partial_return = None
    r = it.block(getfn["body"], st, {})
    report(it, "get_uniform_random_double", getfn)
    one = G(1, 1, 0)
    okr = isinstance(r, G) and leq(r, inv[xkey])
    chk.require(okr, "X3", "every returned value lies in [0, 1 - 2^-48]", where(getfn),
                "the returned set is %s" % (r,), function=getfn["full"], construct="returned range")
    for key, want in sorted(inv.items(), key=str):
        v = st.get(key)
        chk.require(v is not None and leq(v, want), "X3", "drawing a number keeps %s inside %s" % (key[1], want), where(getfn),
                    "after get_uniform_random_double %s is %s" % (key[1], v), function=getfn["full"],
                    construct="invariant after draw %s" % key[1])
    chk.extra["invariant"] = {k[1]: repr(v) for k, v in inv.items()}
    # ---- X6: restart round trip (C09 rules on RandomGenerator) ------------------------------
    from . import c09
    from .. import grammar as GR
    lib = prog.library()
    Wr, Rd = c09.restart_pairs(lib)
    if cls not in Wr or cls not in Rd:
        raise AnalysisBroken("RandomGenerator restart writer / reader not found")
    wfn, rfn = Wr[cls][0], Rd[cls][0]
    wi = GR.Extractor(wfn, "w", lib).run()
    ri = GR.Extractor(rfn, "r", lib).run()
    before = len(chk.obligations)
    c09.compare(chk, "X6", cls, wfn, rfn, wi, ri)
    written, read = c09.members_written(wi), c09.members_written(ri)
    for f in rec["fields"]:
        m = f["n"]
        inst = "RandomGenerator::%s is saved and restored" % m
        if m in written and m in read:
            chk.ok("X6", inst, where(rec))
        elif m in read and c09.derived_round_trip(chk, "X6", cls, m, wfn, rfn, wi, ri, inv, nwords, inst, rec, f):
            pass
        else:
            chk.fail("X6", inst, "%s:%s" % (where(rec).split(":")[0], f["l"]),
                     "state member %s is not part of the dump: a restored generator does not continue the sequence" % m,
                     function=rfn["full"], construct=m)
    chk.floor("X6", len(chk.obligations) - before, 17)
    # ---- X7: drawn optical depths are -log(u) of a direct draw ------------------------------------
    n7 = 0
    seen = set()
    for d in lib.decls:
        if d["kind"] != "function" or not d.get("body") or d.get("dependent") or d["full"] in seen:
            continue
        seen.add(d["full"])
        for s2 in C.walk_stmt(d["body"]):
            if s2.get("k") in ("Block", "If", "For", "While", "Do", "ForRange", "Switch"):
                continue
            exprs = [dd["init"] for dd in s2["d"] if dd.get("init") is not None] if s2.get("k") == "Decl" else [s2]
            for ex in exprs:
                for x in C.walk(ex):
                    if not (C.is_call(x, name="set_target_optical_depth") and x["a"]):
                        continue
                    arg = C.strip_casts(x["a"][0])
                    draws = [y for y in C.walk(arg) if C.is_call(y, name="get_uniform_random_double")]
                    if not draws:
                        continue      # a continuation of an earlier draw (tau_target - tau_done)
                    n7 += 1
                    okf = arg.get("k") == "Un" and arg["op"] == "-"
                    if okf:
                        lg = C.strip_casts(arg["x"])
                        okf = C.is_call(lg, name="log") and len(lg["a"]) == 1 and \
                            C.is_call(C.strip_casts(lg["a"][0]), name="get_uniform_random_double", cls=cls)
                    chk.require(okf, "X7", "%s: the drawn optical depth is -log(u) of a generator value u in [0,1)" %
                                d["full"].split("(")[0], where(x, d), "the target optical depth is `%s`: with u in [0,1) "
                                "only -log(u) is guaranteed positive" % C.pretty(arg), function=d["full"],
                                construct="optical depth draw")
    chk.floor("X7", n7, 3)
    # ---- X8: every stream is seeded by a function of the input --------------------------------------
    n8 = c13_seed.rule_X8(chk, prog)
    chk.floor("X8", n8, 15)
    # ---- X9: different seeds give different generator states (c13_inject.py) ------------------------------
    from . import c13_inject
    chk.floor("X9", c13_inject.rule_X9(chk, u), 1)
    chk.floor("X", len(chk.obligations), 40)
